"""Shared driver library for /verif checks (see DESIGN.md section 2.4).

A check script (checks/cXX.py) defines `run(R)` using the helpers below:
  R.gen(cmd, out)                 run a translator (Go, harness module) -> coq/Gen/<out>
  R.coq_make(targets)             build .vo files (full build, never -vos) under a lock + timeout
  R.coq_property()                compile Properties/<ID>.v, capture Print Assumptions
  R.audit()                       grep the development for forbidden constructs
  R.harness(cmd, args)            build (-tags verif) and run a Go harness against /repo's tree
  R.coq_cases(dir, ...)           evaluate observations in Coq (sharded vm_compute)
  R.finish()                      classify, write evidence, print lines, exit
"""
import fcntl, glob, json, os, re, shutil, subprocess, sys, time, hashlib
from concurrent.futures import ThreadPoolExecutor

VERIF = os.path.dirname(os.path.dirname(os.path.abspath(__file__)))
REPO = os.environ.get("VERIF_REPO", "/repo")
WORK = os.path.join(VERIF, "work")
HARNESS = os.path.join(VERIF, "harness")
ALT = REPO != "/repo"          # VERIF_REPO=<scratch worktree>: check another tree without touching /repo
ALT_TAG = hashlib.sha1(REPO.encode()).hexdigest()[:10] if ALT else ""
if ALT:
    # separate work area, Coq tree (generated files differ) and harness binaries per alternate repo
    WORK = os.path.join(VERIF, "work", "alt-" + ALT_TAG)
    COQ = os.path.join(WORK, "coq")
    os.makedirs(WORK, exist_ok=True)
    subprocess.run(["rsync", "-a", "--exclude", "Gen/*.v", "--exclude", "Gen/*.vo", "--exclude", "Gen/*.glob",
                    os.path.join(VERIF, "coq") + "/", COQ + "/"], check=True)
else:
    COQ = os.path.join(VERIF, "coq")
GOENV = dict(os.environ, GOFLAGS="-mod=mod", GOPROXY="off", GOSUMDB="off", GOTOOLCHAIN="local",
             CGO_ENABLED=os.environ.get("CGO_ENABLED", "1"))
STD_AXIOMS = {  # standard-library axioms that may appear (each is named in the trusted base)
    "ClassicalDedekindReals.sig_not_dec", "ClassicalDedekindReals.sig_forall_dec",
    "FunctionalExtensionality.functional_extensionality_dep", "Classical_Prop.classic",
    "functional_extensionality_dep", "classic", "sig_not_dec", "sig_forall_dec",
}
FORBIDDEN = r"\b(Admitted|admit|Axiom|Axioms|Parameter|Parameters|Conjecture|Conjectures|Unset\s+Guard|bypass_check|type-in-type|impredicative-set|Admit\s+Obligations|native_compute)\b"


def sh(cmd, cwd=None, env=None, timeout=None, input=None):
    t0 = time.time()
    try:
        p = subprocess.run(cmd, cwd=cwd, env=env, timeout=timeout, input=input, shell=isinstance(cmd, str),
                           stdout=subprocess.PIPE, stderr=subprocess.STDOUT, text=True, errors="replace")
        return p.returncode, p.stdout, time.time() - t0
    except subprocess.TimeoutExpired as e:
        out = e.stdout if isinstance(e.stdout, str) else (e.stdout or b"").decode("utf8", "replace")
        return 124, (out or "") + "\n[timeout after %ss]" % timeout, time.time() - t0


class Lock:
    def __init__(self, name):
        os.makedirs(WORK, exist_ok=True)
        self.path = os.path.join(WORK, name + ".lock")
    def __enter__(self):
        self.f = open(self.path, "w")
        fcntl.flock(self.f, fcntl.LOCK_EX)
        return self
    def __exit__(self, *a):
        fcntl.flock(self.f, fcntl.LOCK_UN)
        self.f.close()


def write_if_changed(path, content):
    try:
        if open(path).read() == content:
            return False
    except FileNotFoundError:
        pass
    with open(path, "w") as f:
        f.write(content)
    return True


def coq_project():
    """(Re)write _CoqProject from the files on disk and make sure a Makefile exists."""
    files = []
    for d in ("Base", "Gen", "Model", "Proofs", "Properties"):
        files += sorted(glob.glob(os.path.join(COQ, d, "*.v")))
    rel = [os.path.relpath(f, COQ) for f in files]
    changed = write_if_changed(os.path.join(COQ, "_CoqProject"), "-Q . Sekai\n" + "\n".join(rel) + "\n")
    if changed or not os.path.exists(os.path.join(COQ, "Makefile")):
        rc, out, _ = sh(["coq_makefile", "-f", "_CoqProject", "-o", "Makefile"], cwd=COQ)
        if rc != 0:
            raise RuntimeError("coq_makefile failed: " + out)


def known_findings():
    """known-findings.txt:  finding: property=<id> sig=<signature> <text>   |   fixed: property=<id> <commit> <text>"""
    res = {"finding": [], "fixed": []}
    path = os.path.join(VERIF, "known-findings.txt")
    if os.path.exists(path):
        for line in open(path):
            line = line.strip()
            if not line or line.startswith("#"):
                continue
            m = re.match(r"(finding|fixed):\s+property=(\S+)\s+(.*)$", line)
            if not m:
                continue
            kind, pid, rest = m.groups()
            if kind == "finding":
                m2 = re.match(r"sig=(\S+)\s*(.*)$", rest)
                if m2:
                    res["finding"].append({"property": pid, "sig": m2.group(1), "text": m2.group(2)})
            else:
                res["fixed"].append({"property": pid, "text": rest})
    return res


class ShardSlot:
    """One of N_SLOTS machine-wide slots (flock on work/slots/<i>.lock)."""
    N_SLOTS = 16

    def __enter__(self):
        import fcntl
        d = os.path.join(VERIF, "work", "slots")
        os.makedirs(d, exist_ok=True)
        while True:
            for i in range(self.N_SLOTS):
                f = open(os.path.join(d, "%d.lock" % i), "w")
                try:
                    fcntl.flock(f, fcntl.LOCK_EX | fcntl.LOCK_NB)
                    self.f = f
                    return self
                except OSError:
                    f.close()
            time.sleep(0.3)

    def __exit__(self, *a):
        import fcntl
        fcntl.flock(self.f, fcntl.LOCK_UN)
        self.f.close()


class Run:
    def __init__(self, pid, tier, seed):
        self.pid, self.tier, self.seed = pid, tier, seed
        self.t0 = time.time()
        self.work = os.path.join(WORK, pid)
        shutil.rmtree(self.work, ignore_errors=True)
        os.makedirs(self.work, exist_ok=True)
        self.log = open(os.path.join(self.work, "check.log"), "w")
        self.obligations = []      # (name, ok, detail)
        self.broken = []           # names of broken proof/correspondence obligations
        self.violations = []       # {"sig":..., "what":..., "case":...}   (on REAL observations)
        self.assumptions = []      # axioms printed by Print Assumptions
        self.theorems = []
        self.samples = []
        self.coverage = {}
        self.trusted = [
            "Coq 8.16.1 kernel (coqc; vm_compute used; no native_compute)",
            "Go translators and harness under /verif/harness (observers, canonicalisation)",
            "go toolchain, cosmos-sdk v0.47.6 baseapp/bank/auth, CometBFT v0.37.2: run, not verified",
        ]
        self.assume = []
        self.env = dict(GOENV, VERIF_SEED=str(seed), VERIF_TIER=tier)

    # ------------------------------------------------------------------ logging
    def note(self, *a):
        msg = " ".join(str(x) for x in a)
        self.log.write(msg + "\n"); self.log.flush()
        if os.environ.get("VERIF_VERBOSE"):
            print("[%s] %s" % (self.pid, msg), file=sys.stderr)

    def oblige(self, name, ok, detail=""):
        self.obligations.append((name, bool(ok), detail))
        if not ok:
            self.broken.append(name)
            self.note("BROKEN obligation:", name, detail[-2000:])
        else:
            self.note("ok:", name)
        return ok

    # ------------------------------------------------------------------ translators
    def gen(self, cmd, out, args=()):
        """go run ./cmd/<cmd> -repo REPO -out coq/Gen/<out>.  A translator that cannot
        translate the tree is a broken obligation."""
        os.makedirs(os.path.join(COQ, "Gen"), exist_ok=True)
        binp = self.gobuild(cmd)
        if not binp:
            return self.oblige("translator %s builds" % cmd, False, "build failed")
        with Lock("coq"):
            rc, o, dt = sh([binp, "-repo", REPO, "-out", os.path.join(COQ, "Gen", out)] + list(args), env=self.env, timeout=300)
        self.note("gen", cmd, "rc", rc, "%.1fs" % dt, o[-1500:])
        return self.oblige("translator %s accepts the tree" % cmd, rc == 0, o)

    # ------------------------------------------------------------------ Coq
    def coq_make(self, targets, timeout=1500):
        """Full .vo build of the given files (relative to coq/, e.g. 'Proofs/NetProps.vo')."""
        with Lock("coq"):
            coq_project()
            rc, o, dt = sh(["timeout", str(timeout), "make", "-j16", "-k"] + list(targets), cwd=COQ)
        self.note("make", targets, "rc", rc, "%.1fs" % dt)
        if rc != 0:
            self.note(o[-4000:])
        res = {}
        for t in targets:
            ok = os.path.exists(os.path.join(COQ, t)) and rc == 0 or self._vo_fresh(t)
            res[t] = ok
        # attribute failure to files
        failed = re.findall(r'File "\./([^"]+)", line (\d+)', o) if rc != 0 else []
        return rc == 0, o, failed

    def _vo_fresh(self, t):
        vo = os.path.join(COQ, t)
        v = vo[:-1]
        return os.path.exists(vo) and os.path.exists(v) and os.path.getmtime(vo) >= os.path.getmtime(v)

    def coq_files(self, files, what="model and proofs"):
        """Build each file; every file is one obligation group (named by file)."""
        ok, o, failed = self.coq_make([f[:-2] + ".vo" if f.endswith(".v") else f for f in files])
        bad = sorted(set(f for f, _ in failed))
        for f in files:
            vo = f[:-2] + ".vo"
            good = self._vo_fresh(vo) and f not in bad
            detail = ""
            if not good:
                m = re.search(r'File "\./%s", line (\d+).*?\n(.*?)(?:\nmake|\Z)' % re.escape(f), o, re.S)
                detail = (m.group(0)[:1500] if m else o[-1500:])
            self.oblige("coq: %s compiles (all proofs Qed)" % f, good, detail)
        return ok

    def coq_property(self, fname=None, timeout=900):
        """Compile Properties/<ID>.v with coqc directly, so Print Assumptions output is captured
        on every run. Counts theorems and collects axioms."""
        fname = fname or ("Properties/%s.v" % self.pid)
        with Lock("coq"):
            rc, o, dt = sh(["timeout", str(timeout), "coqc", "-Q", ".", "Sekai", fname], cwd=COQ)
        self.note("coqc", fname, "rc", rc, "%.1fs" % dt)
        src = open(os.path.join(COQ, fname)).read()
        thms = re.findall(r"^\s*(?:Theorem|Corollary)\s+([A-Za-z0-9_']+)", src, re.M)
        self.theorems = thms
        closed = len(re.findall(r"Closed under the global context", o))
        axioms = set()
        in_ax = False
        for ln in o.splitlines():
            if ln.strip() == "Axioms:":
                in_ax = True
                continue
            if ln.startswith("Closed under the global context"):
                in_ax = False
                continue
            if in_ax:
                if ln[:1] in (" ", "\t") or not ln.strip():
                    continue          # continuation of the previous axiom's type
                m = re.match(r"^([A-Za-z_][\w.']*)", ln)
                if m:
                    axioms.add(m.group(1))
                else:
                    in_ax = False
        self.assumptions = sorted(axioms)
        n_pa = len(re.findall(r"^\s*Print Assumptions", src, re.M))
        if rc != 0:
            m = re.search(r'File "[^"]+", line (\d+), characters.*?\n(.*)', o, re.S)
            line = int(m.group(1)) if m else 0
            # which theorem does the failing line belong to
            name = "?"
            for mm in re.finditer(r"^\s*(?:Theorem|Corollary|Lemma|Example)\s+([A-Za-z0-9_']+)", src, re.M):
                if src.count("\n", 0, mm.start()) + 1 <= line:
                    name = mm.group(1)
            self.oblige("coq: %s theorem %s" % (fname, name), False, o[-2500:])
            return False
        self.oblige("coq: %s (%d theorems) checked" % (fname, len(thms)), True)
        bad = [a for a in axioms if a.split(".")[-1] not in {x.split(".")[-1] for x in STD_AXIOMS}]
        self.oblige("Print Assumptions: %d theorems closed, axioms %s" % (closed, sorted(axioms) or "none"),
                    not bad and (closed + (1 if axioms else 0) >= 1) and n_pa >= len(thms), "unexpected axioms: %s" % bad)
        self.assume_axioms = sorted(axioms)
        return True

    def coqchk(self, timeout=3000):
        """Thorough tier: re-check the compiled property file and everything it depends on with the
        independent checker; report the axioms it lists."""
        mod = "Sekai.Properties.%s" % self.pid
        with Lock("coq"):
            rc, o, dt = sh(["timeout", str(timeout), "coqchk", "-silent", "-o", "-Q", ".", "Sekai", mod], cwd=COQ)
        self.note("coqchk", mod, "rc", rc, "%.1fs" % dt, o[-1500:])
        m = re.search(r"\* Axioms:(.*?)\n\s*\n\* Constants", o, re.S)
        ax = " ".join((m.group(1) if m else "?").split())
        flags = re.findall(r"relying on (type-in-type|unsafe \(co\)fixpoints): (.*)", o) + re.findall(r"positivity is assumed: (.*)", o)
        clean = all("<none>" in (f[-1] if isinstance(f, tuple) else f) for f in flags)
        self.coverage["coqchk"] = {"axioms": ax, "seconds": round(dt, 1)}
        return self.oblige("coqchk -o %s: axioms %s; no type-in-type / unsafe fixpoints / assumed positivity" % (mod, ax), rc == 0 and clean, o[-1500:])

    def audit(self):
        """No Admitted/admit/Axiom/Parameter/... anywhere in the development."""
        hits = []
        for f in glob.glob(os.path.join(COQ, "**", "*.v"), recursive=True):
            txt = open(f, errors="replace").read()
            txt = re.sub(r"\(\*.*?\*\)", "", txt, flags=re.S)
            for m in re.finditer(FORBIDDEN, txt):
                hits.append("%s: %s" % (os.path.relpath(f, COQ), m.group(0)))
            if re.search(r"^\s*(Variable|Variables|Hypothesis|Hypotheses|Context)\b", txt, re.M) and not re.search(r"^\s*Section\b", txt, re.M):
                hits.append("%s: Variable/Hypothesis outside a Section" % os.path.relpath(f, COQ))
        return self.oblige("audit: no Admitted/admit/Axiom/Parameter/guard switches in coq/", not hits, "; ".join(hits[:20]))

    # ------------------------------------------------------------------ Go harness
    def gobuild(self, cmd):
        bindir = os.path.join(HARNESS, "bin") if not ALT else os.path.join(WORK, "bin")
        os.makedirs(bindir, exist_ok=True)
        binp = os.path.join(bindir, cmd)
        extra = []
        if ALT:
            # alternate module file whose replace directive points at the scratch worktree
            mod = open(os.path.join(HARNESS, "go.mod")).read().replace("github.com/KiraCore/sekai => /repo", "github.com/KiraCore/sekai => " + REPO)
            write_if_changed(os.path.join(WORK, "go.alt.mod"), mod)
            shutil.copyfile(os.path.join(REPO, "go.sum"), os.path.join(WORK, "go.alt.sum"))
            extra = ["-modfile", os.path.join(WORK, "go.alt.mod")]
        else:
            try:  # go.sum must follow /repo's
                if open(os.path.join(REPO, "go.sum")).read() != open(os.path.join(HARNESS, "go.sum")).read():
                    shutil.copyfile(os.path.join(REPO, "go.sum"), os.path.join(HARNESS, "go.sum"))
            except Exception:
                pass
        with Lock("gobuild-" + cmd):
            rc, o, dt = sh(["go", "build"] + extra + ["-tags", "verif", "-o", binp, "./cmd/" + cmd], cwd=HARNESS, env=self.env, timeout=1200)
        self.note("go build", cmd, "rc", rc, "%.1fs" % dt)
        if rc != 0:
            self.note(o[-3000:])
            self.oblige("harness %s builds against /repo's working tree" % cmd, False, o[-2000:])
            return None
        return binp

    def harness(self, cmd, args=(), outdir=None, timeout=1800, env=None):
        binp = self.gobuild(cmd)
        if not binp:
            return None
        outdir = outdir or os.path.join(self.work, cmd)
        shutil.rmtree(outdir, ignore_errors=True)
        os.makedirs(outdir, exist_ok=True)
        e = dict(self.env)
        if env:
            e.update(env)
        rc, o, dt = sh([binp, "-out", outdir] + [str(a) for a in args], env=e, timeout=timeout, cwd=outdir)
        self.note("harness", cmd, args, "rc", rc, "%.1fs" % dt, o[-2000:])
        if rc != 0:
            self.oblige("harness %s runs" % cmd, False, o[-2000:])
            return None
        return outdir

    # ------------------------------------------------------------------ Coq evaluation of observations
    def coq_cases(self, outdir, shards=16, timeout=900, label="correspondence"):
        """outdir holds pre.v (preamble), cases.txt (one Coq term per line), meta.json with
        {"case_type":..., "mismatch_fn":..., "violation_fn":...}.  Evaluates in parallel shards with
        vm_compute; returns (mismatch indices, [(index, [clauses])]) or None when Coq fails."""
        meta = json.load(open(os.path.join(outdir, "meta.json")))
        pre = open(os.path.join(outdir, "pre.v")).read()
        cases = [l.rstrip("\n") for l in open(os.path.join(outdir, "cases.txt")) if l.strip()]
        n = len(cases)
        k = max(1, min(shards, (n + 49) // 50))
        per = (n + k - 1) // k
        jobs = []
        for i in range(k):
            chunk = cases[i * per:(i + 1) * per]
            if not chunk:
                continue
            name = "Shard%d" % i
            body = pre + "\nDefinition cases : list %s := [\n  %s\n]%%string.\n" % (meta["case_type"], ";\n  ".join(chunk))
            body += "Definition M := Eval vm_compute in (%s cases).\nPrint M.\n" % meta["mismatch_fn"]
            if meta.get("violation_fn"):
                body += "Definition V := Eval vm_compute in (%s cases).\nPrint V.\n" % meta["violation_fn"]
            open(os.path.join(outdir, name + ".v"), "w").write(body)
            jobs.append((i * per, name))
        def one(job):
            off, name = job
            # machine-wide cap on concurrent evaluation shards (each can take 1-2 GB): checks that run
            # at the same time share the slots; a shard killed without output (out of memory) is
            # evaluated again, alone in its slot, before it counts as a failure
            for attempt in range(3):
                with ShardSlot():
                    rc, o, dt = sh(["timeout", str(timeout), "coqc", "-Q", COQ, "Sekai", name + ".v"], cwd=outdir)
                if rc == 0 or (o.strip() and rc not in (137, -9)) or rc == 124:
                    break
                time.sleep(20 * (attempt + 1))
            return off, name, rc, o, dt
        mism, viol, failed = [], [], []
        with ThreadPoolExecutor(max_workers=16) as ex:
            for off, name, rc, o, dt in ex.map(one, jobs):
                if rc != 0:
                    failed.append((name, o[-1500:]))
                    continue
                flat = " ".join(o.split())
                m = re.search(r"M = (\[.*?\]) : list nat", flat)
                if not m:
                    failed.append((name, "cannot parse M: " + flat[:500]))
                    continue
                mism += [off + int(x) for x in re.findall(r"(\d+)%nat", m.group(1))]
                if meta.get("violation_fn"):
                    mv = re.search(r"V = (\[.*\]) : list \(nat \* list string\)", flat)
                    if not mv:
                        failed.append((name, "cannot parse V: " + flat[:500]))
                        continue
                    for idx, cl in re.findall(r"\((\d+)%nat, \[(.*?)\]\)", mv.group(1)):
                        viol.append((off + int(idx), re.findall(r'"([^"]*)"%string', cl)))
        self.note("coq_cases", outdir, "n", n, "shards", len(jobs), "mismatches", len(mism), "violations", len(viol), "failed", len(failed))
        if failed:
            self.oblige("%s: Coq evaluation of observations" % label, False, json.dumps(failed)[:3000])
            return None
        return sorted(mism), sorted(viol), n

    # ------------------------------------------------------------------ result
    def violation(self, sig, what, case=None):
        self.violations.append({"sig": sig, "what": what, "case": case})

    def finish(self, level="proof", technique="", extra=None, checker_cmd=None):
        kf = known_findings()
        known = [f for f in kf["finding"] if f["property"] == self.pid]
        known_sigs = {f["sig"]: f for f in known}
        new, listed = [], {}
        for v in self.violations:
            if v["sig"] in known_sigs:
                listed.setdefault(v["sig"], []).append(v)
            else:
                new.append(v)
        wall = time.time() - self.t0
        rc = 0
        evdir = os.path.join(VERIF, "evidence") if not ALT else os.path.join(WORK, "evidence")
        os.makedirs(evdir, exist_ok=True)
        replay = None
        for sig in sorted(listed):
            print("KNOWN-FINDING: property=%s %s -- %s" % (self.pid, sig, known_sigs[sig]["text"]))
        if new:
            replay = os.path.join(self.work, "replay.json")
            json.dump({"property": self.pid, "violations": new[:20], "broken_obligations": self.broken,
                       "how": "bin/check %s --replay %s" % (self.pid, replay)}, open(replay, "w"), indent=1, default=str)
            print("VIOLATION property=%s replay=%s" % (self.pid, replay))
            for v in new[:5]:
                print("  %s: %s" % (v["sig"], v["what"]))
            rc = 1
        elif self.broken:
            replay = os.path.join(self.work, "replay.json")
            json.dump({"property": self.pid, "violations": [], "broken_obligations": self.broken,
                       "details": [(n, d[-3000:]) for n, ok, d in self.obligations if not ok],
                       "note": "a proof obligation or the model/code correspondence no longer checks; the search over the model and the implementation found no concrete failing input"},
                      open(replay, "w"), indent=1, default=str)
            print("VIOLATION property=%s replay=%s no-failing-input-found" % (self.pid, replay))
            for b in self.broken[:5]:
                print("  broken: %s" % b)
            rc = 1
        n_ob = len(self.obligations)
        n_ok = sum(1 for _, ok, _ in self.obligations if ok)
        cov = {
            "obligations": max(n_ob, 1), "discharged": n_ok if n_ob else 0,
            "checker_cmd": checker_cmd or ("bin/check %s --tier %s" % (self.pid, self.tier)),
            "trusted_base": self.trusted + (["axioms under the property theorems (Print Assumptions): " + (", ".join(self.assumptions) or "none (closed under the global context)")]),
            "obligation_list": [{"name": n, "ok": ok} for n, ok, _ in self.obligations],
            "theorems": self.theorems,
            "samples": self.samples[:8] or ["(no observation samples recorded)"],
            "known_findings_reproduced": sorted(listed),
        }
        cov.update(self.coverage)
        if extra:
            cov.update(extra)
        if level not in ("exploration", "fault_enumeration", "model_checking", "proof", "translation_validation", "other"):
            cov["level_qualifier"] = level
            level = "proof" if level.startswith("proof") else "other"
        ev = {"property_id": self.pid, "tier": self.tier, "seed": int(self.seed), "level": level,
              "coverage": cov, "assumptions": self.assume, "wall_s": round(wall, 2),
              "violations": len(new) + (1 if (self.broken and not new) else 0), "technique": technique}
        json.dump(ev, open(os.path.join(evdir, self.pid + ".json"), "w"), indent=1, default=str)
        self.note("finish rc", rc, "wall %.1fs" % wall)
        if rc == 0:
            print("OK property=%s tier=%s obligations=%d/%d wall=%.0fs" % (self.pid, self.tier, n_ok, n_ob, wall))
        sys.exit(rc)
