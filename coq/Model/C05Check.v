(* C05: observation type shared with C15, one-step correspondence (model vs. what the real code
   did, starting from the OBSERVED previous state), and the decidable spec checker of C05 applied to
   the REAL observations: the updates returned by the real staking EndBlocker, the result of the
   real CometBFT ValidatorSet.UpdateWithChangeSet on them, and the statuses in the real store. *)
From Sekai Require Import Base.Prelude Base.Dec Model.Validators.

(* observation after one operation; validators / signing infos as patches, the rest [None] = unchanged.
   o_eb (end block only): (updates returned (key, power), consensus applied them?, consensus set after (key, power)) *)
Record obs := mkObs {
  o_res : res;
  o_gone : list Z;              (* validator addresses that disappeared (address rotation) *)
  o_dv : list (Z * vrec);
  o_dsi : list (Z * sinfo);
  o_cidx : option (list (Z * Z));
  o_pend : option (list (Z * Z));
  o_rm : option (list Z);
  o_re : option (list Z);
  o_jail : option (list (Z * Z));
  o_pk : option (list Z);
  o_eb : option (list (Z * Z) * bool * list (Z * Z))
}.
Inductive c05_case := Case (cfg : nat) (steps : list (op * obs)).

Definition dflt {A} (o : option A) (d : A) : A := match o with Some x => x | None => d end.

(* the observed state after [o], given the observed state before *)
Definition observe (s : state) (o : op) (b : obs) : state :=
  let '(t, h) := match o with ONewBlock dt => (st_time s + dt, st_height s + 1) | _ => (st_time s, st_height s) end in
  let '(cs, halt) := match o_eb b with
                     | Some (_, applied, set) => (map fst set, st_halt s || negb applied)
                     | None => (st_cset s, st_halt s) end in
  mkSt (fold_left (fun a e => upd (fst e) (snd e) a) (o_dv b) (fold_left (fun a v => del v a) (o_gone b) (st_vals s)))
       (dflt (o_pend b) (st_pend s)) (dflt (o_rm b) (st_rm s)) (dflt (o_re b) (st_re s))
       (dflt (o_cidx b) (st_cidx s))
       (fold_left (fun a e => upd (fst e) (snd e) a) (o_dsi b) (st_si s))
       (dflt (o_jail b) (st_jail s)) (dflt (o_pk b) (st_pk s)) t h cs halt.

(* ---------------------------------------------------------------- equality of states *)
Fixpoint list_eqb {A} (e : A -> A -> bool) (l m : list A) : bool :=
  match l, m with [], [] => true | x :: l', y :: m' => e x y && list_eqb e l' m' | _, _ => false end.
Definition vrec_eqb (a b : vrec) : bool :=
  status_eqb (v_status a) (v_status b) && (v_rank a =? v_rank b) && (v_streak a =? v_streak b) && (v_cons a =? v_cons b).
Definition sinfo_eqb (a b : sinfo) : bool :=
  (si_start a =? si_start b) && (si_until a =? si_until b) && (si_conf a =? si_conf b) && (si_misch a =? si_misch b)
  && (si_last a =? si_last b) && (si_missed a =? si_missed b) && (si_produced a =? si_produced b).
Definition pair_eqb {A B} (ea : A -> A -> bool) (eb : B -> B -> bool) (x y : A * B) : bool := ea (fst x) (fst y) && eb (snd x) (snd y).
Definition zz_eqb := pair_eqb Z.eqb Z.eqb.
Definition state_eqb (a b : state) : bool :=
  list_eqb (pair_eqb Z.eqb vrec_eqb) (st_vals a) (st_vals b)
  && list_eqb zz_eqb (st_pend a) (st_pend b)
  && list_eqb Z.eqb (st_rm a) (st_rm b) && list_eqb Z.eqb (st_re a) (st_re b)
  && list_eqb zz_eqb (st_cidx a) (st_cidx b)
  && list_eqb (pair_eqb Z.eqb sinfo_eqb) (st_si a) (st_si b)
  && list_eqb zz_eqb (st_jail a) (st_jail b)
  && list_eqb Z.eqb (st_pk a) (st_pk b)
  && (st_time a =? st_time b) && (st_height a =? st_height b)
  && list_eqb Z.eqb (st_cset a) (st_cset b) && Bool.eqb (st_halt a) (st_halt b).

(* ---------------------------------------------------------------- correspondence *)
(* one step of the model from the observed state must give the observed next state, the observed
   result, and (end block) the observed update list; [apply_updates] is thereby compared with the
   real ValidatorSet.UpdateWithChangeSet (error / no error, resulting key set) *)
Definition step_matches (cfg : config) (s : state) (o : op) (b : obs) : bool :=
  let s' := observe s o b in
  let '(m, r) := step cfg s o in
  res_eqb r (o_res b) && state_eqb m s'
  && match o, o_eb b with
     | OEndBlock, Some (ups, _, _) => let '(_, _, mups) := end_block s in list_eqb zz_eqb mups ups
     | OEndBlock, None => false
     | OGenesis _, Some (ups, _, _) => list_eqb zz_eqb (genesis_updates s) ups
     | OGenesis _, None => false
     | _, Some _ => false
     | _, None => true
     end.

Fixpoint steps_match (cfg : config) (s : state) (l : list (op * obs)) : bool :=
  match l with
  | [] => true
  | (o, b) :: r => step_matches cfg s o b && steps_match (next_cfg cfg o) (observe s o b) r
  end.
(* index of the first step that does not match (debugging aid) *)
Fixpoint first_diff (cfg : config) (s : state) (l : list (op * obs)) (n : nat) : option nat :=
  match l with
  | [] => None
  | (o, b) :: r => if step_matches cfg s o b then first_diff (next_cfg cfg o) (observe s o b) r (S n) else Some n
  end.

Section Run.
Variable cfgs : list config.
Variable init : state.

Definition case_matches (c : c05_case) : bool :=
  match c with Case ci steps => match nth_error cfgs ci with None => false | Some cfg => steps_match cfg init steps end end.
Fixpoint mismatches_from (n : nat) (cs : list c05_case) : list nat :=
  match cs with [] => [] | c :: r => if case_matches c then mismatches_from (S n) r else n :: mismatches_from (S n) r end.
Definition c05_mismatches (cs : list c05_case) : list nat := mismatches_from 0 cs.
Definition c05_first_diffs (cs : list c05_case) : list (option nat) :=
  map (fun c => match c with Case ci steps => match nth_error cfgs ci with None => Some O | Some cfg => first_diff cfg init steps 0 end end) cs.

(* ---------------------------------------------------------------- the property, on real observations
   Written from the property text: the updates of every block must be applicable by the consensus
   engine (no duplicate key, no removal of an absent key, never an empty set), and afterwards the
   consensus set must be exactly the validators the application records as active, each with power one.
   A violation is named by what went wrong and by the last operation that touched the offending
   validator in that block together with its status at the start of the block. *)
Local Open Scope string_scope.
Definition status_name (a : status) : string :=
  match a with SActive => "ACTIVE" | SInactive => "INACTIVE" | SPaused => "PAUSED" | SJailed => "JAILED" end.
Definition op_label (o : op) : string :=
  match o with
  | OClaim _ _ _ => "claim" | OPause _ => "pause" | OUnpause _ => "unpause" | OActivate _ => "activate"
  | OVotes _ => "downtime" | OEvidence _ => "evidence" | OUnjail _ => "unjail" | OReset => "reset"
  | OUpPause _ => "upgrade-pause" | ONewBlock _ => "newblock" | OEndBlock => "endblock"
  | ORotate _ _ => "rotate" | OGenesis _ => "genesis-import" | OSetProp _ _ _ => "set-property" | OUpgrade => "upgrade"
  end.

Definition vals_with_key (vals : list (Z * vrec)) (k : Z) : list Z :=
  map fst (filter (fun e => (v_cons (snd e) =? k)%Z) vals).
Definition status_changed (a b : list (Z * vrec)) (v : Z) : bool :=
  match lookup v a, lookup v b with
  | Some x, Some y => negb (status_eqb (v_status x) (v_status y))
  | None, Some _ => true
  | _, _ => false end.

(* per-block bookkeeping of the checker (all from observations): status at the start of the block and,
   per validator, the last operation of this block that had an effect on it (status, or membership in
   one of the three queues) together with the effective operation before that one.  A violation is
   named  <clause>:<last effective op>[:after-<the one before>]:<status at block start>. *)
Record chk := mkChk { ck_start : list (Z * vrec); ck_eff : list (Z * (string * option string)); ck_last_rm : option Z }.

Definition start_name (c : chk) (v : Z) : string :=
  match lookup v (ck_start c) with Some r => status_name (v_status r) | None => "NEW" end.
Definition label_in (c : chk) (v : Z) : string :=
  (match lookup v (ck_eff c) with
   | Some (l, Some p) => l ++ ":after-" ++ p
   | Some (l, None) => l
   | None => "none" end) ++ ":" ++ start_name c v.
Definition label_of_key (c : chk) (vals : list (Z * vrec)) (k : Z) : string :=
  match vals_with_key vals k with
  | [v] => label_in c v
  | [] => "unknown-key"
  | _ => "shared-consensus-key"
  end.

Fixpoint dup_keys (l : list Z) : list Z :=
  match l with [] => [] | x :: r => if smem x r then x :: dup_keys r else dup_keys r end.

Definition end_block_clauses (c : chk) (s s' : state) (b : obs) : list string :=
  match o_res b, o_eb b with
  | ROk, Some (ups, applied, set) =>
    let vals := st_vals s' in
    let cs := st_cset s in
    let keys := map fst ups in
    let c_dup := map (fun k => "dup-update:" ++ label_of_key c vals k) (dup_keys keys) in
    let c_neg := if existsb (fun u => (snd u <? 0)%Z) ups then ["negative-power"] else [] in
    let c_abs := map (fun u => "absent-removal:" ++ label_of_key c vals (fst u))
                     (filter (fun u => (snd u =? 0)%Z && negb (smem (fst u) cs)) ups) in
    let removed := filter (fun u => (snd u =? 0)%Z) ups in
    let c_pow := if forallb (fun e => (snd e =? 1)%Z) set && forallb (fun u => (snd u =? 0)%Z || (snd u =? 1)%Z) ups then [] else ["power-not-one"] in
    match (c_dup ++ c_neg ++ c_abs)%list with
    | [] =>
      if applied then
        let act := filter (fun e => is_active (v_status (snd e))) vals in
        let setk := map fst set in
        let c_a := map (fun e => "active-not-in-set:" ++ label_of_key c vals (v_cons (snd e)))
            (filter (fun e => negb (smem (v_cons (snd e)) setk)) act) in
        let c_b := map (fun k => "in-set-not-active:" ++ label_of_key c vals k)
            (filter (fun k => negb (existsb (fun e => (v_cons (snd e) =? k)%Z) act)) setk) in
        (c_a ++ c_b ++ c_pow)%list
      else
        (* nothing wrong with the individual entries and still refused: the set would be empty *)
        if (Nat.eqb (List.length removed) (List.length cs)) && forallb (fun u => (snd u =? 0)%Z) ups
        then ["empty-set:" ++ match ck_last_rm c with
                              | Some v => match lookup v vals with
                                          | Some r => label_of_key c vals (v_cons r)
                                          | None => label_in c v end
                              | None => "none" end]
        else ["not-applied"]
    | l => l
    end
  | RPanic, _ =>
      (* BlockValidatorUpdates panics when a queued address has no validator record *)
      match filter (fun v => match lookup v (st_vals s) with Some _ => false | None => true end) (st_rm s ++ st_re s)%list with
      | v :: _ => ["endblock-panic:" ++ label_in c v]
      | [] => ["endblock-panic"]
      end
  | _, _ => ["endblock-unobserved"]
  end.

(* validators on which the step had an effect *)
Definition affected (s s' : state) : list Z :=
  let ids := fold_left (fun a v => sadd v a)
               (map fst (st_vals s') ++ map fst (st_pend s) ++ map fst (st_pend s'))%list [] in
  filter (fun v => status_changed (st_vals s) (st_vals s') v
                   || negb (Bool.eqb (smem v (st_rm s)) (smem v (st_rm s')))
                   || negb (Bool.eqb (smem v (st_re s)) (smem v (st_re s')))
                   || negb (Bool.eqb (smem v (map fst (st_pend s))) (smem v (map fst (st_pend s'))))) ids.

Definition chk_next (c : chk) (s s' : state) (o : op) : chk :=
  match o with
  | ONewBlock _ | OEndBlock | OGenesis _ => mkChk (st_vals s') [] None
  | ORotate v v' =>
      (* the record keeps its history under both addresses *)
      let e := ("rotate", option_map fst (lookup v (ck_eff c))) in
      mkChk (match lookup v (ck_start c) with Some r => upd v' r (ck_start c) | None => ck_start c end)
            (upd v' e (upd v e (ck_eff c))) (ck_last_rm c)
  | _ =>
    let lbl := op_label o in
    let enq := filter (fun v => negb (smem v (st_rm s))) (st_rm s') in
    mkChk (ck_start c)
          (fold_left (fun a v => upd v (lbl, option_map fst (lookup v a)) a) (affected s s') (ck_eff c))
          (match rev enq with v :: _ => Some v | [] => ck_last_rm c end)
  end.

(* the application's validator set is every record found in the store: two records holding one
   consensus key can never be matched by a key-level consensus set; reported where it arises *)
Definition dup_cons_keys (vals : list (Z * vrec)) : list Z :=
  dup_keys (map (fun e : Z * vrec => v_cons (snd e)) vals).
Definition new_duplicates (s s' : state) (o : op) : list string :=
  let before := dup_cons_keys (st_vals s) in
  match filter (fun k => negb (smem k before)) (dup_cons_keys (st_vals s')) with
  | [] => []
  | _ => ["duplicate-consensus-key:" ++ op_label o]
  end.

Fixpoint c05_clauses (cfg : config) (c : chk) (s : state) (l : list (op * obs)) : list string :=
  match l with
  | [] => []
  | (o, b) :: r =>
    let s' := observe s o b in
    let here := match o with
                | OUpPause vs =>
                    (* [vs] is the harness' own record of who did not approve (persons, renamed by rotations):
                       approving validators keep their status, non-approving ACTIVE ones are paused *)
                    match o_res b with
                    | RPanic => ["blocker-panic:" ++ op_label o]
                    | _ =>
                      ((if forallb (fun e : Z * vrec => smem (fst e) vs || negb (status_changed (st_vals s) (st_vals s') (fst e))) (st_vals s')
                        then [] else ["upgrade-pause:approving-validator-paused"]) ++
                       (if forallb (fun e : Z * vrec => negb (smem (fst e) vs && is_active (v_status (snd e))) ||
                                      match lookup (fst e) (st_vals s') with Some r => status_eqb (v_status r) SPaused | None => false end) (st_vals s)
                        then [] else ["upgrade-pause:non-approving-validator-not-paused"]))%list
                    end
                | OVotes _ | OEvidence _ | OUpgrade =>
                    (* a BeginBlocker that panics stops the chain as surely as an unusable update *)
                    match o_res b with RPanic => ["blocker-panic:" ++ op_label o] | _ => [] end
                | OPause _ =>
                    (* the stated mechanism: a pause is refused when it would leave too few validators --
                       the code's documented guard is "more validators than max(MinValidators, 1)" *)
                    match o_res b with
                    | ROk => let n := Z.of_nat (List.length (st_vals s)) in
                             if ((n <=? c_minvals cfg) || (n <=? 1))%Z then ["pause-guard:accepted-with-too-few-validators"] else []
                    | _ => [] end
                | OEndBlock => end_block_clauses c s s' b
                | OGenesis _ => (* the InitChain response is the whole new consensus set *)
                    match o_res b with
                    | RPanic => ["genesis-import-empty-set"]
                    | _ => end_block_clauses (mkChk (st_vals s) [] None) (set_cons s [] (st_halt s)) s' b
                    end
                | _ => [] end in
    (here ++ new_duplicates s s' o ++ c05_clauses (next_cfg cfg o) (chk_next c s s' o) s' r)%list
  end.

Definition case_clauses (c : c05_case) : list string :=
  match c with Case ci steps =>
    match nth_error cfgs ci with None => ["cfg"] | Some cfg => c05_clauses cfg (mkChk (st_vals init) [] None) init steps end end.
Fixpoint violations_from (n : nat) (cs : list c05_case) : list (nat * list string) :=
  match cs with [] => [] | c :: r =>
    match case_clauses c with [] => violations_from (S n) r | cl => (n, cl) :: violations_from (S n) r end end.
Definition c05_violations (cs : list c05_case) : list (nat * list string) := violations_from 0 cs.
End Run.
