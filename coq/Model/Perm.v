(* C07 -- x/gov permissions as coded (definitions only).
   Sources: x/gov/keeper/util.go (CheckIfAllowedPermission), network_actor.go, permission_registry.go,
   types/types.go (Permissions Add.. / Remove.. / Is..), types/actor.go (SetRole/RemoveRole/HasRole),
   keeper/msg_server.go (permission / role editors, ClaimCouncilor, gated messages),
   x/gov/proposal_handler.go (the editors by proposal), x/gov/genesis.go (Init/ExportGenesis),
   x/recovery/keeper/msg_server.go (gov:network_actor part of RotateRecoveryAddress),
   x/layer2/keeper/keeper.go (CheckIfAllowedPermission wrapper).
   Addresses, role ids, role sids and permissions are integers.  The KV store prefixes are
   association lists: lookup = first match, [upd] = overwrite, [del] = delete. *)
From Sekai Require Import Base.Prelude.

Section AList.
  Context {V : Type}.
  Fixpoint lookup (k : Z) (l : list (Z * V)) : option V :=
    match l with [] => None | (k', v) :: r => if k' =? k then Some v else lookup k r end.
  Definition del (k : Z) (l : list (Z * V)) : list (Z * V) := filter (fun e => negb (fst e =? k)) l.
  Definition upd (k : Z) (v : V) (l : list (Z * V)) : list (Z * V) := (k, v) :: del k l.
End AList.

(* index prefixes 0x31 / 0x32 / 0x33 : sets of composite keys *)
Definition pair_eqb (x y : Z * Z) : bool := (fst x =? fst y) && (snd x =? snd y).
Definition pmem (x : Z * Z) (l : list (Z * Z)) : bool := existsb (pair_eqb x) l.
Definition padd (x : Z * Z) (l : list (Z * Z)) : list (Z * Z) := if pmem x l then l else x :: l.
Definition pdel (x : Z * Z) (l : list (Z * Z)) : list (Z * Z) := filter (fun y => negb (pair_eqb x y)) l.

Definition mem (x : Z) (l : list Z) : bool := existsb (Z.eqb x) l.
(* append(l[:i], l[i+1:]...) for the first i with l[i] = x *)
Fixpoint remove_first (x : Z) (l : list Z) : list Z :=
  match l with [] => [] | y :: r => if y =? x then r else y :: remove_first x r end.

(* ---------------- types.Permissions *)
Record perms := mkPerms { wl : list Z; bl : list Z }.
Definition no_perms : perms := mkPerms [] [].
Definition add_wl (p : Z) (ps : perms) : option perms :=
  if mem p (bl ps) then None else if mem p (wl ps) then None else Some (mkPerms (wl ps ++ [p]) (bl ps)).
Definition add_bl (p : Z) (ps : perms) : option perms :=
  if mem p (wl ps) then None else if mem p (bl ps) then None else Some (mkPerms (wl ps) (bl ps ++ [p])).
Definition rm_wl (p : Z) (ps : perms) : option perms :=
  if mem p (wl ps) then Some (mkPerms (remove_first p (wl ps)) (bl ps)) else None.
Definition rm_bl (p : Z) (ps : perms) : option perms :=
  if mem p (bl ps) then Some (mkPerms (wl ps) (remove_first p (bl ps))) else None.

(* ---------------- types.NetworkActor (status/votes/skin do not enter the permission rule) *)
Record actor := mkActor { a_roles : list Z; a_perms : perms }.
Definition default_actor : actor := mkActor [] no_perms.
Definition set_role (r : Z) (a : actor) : actor := if mem r (a_roles a) then a else mkActor (a_roles a ++ [r]) (a_perms a).
Definition remove_role (r : Z) (a : actor) : actor := mkActor (remove_first r (a_roles a)) (a_perms a).

Record state := mkState {
  actors : list (Z * actor);       (* 0x30 address -> NetworkActor *)
  rperms : list (Z * perms);       (* 0x10 role id -> Permissions *)
  rinfo  : list (Z * Z);           (* 0x11 role id -> sid *)
  rsid   : list (Z * Z);           (* 0x12 sid -> role id *)
  next_role : option Z;            (* 0x50 *)
  idx_pa : list (Z * Z);           (* 0x31 (permission, address) *)
  idx_ra : list (Z * Z);           (* 0x32 (role, address) *)
  idx_pr : list (Z * Z) }.         (* 0x33 (permission, role) *)

Definition empty_state : state := mkState [] [] [] [] None [] [] [].

Definition with_actors s v := mkState v (rperms s) (rinfo s) (rsid s) (next_role s) (idx_pa s) (idx_ra s) (idx_pr s).
Definition with_rperms s v := mkState (actors s) v (rinfo s) (rsid s) (next_role s) (idx_pa s) (idx_ra s) (idx_pr s).
Definition with_idx_pa s v := mkState (actors s) (rperms s) (rinfo s) (rsid s) (next_role s) v (idx_ra s) (idx_pr s).
Definition with_idx_ra s v := mkState (actors s) (rperms s) (rinfo s) (rsid s) (next_role s) (idx_pa s) v (idx_pr s).
Definition with_idx_pr s v := mkState (actors s) (rperms s) (rinfo s) (rsid s) (next_role s) (idx_pa s) (idx_ra s) v.

Definition save_actor (a : Z) (act : actor) (s : state) : state := with_actors s (upd a act (actors s)).
Definition actor_or_default (s : state) (a : Z) : actor := match lookup a (actors s) with Some x => x | None => default_actor end.

(* ---------------- CheckIfAllowedPermission (util.go): a map filled by four loops *)
Definition found_role_perms (s : state) (act : actor) : list perms :=
  flat_map (fun r => match lookup r (rperms s) with Some rp => [rp] | None => [] end) (a_roles act).
Definition writes (s : state) (act : actor) : list (Z * bool) :=
  let rps := found_role_perms s act in
  map (fun p => (p, true)) (flat_map wl rps) ++ map (fun p => (p, true)) (wl (a_perms act))
  ++ map (fun p => (p, false)) (flat_map bl rps) ++ map (fun p => (p, false)) (bl (a_perms act)).
(* permMap[k] after the writes, in order *)
Definition last_write (p : Z) (l : list (Z * bool)) : option bool :=
  fold_left (fun acc e => if fst e =? p then Some (snd e) else acc) l None.
Definition check_allowed (s : state) (a p : Z) : bool :=
  match lookup a (actors s) with
  | None => false
  | Some act => match last_write p (writes s act) with Some b => b | None => false end
  end.

(* ---------------- GetNetworkActorsByAbsoluteWhitelistPermission (network_actor.go) *)
Definition addrs_of_perm (s : state) (p : Z) : list Z := map snd (filter (fun e => fst e =? p) (idx_pa s)).
Definition roles_of_perm (s : state) (p : Z) : list Z := map snd (filter (fun e => fst e =? p) (idx_pr s)).
Definition addrs_of_role (s : state) (r : Z) : list Z := map snd (filter (fun e => fst e =? r) (idx_ra s)).
Definition voter_candidates (s : state) (p : Z) : list Z :=
  addrs_of_perm s p ++ flat_map (addrs_of_role s) (roles_of_perm s p).
Fixpoint dedup (seen l : list Z) : list Z :=
  match l with [] => [] | x :: r => if mem x seen then dedup seen r else x :: dedup (x :: seen) r end.
(* GetNetworkActorOrFail panics on an index entry without actor record *)
Definition voters (s : state) (p : Z) : outcome (list Z) :=
  let l := dedup [] (voter_candidates s p) in
  if forallb (fun a => match lookup a (actors s) with Some _ => true | None => false end) l then Ok l
  else Panic "expected network actor not found".

(* ---------------- keeper editors *)
Definition opt_err {A} (o : option A) (e : string) : outcome A := match o with Some a => Ok a | None => Err e end.

Definition k_add_wl_acc (s : state) (a p : Z) : outcome state :=
  let act := actor_or_default s a in
  do ps <- opt_err (add_wl p (a_perms act)) "whitelist";
  Ok (with_idx_pa (save_actor a (mkActor (a_roles act) ps) s) (padd (p, a) (idx_pa s))).
Definition k_add_bl_acc (s : state) (a p : Z) : outcome state :=
  let act := actor_or_default s a in
  do ps <- opt_err (add_bl p (a_perms act)) "blacklist";
  Ok (save_actor a (mkActor (a_roles act) ps) s).
Definition k_rm_wl_acc (s : state) (a p : Z) : outcome state :=
  let act := actor_or_default s a in
  do ps <- opt_err (rm_wl p (a_perms act)) "not whitelisted";
  Ok (with_idx_pa (save_actor a (mkActor (a_roles act) ps) s) (pdel (p, a) (idx_pa s))).
Definition k_rm_bl_acc (s : state) (a p : Z) : outcome state :=
  let act := actor_or_default s a in
  do ps <- opt_err (rm_bl p (a_perms act)) "not blacklisted";
  Ok (save_actor a (mkActor (a_roles act) ps) s).

Definition k_role_edit (f : Z -> perms -> option perms) (s : state) (r p : Z) : outcome perms :=
  match lookup r (rperms s) with
  | None => Err "role does not exist"
  | Some rp => opt_err (f p rp) "role permission"
  end.
Definition k_wl_role (s : state) (r p : Z) : outcome state :=
  do rp <- k_role_edit add_wl s r p; Ok (with_idx_pr (with_rperms s (upd r rp (rperms s))) (padd (p, r) (idx_pr s))).
Definition k_bl_role (s : state) (r p : Z) : outcome state :=
  do rp <- k_role_edit add_bl s r p; Ok (with_rperms s (upd r rp (rperms s))).
Definition k_rm_wl_role (s : state) (r p : Z) : outcome state :=
  do rp <- k_role_edit rm_wl s r p; Ok (with_idx_pr (with_rperms s (upd r rp (rperms s))) (pdel (p, r) (idx_pr s))).
Definition k_rm_bl_role (s : state) (r p : Z) : outcome state :=
  do rp <- k_role_edit rm_bl s r p; Ok (with_rperms s (upd r rp (rperms s))).

(* AssignRoleToActor / UnassignRoleFromActor: no existence checks *)
Definition k_assign_actor (s : state) (a : Z) (act : actor) (r : Z) : state :=
  with_idx_ra (save_actor a (set_role r act) s) (padd (r, a) (idx_ra s)).
Definition k_unassign_actor (s : state) (a : Z) (act : actor) (r : Z) : state :=
  with_idx_ra (save_actor a (remove_role r act) s) (pdel (r, a) (idx_ra s)).
Definition k_assign (s : state) (a r : Z) : outcome state :=
  match lookup r (rperms s) with
  | None => Err "role does not exist"
  | Some _ => let act := actor_or_default s a in
              if mem r (a_roles act) then Err "role already assigned" else Ok (k_assign_actor s a act r)
  end.
Definition k_unassign (s : state) (a r : Z) : outcome state :=
  match lookup r (rperms s) with
  | None => Err "role does not exist"
  | Some _ => let act := actor_or_default s a in
              if mem r (a_roles act) then Ok (k_unassign_actor s a act r) else Err "role not assigned"
  end.

(* GetRoleBySid: 0x12 then 0x11 *)
Definition role_by_sid (s : state) (sid : Z) : option Z :=
  match lookup sid (rsid s) with None => None | Some id => match lookup id (rinfo s) with Some _ => Some id | None => None end end.
Definition get_next_role (s : state) : Z := match next_role s with Some n => n | None => 1 end.
(* SetRole: info, sid registry, EMPTY permission record (overwrites) *)
Definition k_set_role (s : state) (id sid : Z) : state :=
  mkState (actors s) (upd id no_perms (rperms s)) (upd id sid (rinfo s)) (upd sid id (rsid s)) (next_role s)
          (idx_pa s) (idx_ra s) (idx_pr s).
Definition k_create_role (s : state) (sid : Z) : state * Z :=
  let id := get_next_role s in
  let s1 := k_set_role s id sid in
  (mkState (actors s1) (rperms s1) (rinfo s1) (rsid s1) (Some (id + 1)) (idx_pa s1) (idx_ra s1) (idx_pr s1), id).
Definition create_role_checked (s : state) (sid : Z) : outcome (state * Z) :=
  match role_by_sid s sid with Some _ => Err "role exists" | None => Ok (k_create_role s sid) end.

Fixpoint fold_out {A B} (f : A -> B -> outcome A) (a : A) (l : list B) : outcome A :=
  match l with [] => Ok a | b :: r => do a' <- f a b; fold_out f a' r end.

(* ---------------- operations *)
Inductive via := ByMsg (proposer : Z) | ByProp.
(* GOther p exact: a gated message of any module whose handler is meant to require permission p
   (probe through the real handler); exact = the probe message is valid, so it succeeds iff the gate passes *)
Inductive gkind := GPoll | GSubmit | GVote | GDapp | GOther (p : Z) (exact : bool).
Inductive op :=
| OWlAcc (v : via) (a p : Z) | OBlAcc (v : via) (a p : Z) | ORmWlAcc (v : via) (a p : Z) | ORmBlAcc (v : via) (a p : Z)
| OWlRole (v : via) (r p : Z) | OBlRole (v : via) (r p : Z) | ORmWlRole (v : via) (r p : Z) | ORmBlRole (v : via) (r p : Z)
| OCreateRole (v : via) (sid : Z) (w b : list Z)      (* by message: w = b = [] *)
| ORemoveRole (sid : Z)                               (* proposal only *)
| OAssign (v : via) (a r : Z) | OUnassign (v : via) (a r : Z)
| OClaimCouncilor (a : Z)
| OGate (k : gkind) (x : Z)                           (* gated messages that do not edit permissions *)
| OExportImport
| ORotate (a b : Z).

Definition PermSetPermissions := 1.
Definition PermClaimValidator := 2.
Definition PermClaimCouncilor := 3.
Definition PermUpsertRole := 9.
Definition PermCreateSetPoorNetworkMessagesProposal := 16.
Definition PermVoteSetPoorNetworkMessagesProposal := 17.
Definition PermSetClaimValidatorPermission := 30.
Definition PermHandleBasketEmergency := 61.
Definition PermCreatePollProposal := 66.
Definition PermCreateDappProposalWithoutBond := 67.

(* the check at the top of the four account-permission messages *)
Definition acc_perm_gate (s : state) (x p : Z) : bool :=
  check_allowed s x PermSetPermissions || ((p =? PermClaimValidator) && check_allowed s x PermSetClaimValidatorPermission).
Definition gated (ok : bool) (k : outcome state) : outcome state := if ok then k else Err "not enough permissions".
Definition via_gate (s : state) (v : via) (g : Z -> bool) : bool := match v with ByMsg x => g x | ByProp => true end.

(* ---- variation points of the working tree, resolved by the translator (Gen/Gates.v) so that the
   model follows the tree before and after the corresponding repairs are committed *)
Record cfg := mkCfg {
  dapp_perm : Z;          (* permission layer2's CreateDappProposal effectively checks (module keeper wrapper) *)
  claim_indexed : bool;   (* ClaimCouncilor whitelists through AddWhitelistPermission (index written) *)
  import_role_bl : bool;  (* InitGenesis re-adds role blacklists *)
  rotate_fixed : bool }.  (* rotation iterates over a copy of the roles and deletes the old actor last *)
(* the pinned tree of round 1 *)
Definition cfg_pinned : cfg := mkCfg 61 false false false.
Definition cfg_repaired : cfg := mkCfg 67 true true true.

Definition pdel_all (xs l : list (Z * Z)) : list (Z * Z) := fold_left (fun acc x => pdel x acc) xs l.
Definition padd_all (xs l : list (Z * Z)) : list (Z * Z) := fold_left (fun acc x => padd x acc) xs l.
Definition keys_for (a : Z) (l : list Z) : list (Z * Z) := map (fun x => (x, a)) l.

(* ---- genesis: ExportGenesis reads 0x10, 0x11, 0x30, 0x50; InitGenesis on a store without
   permission data.  Per actor: SaveNetworkActor, AssignRoleToActor for each role (SetRole is a no-op,
   the same record is saved again, the (role,address) key is set), SetWhitelistAddressPermKey. *)
Definition import_actor (s : state) (e : Z * actor) : state :=
  let '(a, act) := e in
  with_idx_pa (with_idx_ra (save_actor a act s) (padd_all (keys_for a (a_roles act)) (idx_ra s)))
              (padd_all (keys_for a (wl (a_perms act))) (idx_pa s)).
Definition try_edit (f : state -> Z -> Z -> outcome state) (r : Z) (st : state) (p : Z) : state :=
  match f st r p with Ok st' => st' | _ => st end.
(* errors of WhitelistRolePermission / BlacklistRolePermission are ignored by InitGenesis *)
Definition import_role (with_bl : bool) (s : state) (e : Z * perms) : state :=
  let '(r, rp) := e in
  let s1 := fold_left (try_edit k_wl_role r) (wl rp) s in
  if with_bl then fold_left (try_edit k_bl_role r) (bl rp) s1 else s1.
(* distinct keys of an association list, first binding wins (store iteration yields each key once) *)
Fixpoint canon {V} (seen : list Z) (l : list (Z * V)) : list (Z * V) :=
  match l with [] => [] | (k, v) :: r => if mem k seen then canon seen r else (k, v) :: canon (k :: seen) r end.
Definition import_start (s : state) : state := mkState [] [] [] [] (Some (get_next_role s)) [] [] [].
Definition import_phase1 (s : state) : state := fold_left import_actor (canon [] (actors s)) (import_start s).
Definition import_phase2 (s : state) : state :=
  fold_left (fun st e => k_set_role st (fst e) (snd e)) (canon [] (rinfo s)) (import_phase1 s).
Definition export_import (with_bl : bool) (s : state) : state :=
  fold_left (import_role with_bl) (canon [] (rperms s)) (import_phase2 s).

(* ---- RotateRecoveryAddress, gov:network_actor part.
   Unrepaired: [range actor.Roles] walks the ORIGINAL slice header while RemoveRole (called on a copy
   of the struct) shifts the shared backing array, and every UnassignRoleFromActor re-saves the old
   actor after DeleteNetworkActor. *)
Definition shift_out (x : Z) (arr : list Z) : list Z :=   (* backing array after RemoveRole: same length *)
  match rev arr with [] => [] | lst :: _ => if mem x arr then remove_first x arr ++ [lst] else arr end.
Fixpoint rotate_unassign (n : nat) (i : nat) (a : Z) (act0 : actor) (arr : list Z) (s : state) : state * list Z :=
  match n with
  | O => (s, arr)
  | S n' =>
      match nth_error arr i with
      | None => (s, arr)
      | Some role =>
          let arr' := shift_out role arr in
          let saved := if mem role arr then mkActor (removelast arr') (a_perms act0) else mkActor arr (a_perms act0) in
          let s' := with_idx_ra (save_actor a saved s) (pdel (role, a) (idx_ra s)) in
          rotate_unassign n' (S i) a act0 arr' s'
      end
  end.
(* the new record: saved under b, role keys and whitelist keys set *)
Definition rotate_install (s : state) (b : Z) (nact : actor) : state :=
  with_idx_pa (with_idx_ra (save_actor b nact s) (padd_all (keys_for b (a_roles nact)) (idx_ra s)))
              (padd_all (keys_for b (wl (a_perms nact))) (idx_pa s)).
Definition rotate_buggy (s : state) (a b : Z) : state :=
  match lookup a (actors s) with
  | None => s
  | Some act =>
      let s1 := with_actors s (del a (actors s)) in
      let '(s2, arr) := rotate_unassign (List.length (a_roles act)) 0 a act (a_roles act) s1 in
      let s3 := with_idx_pa s2 (pdel_all (keys_for a (wl (a_perms act))) (idx_pa s2)) in
      rotate_install s3 b (mkActor arr (a_perms act))
  end.
(* Repaired: the role keys and whitelist keys of the old address are deleted, the old record is
   deleted AFTER the last save, the unchanged record is installed under the new address. *)
Definition rotate_repaired (s : state) (a b : Z) : state :=
  match lookup a (actors s) with
  | None => s
  | Some act =>
      let s1 := with_idx_ra s (pdel_all (keys_for a (a_roles act)) (idx_ra s)) in
      let s2 := with_idx_pa s1 (pdel_all (keys_for a (wl (a_perms act))) (idx_pa s1)) in
      let s3 := with_actors s2 (del a (actors s2)) in
      rotate_install s3 b act
  end.

Section Cfg.
Variable c : cfg.

(* the permission each non-editing gated message is coded to check *)
Definition gate_perm_coded (k : gkind) : Z :=
  match k with GPoll => PermCreatePollProposal | GSubmit => PermCreateSetPoorNetworkMessagesProposal
             | GVote => PermVoteSetPoorNetworkMessagesProposal | GDapp => dapp_perm c | GOther p _ => p end.
Definition rotate (s : state) (a b : Z) : state := if rotate_fixed c then rotate_repaired s a b else rotate_buggy s a b.

Definition step (s : state) (o : op) : outcome state :=
  match o with
  | OWlAcc v a p => gated (via_gate s v (fun x => acc_perm_gate s x p)) (k_add_wl_acc s a p)
  | OBlAcc v a p => gated (via_gate s v (fun x => acc_perm_gate s x p)) (k_add_bl_acc s a p)
  | ORmWlAcc v a p => gated (via_gate s v (fun x => acc_perm_gate s x p)) (k_rm_wl_acc s a p)
  | ORmBlAcc v a p => gated (via_gate s v (fun x => acc_perm_gate s x p)) (k_rm_bl_acc s a p)
  | OWlRole v r p => gated (via_gate s v (fun x => check_allowed s x PermUpsertRole)) (k_wl_role s r p)
  | OBlRole v r p => gated (via_gate s v (fun x => check_allowed s x PermUpsertRole)) (k_bl_role s r p)
  | ORmWlRole v r p => gated (via_gate s v (fun x => check_allowed s x PermUpsertRole)) (k_rm_wl_role s r p)
  | ORmBlRole v r p => gated (via_gate s v (fun x => check_allowed s x PermUpsertRole)) (k_rm_bl_role s r p)
  | OCreateRole v sid w b =>
      gated (via_gate s v (fun x => check_allowed s x PermUpsertRole))
        (do sr <- create_role_checked s sid;
         do s1 <- fold_out (fun st p => k_wl_role st (snd sr) p) (fst sr) w;
         fold_out (fun st p => k_bl_role st (snd sr) p) s1 b)
  | ORemoveRole sid =>
      (* inverted test: an EXISTING role is refused; otherwise DeleteRole(Role{}) = role id 0, sid "" *)
      match role_by_sid s sid with
      | Some _ => Err "role exists"
      | None => Ok (mkState (actors s) (del 0 (rperms s)) (del 0 (rinfo s)) (rsid s) (next_role s) (idx_pa s) (idx_ra s) (idx_pr s))
      end
  | OAssign v a r => gated (via_gate s v (fun x => check_allowed s x PermUpsertRole)) (k_assign s a r)
  | OUnassign v a r => gated (via_gate s v (fun x => check_allowed s x PermUpsertRole)) (k_unassign s a r)
  | OClaimCouncilor a =>
      gated (check_allowed s a PermClaimCouncilor)
        (match lookup a (actors s) with
         | None => Err "network actor not found"
         | Some act =>
             if claim_indexed c then                              (* AddWhitelistPermission, error ignored *)
               match k_add_wl_acc s a PermCreatePollProposal with Ok s' => Ok s' | _ => Ok s end
             else match add_wl PermCreatePollProposal (a_perms act) with
                  | Some ps => Ok (save_actor a (mkActor (a_roles act) ps) s)     (* no 0x31 key *)
                  | None => Ok s end
         end)
  | OGate k x => gated (check_allowed s x (gate_perm_coded k)) (Ok s)
  | OExportImport => Ok (export_import (import_role_bl c) s)
  | ORotate a b => Ok (rotate s a b)
  end.

(* a rejected operation leaves the state as it was (the transaction is rolled back) *)
Definition step_total (s : state) (o : op) : state := match step s o with Ok s' => s' | _ => s end.
Definition run (s : state) (ops : list op) : state := fold_left step_total ops s.
End Cfg.
