(* C04: observations of the real application (ABCI level), correspondence of the ledger model
   and of the modelled module operations with what the real code did, and the decidable spec
   checker evaluated on the REAL observations.  The spec checker is written from the property
   text; it does not call [compile]/[exec]. *)
From Sekai Require Import Base.Prelude Base.Dec Gen.MintBurnSites Model.LedgerInv.

Definition is_some {A} (o : option A) : bool := match o with Some _ => true | None => false end.

(* ---------------------------------------------------------------- observed state *)
Record ostate := mkO {
  o_bal : list (Z * Z * Z);             (* account, denom, balance  -- every non-zero balance of the bank *)
  o_sup : list (Z * Z);                 (* denom, total supply *)
  o_rec : list (Z * Z * Z * Z * Z);     (* owing account, record kind, record id, denom, amount: decoded module records *)
  o_sl : list (Z * Z)                   (* staking pool id, pool.Slashed (Dec) *)
}.

Fixpoint set3 (l : list (Z * Z * Z)) (a d v : Z) : list (Z * Z * Z) :=
  match l with
  | [] => if v =? 0 then [] else [(a, d, v)]
  | (a', d', v') :: r => if (a' =? a) && (d' =? d) then (if v =? 0 then r else (a, d, v) :: r) else (a', d', v') :: set3 r a d v
  end.
Fixpoint set2 (l : list (Z * Z)) (d v : Z) : list (Z * Z) :=
  match l with
  | [] => [(d, v)]
  | (d', v') :: r => if d' =? d then (d, v) :: r else (d', v') :: set2 r d v
  end.
Fixpoint set5 (l : list (Z * Z * Z * Z * Z)) (m k i d v : Z) : list (Z * Z * Z * Z * Z) :=
  match l with
  | [] => if v =? 0 then [] else [(m, k, i, d, v)]
  | (m', k', i', d', v') :: r =>
      if (m' =? m) && (k' =? k) && (i' =? i) && (d' =? d) then (if v =? 0 then r else (m, k, i, d, v) :: r)
      else (m', k', i', d', v') :: set5 r m k i d v
  end.

(* bank events of one step, in emission order *)
Inductive bev : Type :=
| BSpent (a d x : Z) | BRecv (a d x : Z) | BCoinbase (m d x : Z) | BBurn (m d x : Z).

Record c04_step := mkStep {
  st_kind : string;                         (* operation kind: "delegate", "slash", "begin", "end", ... *)
  st_tx : bool;                             (* a signed transaction through DeliverTx (fee taken by the ante handler) *)
  st_ok : bool;                             (* tx: code 0; direct keeper call: no error *)
  st_fee : Z * Z * Z;                       (* payer, denom, amount (transactions) *)
  st_events : list bev;
  st_bal : list (Z * Z * Z);                (* changed balances: NEW values *)
  st_sup : list (Z * Z);
  st_rec : list (Z * Z * Z * Z * Z);        (* changed records: NEW values *)
  st_sl : list (Z * Z);
  st_model : list bop;                      (* the modelled operation(s) with the inputs of the real one; [] = not modelled *)
  st_alloc : list (Z * Z)                   (* reward allocation handed to IncreasePoolRewards: denom, amount *)
}.

Inductive c04_case : Type :=
| CHist (init : ostate) (steps : list c04_step).

Definition apply_patch (o : ostate) (st : c04_step) : ostate :=
  mkO (fold_left (fun l e => set3 l (fst (fst e)) (snd (fst e)) (snd e)) (st_bal st) (o_bal o))
      (fold_left (fun l e => set2 l (fst e) (snd e)) (st_sup st) (o_sup o))
      (fold_left (fun l e => match e with (m, k, i, d, v) => set5 l m k i d v end) (st_rec st) (o_rec o))
      (fold_left (fun l e => set2 l (fst e) (snd e)) (st_sl st) (o_sl o)).

Definition to_state (o : ostate) : state :=
  mkState (o_bal o) (o_sup o) (o_rec o) (map (fun e => (A_SLASHED, fst e, 0, snd e)) (o_sl o)).

(* ---------------------------------------------------------------- correspondence *)
(* (1) the ledger model replays the bank events of the step from the previous observed state and
       must arrive at the observed balances and supply *)
Definition ev_state (s : state) (e : bev) : state :=
  match e with
  | BSpent a d x => mkState ((a, d, - x) :: led s) (sup s) (bk s) (aux s)
  | BRecv a d x => mkState ((a, d, x) :: led s) (sup s) (bk s) (aux s)
  | BCoinbase _ d x => mkState (led s) ((d, x) :: sup s) (bk s) (aux s)
  | BBurn _ d x => mkState (led s) ((d, - x) :: sup s) (bk s) (aux s)
  end.
Definition ev_keys (e : bev) : list (Z * Z) :=
  match e with BSpent a d _ | BRecv a d _ => [(a, d)] | _ => [] end.
Definition ev_dens (e : bev) : list Z :=
  match e with BCoinbase _ d _ | BBurn _ d _ => [d] | _ => [] end.

Definition ledger_matches (prev next : ostate) (st : c04_step) : bool :=
  let sm := fold_left ev_state (st_events st) (to_state prev) in
  let sn := to_state next in
  let keys := map (fun e => (fst (fst e), snd (fst e))) (st_bal st) ++ flat_map ev_keys (st_events st) in
  let dens := map fst (st_sup st) ++ flat_map ev_dens (st_events st) in
  forallb (fun k => bal sm (fst k) (snd k) =? bal sn (fst k) (snd k)) keys
  && forallb (fun d => supply sm d =? supply sn d) dens.

(* (2) the modelled operation, run on the previous observed state, must change balances, supply,
       records and slashed fractions exactly as the real code did *)
Definition new_entries {A} (old new : list A) : list A := firstn (List.length new - List.length old) new.

Definition model_matches (prev next : ostate) (st : c04_step) : bool :=
  match st_model st with
  | [] => true
  | ops =>
      let s0 := to_state prev in
      let item := if st_tx st then (match st_fee st with (u, fd, fx) => ITx u fd fx (if st_ok st then ops else []) end)
                  else IAct (if st_ok st then ops else []) in
      let sm := step s0 item in
      let sn := to_state next in
      let okrun := if st_ok st then
                     (if st_tx st then (match st_fee st with (u, fd, fx) =>
                         match exec (PayFee u fd fx) s0 with Some s1 => is_some (exec_all ops s1) | None => false end end)
                      else is_some (exec_all ops s0))
                   else true in
      let bkeys := map (fun e => (fst (fst e), snd (fst e))) (st_bal st)
                   ++ map (fun e => (fst (fst e), snd (fst e))) (new_entries (led s0) (led sm)) in
      let dens := map fst (st_sup st) ++ map fst (new_entries (sup s0) (sup sm)) in
      let rkeys := map (fun e => match e with (m, k, i, d, _) => (m, k, i, d) end) (st_rec st ++ new_entries (bk s0) (bk sm)) in
      let pkeys := map fst (st_sl st) ++ map (fun e => match e with (_, p, _, _) => p end)
                                           (filter (fun e => match e with (k, _, _, _) => k =? A_SLASHED end) (new_entries (aux s0) (aux sm))) in
      okrun
      && forallb (fun k => bal sm (fst k) (snd k) =? bal sn (fst k) (snd k)) bkeys
      && forallb (fun d => supply sm d =? supply sn d) dens
      && forallb (fun k => match k with (m, kk, i, d) => book sm m kk i d =? book sn m kk i d end) rkeys
      && forallb (fun p => slashed_of sm p =? slashed_of sn p) pkeys
  end.

Fixpoint hist_mismatch (prev : ostate) (steps : list c04_step) : bool :=
  match steps with
  | [] => false
  | st :: r => let next := apply_patch prev st in
               negb (ledger_matches prev next st && model_matches prev next st) || hist_mismatch next r
  end.
(* diagnostics: the steps of a history at which the ledger replay (first flag) or the modelled operation (second flag) disagree *)
Fixpoint mismatch_steps_from (n : nat) (prev : ostate) (steps : list c04_step) : list (nat * bool * bool) :=
  match steps with
  | [] => []
  | st :: r => let next := apply_patch prev st in
      (if ledger_matches prev next st && model_matches prev next st then []
       else [(n, ledger_matches prev next st, model_matches prev next st)]) ++ mismatch_steps_from (S n) next r
  end.
Definition mismatch_steps (c : c04_case) : list (nat * bool * bool) :=
  match c with CHist init steps => mismatch_steps_from 0 init steps end.
Definition case_mismatch (c : c04_case) : bool := match c with CHist init steps => hist_mismatch init steps end.
Fixpoint mismatches_from (n : nat) (cs : list c04_case) : list nat :=
  match cs with [] => [] | c :: r => if case_mismatch c then n :: mismatches_from (S n) r else mismatches_from (S n) r end.
Definition c04_mismatches (cs : list c04_case) : list nat := mismatches_from 0 cs.

(* ---------------------------------------------------------------- the spec checker *)
Local Open Scope string_scope.
Local Open Scope Z_scope.
Local Open Scope list_scope.
Notation "a +++ b" := (String.append a b) (at level 60, right associativity).
Definition macc_table : list (string * Z) :=
  [("fee_collector", FC); ("customgov", GOV); ("mint", MINT); ("spending", SPEND); ("distributor", DISTR);
   ("basket", BASKET); ("multistaking", MS); ("collectives", COLLM); ("layer2", L2); ("recovery", REC)].
Fixpoint sassoc {A} (k : string) (l : list (string * A)) : option A :=
  match l with [] => None | (k', v) :: r => if String.eqb k k' then Some v else sassoc k r end.
Fixpoint zassoc {A} (k : Z) (l : list (Z * A)) : option A :=
  match l with [] => None | (k', v) :: r => if k' =? k then Some v else zassoc k r end.
Definition macc_name (m : Z) : string :=
  match find (fun e => snd e =? m) macc_table with
  | Some e => fst e
  | None => if 1000 <=? m then (if Z.even m then "collective-bond-account" else "collective-donation-account") else "account"
  end.
(* permissions of the module accounts as app/app.go grants them (generated table) *)
Definition perms_of_gen : list (Z * (bool * bool)) :=
  flat_map (fun e => match sassoc (fst e) macc_table with Some m => [(m, snd e)] | None => [] end) macc_perms.
Definition can_mint (m : Z) : bool := match zassoc m perms_of_gen with Some (a, _) => a | None => false end.
Definition can_burn (m : Z) : bool := match zassoc m perms_of_gen with Some (_, b) => b | None => false end.

(* denomination classes *)
Definition class_name (c : Z) : string :=
  if c =? 0 then "native" else if c =? 1 then "share" else if c =? 2 then "basket" else if c =? 3 then "lp"
  else if c =? 4 then "rr" else "issued".

(* which operation kinds may mint / burn which class of denomination (the sanctioned operations) *)
(* (operation kind, module account minted to / burnt from, denomination class) *)
Definition sanctioned_mint : list (string * Z * Z) :=
  [("begin", MINT, 0); ("begin", MINT, 1);           (* inflation; auto-compounded delegation *)
   ("delegate", MINT, 1); ("ubi", MINT, 0); ("end", MINT, 0); ("end", L2, 3); ("end", MINT, 1);
   ("basket_mint", BASKET, 2); ("l2_mint_issue", L2, 5); ("rec_issue", REC, 4); ("reward_alloc", MINT, 1)].
Definition sanctioned_burn : list (string * Z * Z) :=
  [("undelegate", MS, 1); ("slash", MS, 0); ("end", MS, 0); ("basket_burn", BASKET, 2); ("l2_create_ft", L2, 0);
   ("l2_mint_burn", L2, 5); ("l2_mint_burn", L2, 0); ("rec_burn", REC, 4)].
Definition in_table (k : string) (m c : Z) (t : list (string * Z * Z)) : bool :=
  existsb (fun e => String.eqb (fst (fst e)) k && (snd (fst e) =? m) && (snd e =? c)) t.

Definition kind_name (k : Z) : string :=
  if k =? 1 then "staked" else if k =? 2 then "undelegation" else if k =? 3 then "reward" else if k =? 4 then "basket-reserve"
  else if k =? 5 then "basket-surplus" else if k =? 6 then "spending-pool" else if k =? 7 then "tip" else if k =? 10 then "dapp-bond"
  else if k =? 11 then "collective-bond" else if k =? 12 then "collective-donation" else if k =? 13 then "recovery-backing"
  else if k =? 14 then "rr-reward" else if k =? 15 then "collective-donated-bond" else "record".

(* record classes the genesis does not carry at all (layer2 and collectives Init/ExportGenesis are empty: C12's known findings
   lost:layer2/KeyPrefixDapp, lost:layer2/PrefixUserDappBondKey, lost:collectives/...): every other class must round-trip *)
Definition not_exported_kinds : list Z := [10; 11; 12; 15].

Section Checker.
Variable dclass : list (Z * Z).                 (* denom id -> class *)
Variable shmap : list (Z * (Z * Z)).            (* share denom id -> (pool id, native denom id) *)
Definition class_of (d : Z) : Z := match zassoc d dclass with Some c => c | None => 5 end.

Definition obal (o : ostate) (a d : Z) : Z := jbal (o_bal o) a d.
Definition osup (o : ostate) (d : Z) : Z := ssum (o_sup o) d.
Definition oliab (o : ostate) (m d : Z) : Z := bliab (o_rec o) m d.
Definition orec (o : ostate) (m k i d : Z) : Z := brec (o_rec o) m k i d.
Definition oslashed (o : ostate) (p : Z) : Z := ssum (o_sl o) p.
Definition osum (o : ostate) (d : Z) : Z := jtot (o_bal o) d.

Fixpoint dedup2 (l : list (Z * Z)) : list (Z * Z) :=
  match l with [] => [] | x :: r => if existsb (fun y => (fst x =? fst y) && (snd x =? snd y)) r then dedup2 r else x :: dedup2 r end.

(* state clauses: a list of (clause prefix) strings that hold of the state; the op kind is appended by the caller *)
Definition state_clauses (o : ostate) : list string :=
  (* the total supply of each denomination equals the sum of all balances *)
  flat_map (fun d => if osup o d =? osum o d then [] else ["supply-sum:" +++ class_name (class_of d)])
           (map fst (o_sup o))
  ++ flat_map (fun e => if zassoc (snd (fst e)) (o_sup o) then [] else ["supply-sum:" +++ class_name (class_of (snd (fst e)))]) (o_bal o)
  (* every escrow account holds at least what its module records against it *)
  ++ flat_map (fun k => if oliab o (fst k) (snd k) <=? obal o (fst k) (snd k) then []
                        else (* a shortfall of a few base units (a rounding step) is a different failure class than a lost payment.
                                For the two accounts of a collective the rounding class is ONE signature, whichever account and
                                operation first shows it (the recorded defect: the two shares are rounded independently) *)
                             if oliab o (fst k) (snd k) - obal o (fst k) (snd k) <=? 8
                             then (if 1000 <=? fst k then ["insolvent:collective-accounts:" +++ class_name (class_of (snd k)) +++ ":rounding"]
                                   else ["insolvent:" +++ macc_name (fst k) +++ ":" +++ class_name (class_of (snd k)) +++ ":rounding"])
                             else ["insolvent:" +++ macc_name (fst k) +++ ":" +++ class_name (class_of (snd k))])
              (dedup2 (map (fun e => match e with (m, _, _, d, _) => (m, d) end) (o_rec o)))
  (* every share token is redeemable under the pool's own redemption rule.  Old rule (amount*(1-slashed)):
     supply(share) / (1 - slashed) <= staked  (one unit of rounding slack) *)
  ++ (if undelegate_pro_rata then []       (* pro-rata redemption: redeemable by construction (C04_shares_redeemable) *)
      else flat_map (fun e => match e with (sd, (p, d)) =>
                 if osup o sd * PREC <=? orec o MS K_STAKED p d * (PREC - oslashed o p) + PREC then []
                 else ["insolvent:multistaking:share"] end) shmap)
  (* no negative balance *)
  ++ flat_map (fun e => if 0 <=? snd e then [] else ["negative-balance"]) (o_bal o).

Definition step_clauses (prev next : ostate) (st : c04_step) : list string :=
  (* coins appear and disappear only through sanctioned mint and burn operations of permitted modules *)
  flat_map (fun e => match e with
     | BCoinbase m d _ =>
         (if can_mint m then [] else ["mint-without-permission:" +++ macc_name m])
         ++ (if in_table (st_kind st) m (class_of d) sanctioned_mint then [] else ["unsanctioned:mint:" +++ class_name (class_of d)])
     | BBurn m d _ =>
         (if can_burn m then [] else ["burn-without-permission:" +++ macc_name m])
         ++ (if in_table (st_kind st) m (class_of d) sanctioned_burn then [] else ["unsanctioned:burn:" +++ class_name (class_of d)])
     | _ => [] end) (st_events st)
  (* a supply change without a mint/burn event *)
  ++ flat_map (fun e => if existsb (fun ev => match ev with BCoinbase _ d _ | BBurn _ d _ => d =? fst e | _ => false end) (st_events st)
                        then [] else ["supply-change-without-event:" +++ class_name (class_of (fst e))]) (st_sup st)
  (* a failed transaction leaves nothing but the fee: no record, no supply, no other balance changes *)
  ++ (if st_tx st && negb (st_ok st)
      then (if match st_rec st, st_sl st, st_sup st with [], [], [] => true | _, _, _ => false end
               && forallb (fun e => let a := fst (fst e) in (a =? fst (fst (st_fee st))) || (a =? FC)) (st_bal st)
            then [] else ["rollback"])
      else [])
  (* genesis export / re-import in the middle of a history reproduces every balance, the supply and every module record *)
  ++ (if String.eqb (st_kind st) "reimport"
      then (match st_bal st with [] => [] | _ => ["reimport:balances-differ"] end)
           ++ flat_map (fun e => match e with (m, k, _, _, _) =>
                          if existsb (Z.eqb k) not_exported_kinds then []
                          else ["reimport:records-differ:" +++ macc_name m +++ ":" +++ kind_name k] end) (st_rec st)
           ++ (match st_sl st with [] => [] | _ => ["reimport:records-differ:multistaking:slashed"] end)
      else [])
  (* a reward credit never exceeds what was allocated *)
  ++ flat_map (fun e => if oliab next FC (fst e) - oliab prev FC (fst e) <=? snd e then []
                        else ["overcredit:fee_collector:" +++ class_name (class_of (fst e))]) (st_alloc st).

Fixpoint str_mem (x : string) (l : list string) : bool :=
  match l with [] => false | y :: r => String.eqb x y || str_mem x r end.
Fixpoint sdedup (l : list string) : list string :=
  match l with [] => [] | x :: r => if str_mem x r then sdedup r else x :: sdedup r end.

(* clauses carry the operation kind at which they arise, except the op-independent collective rounding signature *)
Definition tag_kind (c kind : string) : string :=
  if String.prefix "insolvent:collective-accounts:" c then c else c +++ ":" +++ kind.

Fixpoint hist_clauses (prev : ostate) (pc : list string) (steps : list c04_step) : list string :=
  match steps with
  | [] => []
  | st :: r =>
      let next := apply_patch prev st in
      let nc := state_clauses next in
      (* state clauses are reported where they first become violated, tagged with the operation kind *)
      (* "resume" returns to the state observed before the re-import: whatever is violated there was reported when it arose *)
      (if String.eqb (st_kind st) "resume" then [] else
       map (fun c => tag_kind c (st_kind st)) (filter (fun c => negb (str_mem c pc)) (sdedup nc))
       ++ map (fun c => c +++ ":" +++ st_kind st) (sdedup (step_clauses prev next st)))
      ++ hist_clauses next nc r
  end.

Definition case_clauses (c : c04_case) : list string :=
  match c with CHist init steps =>
    sdedup (map (fun c => c +++ ":genesis") (sdedup (state_clauses init)) ++ hist_clauses init (state_clauses init) steps) end.

Fixpoint violations_from (n : nat) (cs : list c04_case) : list (nat * list string) :=
  match cs with [] => [] | c :: r =>
    match case_clauses c with [] => violations_from (S n) r | cl => (n, cl) :: violations_from (S n) r end end.
Definition c04_violations (cs : list c04_case) : list (nat * list string) := violations_from 0 cs.
End Checker.
