(* C01: (1) the observation types written by harness/cmd/c01, (2) [c01_mismatches]: the model of
   Model/Determinism.v (instantiated with the site configuration the translator extracted from the
   tree) against what the real code did, (3) [c01_violations]: the decidable spec checker "all
   replicas agree", written from the property text; it never calls the model's step functions.
   Also the audit vocabulary for the translator's nondeterminism-site table. *)
From Sekai Require Import Base.Prelude Gen.NondetSites Model.Determinism.

(* ---------------------------------------------------------------- site table *)
Definition kind_eqb (a b : site_kind) : bool :=
  match a, b with
  | KTimeNow, KTimeNow | KRand, KRand | KMapRange, KMapRange | KPbMap, KPbMap
  | KMapKeys, KMapKeys | KGo, KGo | KOsEnv, KOsEnv | KRuntime, KRuntime | KProcState, KProcState | KLocalTime, KLocalTime | KErrText, KErrText => true
  | _, _ => false
  end.

Inductive verdict : Type := Harmless (reason : string) | Finding (id : string).
(* one audited entry covers the sites (file, function, kind, expression) with ordinal < count *)
Record audit : Type := mkAudit { a_file : string; a_func : string; a_kind : site_kind; a_expr : string; a_count : nat;
                                 a_fp : string;      (* fingerprint of the owning function the verdict was given for *)
                                 a_verdict : verdict }.

Definition audit_key (a : audit) (s : site) : bool :=
  String.eqb (a_file a) (s_file s) && String.eqb (a_func a) (s_func s) && kind_eqb (a_kind a) (s_kind s)
  && String.eqb (a_expr a) (s_expr s).
Definition audit_covers (a : audit) (s : site) : bool := audit_key a s && Nat.ltb (s_ord s) (a_count a).
Definition audited (tbl : list audit) (s : site) : bool := existsb (fun a => audit_covers a s) tbl.
Definition unaudited_sites (tbl : list audit) (ss : list site) : list site := filter (fun s => negb (audited tbl s)) ss.
(* a stale entry: the table pins a site (or a number of sites) the tree no longer has *)
Definition audit_exact (ss : list site) (a : audit) : bool :=
  Nat.eqb (List.length (filter (audit_key a) ss)) (a_count a).
Definition stale_entries (tbl : list audit) (ss : list site) : list audit := filter (fun a => negb (audit_exact ss a)) tbl.
(* the verdict is pinned to the code: the owning function (and its same-package callees) still
   has the fingerprint the entry records *)
Fixpoint fp_lookup (f fn : string) (l : list (string * string * string)) : option string :=
  match l with
  | [] => None
  | (f', fn', h) :: r => if String.eqb f f' && String.eqb fn fn' then Some h else fp_lookup f fn r
  end.
Definition audit_fp_ok (fps : list (string * string * string)) (a : audit) : bool :=
  match fp_lookup (a_file a) (a_func a) fps with Some h => String.eqb h (a_fp a) | None => false end.
Definition changed_functions (tbl : list audit) (fps : list (string * string * string)) : list (string * string) :=
  map (fun a => (a_file a, a_func a)) (filter (fun a => negb (audit_fp_ok fps a)) tbl).
Definition audit_table_ok (tbl : list audit) (ss : list site) (fps : list (string * string * string)) : bool :=
  forallb (audited tbl) ss && forallb (audit_exact ss) tbl && forallb (audit_fp_ok fps) tbl.

Definition has_site (ss : list site) (f fn : string) (k : site_kind) : bool :=
  existsb (fun s => String.eqb (s_file s) f && String.eqb (s_func s) fn && kind_eqb (s_kind s) k) ss.
Definition has_pbmap_in (ss : list site) (file : string) : bool :=
  existsb (fun s => String.eqb (s_file s) file && kind_eqb (s_kind s) KPbMap) ss.

(* which environment-consulting sites of the model are live in the tree that was translated *)
Definition cfg_of_sites (ss : list site) : cfg :=
  mkCfg (has_site ss "x/gov/keeper/poll.go" "Keeper.PollCreate" KTimeNow)
        (has_site ss "x/gov/keeper/msg_server.go" "msgServer.PollVote" KTimeNow)
        (has_site ss "x/gov/abci.go" "EndBlocker" KTimeNow)
        (has_site ss "app/ante/ante.go" "CustodyDecorator.AnteHandle" KTimeNow)
        (has_pbmap_in ss "x/custody/types/custody.pb.go" || has_pbmap_in ss "x/custody/types/tx.pb.go").
Definition site_cfg : cfg := cfg_of_sites sites.
(* gov InitGenesis ranges the ProposalDurations map and returns at the first invalid entry *)
Definition genesis_durations_maprange : bool :=
  existsb (fun s => String.eqb (s_file s) "x/gov/genesis.go" && String.eqb (s_func s) "InitGenesis"
                    && kind_eqb (s_kind s) KMapRange && String.eqb (s_expr s) "genesisState.ProposalDurations") sites.

(* module order lists of app/app.go: each names every module once *)
Fixpoint nodup_str (l : list string) : bool :=
  match l with [] => true | x :: r => negb (str_in x r) && nodup_str r end.
Definition same_set (a b : list string) : bool := forallb (fun x => str_in x b) a && forallb (fun x => str_in x a) b.
Definition orders_ok : bool :=
  nodup_str order_begin_blockers && nodup_str order_end_blockers && nodup_str order_init_genesis
  && same_set order_begin_blockers order_end_blockers && same_set order_begin_blockers order_init_genesis
  && negb (match order_begin_blockers with [] => true | _ => false end).

(* ---------------------------------------------------------------- observations *)
(* per block, one entry per replica in every list *)
Record block_obs (D : Type) : Type := mkB {
  bo_hash : list D;                              (* application hash (ResponseCommit.Data) *)
  bo_txs : list (string * list D * list D);      (* message kind, (code,gas,data) per replica, events per replica *)
  bo_upd : list D;                               (* EndBlock validator updates *)
  bo_stores : list (string * list D)             (* store/key-prefix digests the harness found unequal (localisation) *)
}.
Arguments mkB {D}. Arguments bo_hash {D}. Arguments bo_txs {D}. Arguments bo_upd {D}. Arguments bo_stores {D}.

Inductive c01_case : Type :=
(* a block history executed on k replicas; [kinds]: message kinds / genesis features it contains *)
| CRep (kinds : list string) (blocks : list (block_obs string))
(* polls through the real msg server and end blocker, twice (runs A and B) at different wall-clock
   times on equal states and equal block times.  All times in unix nanoseconds.
   bt: block time; dur: requested duration; lo/hi: wall clock before/after the operation;
   pend: VotingEndTime stored; vote / processed: decisions observed *)
| CPoll (bt dur : Z) (a_lo a_hi a_end : Z) (b_lo b_hi b_end : Z)
        (bt_vote : Z) (a_vlo a_vhi : Z) (a_vote : bool) (b_vlo b_vhi : Z) (b_vote : bool)
        (bt_end : Z) (a_elo a_ehi : Z) (a_done : bool) (b_elo b_ehi : Z) (b_done : bool)
(* CustodyDecorator limits path on a seeded status record: old spent amount, amount sent, rate
   (limit amount / limit milliseconds), wall clock bracket in ns, block time in ns; observed new
   status amount (None: rejected); twice *)
| CLimit (bt old amt rate : Z) (a_lo a_hi : Z) (a_new : option Z) (b_lo b_hi : Z) (b_new : option Z)
(* protobuf encodings of one custody record holding a map with keys 0..n-1 (in sorted order):
   the key orders seen in repeated Marshal calls *)
| CMap (type : string) (n : nat) (orders : list (list nat))
(* the begin-blocker / end-blocker / init-genesis module order of several freshly constructed
   application instances (in this process and in a child process) *)
| COrder (which : string) (orders : list (list string)).

(* ---------------------------------------------------------------- the spec checker (generic in the digest type) *)
Section Checker.
Variable D : Type.
Variable deqb : D -> D -> bool.

Definition all_eq (l : list D) : bool := match l with [] => true | x :: r => forallb (deqb x) r end.

Definition tx_clauses (t : string * list D * list D) : list string :=
  let '(k, rs, es) := t in
  (if all_eq rs then [] else [("diverge:txresult:" ++ k)%string]) ++
  (if all_eq es then [] else [("diverge:txevents:" ++ k)%string]).

Definition block_clauses (b : block_obs D) : list string :=
  let st := flat_map (fun s : string * list D => if all_eq (snd s) then [] else [("diverge:" ++ fst s)%string]) (bo_stores b) in
  (if Nat.ltb (List.length (bo_hash b)) 2 then ["malformed:fewer-than-two-replicas"%string] else []) ++
  flat_map tx_clauses (bo_txs b) ++
  (if all_eq (bo_upd b) then [] else ["diverge:validator-updates"%string]) ++
  st ++
  (if all_eq (bo_hash b) then [] else match st with [] => ["diverge:apphash:unlocalised"%string] | _ => [] end).

Fixpoint dedup (l : list string) : list string :=
  match l with [] => [] | x :: r => if str_in x r then dedup r else x :: dedup r end.
(* Only the FIRST block on which the replicas disagree is judged: up to there they executed the same
   blocks from equal states, which is what the property quantifies over; later blocks start from
   states that already differ (e.g. a poll closed in different blocks makes the end blocker panic on
   one replica only), so their differences are consequences, not further violations. *)
Fixpoint first_clauses (l : list (list string)) : list string :=
  match l with [] => [] | cl :: r => match cl with [] => first_clauses r | _ => dedup cl end end.
Definition history_clauses (bs : list (block_obs D)) : list string := first_clauses (map block_clauses bs).
End Checker.

Definition zopt_eqb (a b : option Z) : bool :=
  match a, b with Some x, Some y => x =? y | None, None => true | _, _ => false end.
Fixpoint natlist_eqb (a b : list nat) : bool :=
  match a, b with [] , [] => true | x :: r, y :: s => Nat.eqb x y && natlist_eqb r s | _, _ => false end.

Fixpoint strlist_eqb (a b : list string) : bool :=
  match a, b with [] , [] => true | x :: r, y :: s => String.eqb x y && strlist_eqb r s | _, _ => false end.

(* the property, on what the real code did: equal inputs (genesis, block contents) => equal results *)
Definition case_clauses (c : c01_case) : list string :=
  match c with
  | CRep _ bs => history_clauses string String.eqb bs
  | CPoll _ _ _ _ ae _ _ be _ _ _ av _ _ bv _ _ _ ad _ _ bd =>
      (if ae =? be then [] else ["wallclock:PollCreate:stored-end-time"%string]) ++
      (if Bool.eqb av bv then [] else ["wallclock:PollVote:decision"%string]) ++
      (if Bool.eqb ad bd then [] else ["wallclock:gov-EndBlocker:poll-processed"%string])
  | CLimit _ _ _ _ _ _ an _ _ bn => if zopt_eqb an bn then [] else ["wallclock:CustodyDecorator:limit-status"%string]
  | CMap ty _ os =>
      match os with [] => [] | o :: r => if forallb (natlist_eqb o) r then [] else [("encoding-not-canonical:" ++ ty)%string] end
  | COrder w os =>
      match os with [] => ["malformed:no-instance"%string] | o :: r => if forallb (strlist_eqb o) r then [] else [("module-order-differs-between-instances:" ++ w)%string] end
  end.

Fixpoint violations_from (n : nat) (cs : list c01_case) : list (nat * list string) :=
  match cs with [] => [] | c :: r =>
    match case_clauses c with [] => violations_from (S n) r | cl => (n, cl) :: violations_from (S n) r end end.
Definition c01_violations (cs : list c01_case) : list (nat * list string) := violations_from 0 cs.

(* ---------------------------------------------------------------- model vs. observation *)
Definition const_env (w : Z) : env := mkEnv (fun _ => w) (fun _ l => l).

(* message kinds whose code consults the environment, under configuration c *)
Definition str_prefix (p s : string) : bool := String.prefix p s.
Definition kind_envfree (c : cfg) (k : string) : bool :=
  if String.eqb k "MsgPollCreate" || String.eqb k "MsgPollVote" then negb (poll_dirty c)
  else if String.eqb k "hook:seed-custody-limit-status" then negb (custody_wall c || custody_unsorted c)
  else if str_prefix "custody." k then negb (custody_unsorted c)
  else if String.eqb k "genesis:proposal-durations-invalid-entry" then negb genesis_durations_maprange
  else true.
(* a history made of environment-free kinds only must show no divergence at all; when polls are
   live every block of a history that ever created a poll may differ (the end blocker reads the clock) *)
Definition rep_matches (c : cfg) (kinds : list string) (bs : list (block_obs string)) : bool :=
  if forallb (kind_envfree c) kinds then match history_clauses string String.eqb bs with [] => true | _ => false end
  else true.

Definition between (lo x hi : Z) : bool := (lo <=? x) && (x <=? hi).
(* the decision observed is the model's for the clock at the start or at the end of the operation *)
Definition decided (f : env -> bool) (lo hi : Z) (seen : bool) : bool :=
  Bool.eqb (f (const_env lo)) seen || Bool.eqb (f (const_env hi)) seen.

Definition poll_run_matches (c : cfg) (bt dur lo hi pend bt_vote vlo vhi : Z) (vote : bool)
           (bt_end elo ehi : Z) (done : bool) : bool :=
  between (poll_end_of c (const_env lo) 0 bt dur) pend (poll_end_of c (const_env hi) 0 bt dur)
  && decided (fun e => vote_accepts c e 0 bt_vote pend) vlo vhi vote
  && decided (fun e => poll_due c e 0 bt_end pend) elo ehi done.

Definition limit_run_matches (c : cfg) (bt old amt rate lo hi : Z) (new : option Z) : bool :=
  let m := fun w => let n := limit_new c (const_env w) 0 bt old amt rate in if n =? 0 then None else Some n in
  zopt_eqb (m lo) new || zopt_eqb (m hi) new.

Fixpoint count_nat (x : nat) (l : list nat) : nat :=
  match l with [] => O | y :: r => (if Nat.eqb x y then 1 else 0) + count_nat x r end.
Definition is_perm_of_range (n : nat) (o : list nat) : bool :=
  Nat.eqb (List.length o) n && forallb (fun i => Nat.eqb (count_nat i o) 1) (seq 0 n).

Definition case_matches (c : cfg) (x : c01_case) : bool :=
  match x with
  | CRep kinds bs => rep_matches c kinds bs
  | CPoll bt dur alo ahi ae blo bhi be btv avlo avhi av bvlo bvhi bv bte aelo aehi ad belo behi bd =>
      poll_run_matches c bt dur alo ahi ae btv avlo avhi av bte aelo aehi ad
      && poll_run_matches c bt dur blo bhi be btv bvlo bvhi bv bte belo behi bd
  | CLimit bt old amt rate alo ahi an blo bhi bn =>
      limit_run_matches c bt old amt rate alo ahi an && limit_run_matches c bt old amt rate blo bhi bn
  | CMap _ n os =>
      (* the model: the encoding visits the keys in [wl_encode]'s order -- any permutation when the
         marshaller ranges the Go map, the sorted order otherwise *)
      forallb (fun o => if custody_unsorted c then is_perm_of_range n o else natlist_eqb o (wl_encode c (const_env 0) 0 (seq 0 n))) os
  | COrder w os =>
      (* the model composes the modules in the fixed lists the translator read from app/app.go: every instance has a list of
         that length without repetition, and all instances have the same one *)
      let gen := if String.eqb w "BeginBlockers" then order_begin_blockers else if String.eqb w "EndBlockers" then order_end_blockers else order_init_genesis in
      forallb (fun o => Nat.eqb (List.length o) (List.length gen) && nodup_str o) os
      && match os with [] => false | o :: r => forallb (strlist_eqb o) r end
  end.

Fixpoint mismatches_from (c : cfg) (n : nat) (cs : list c01_case) : list nat :=
  match cs with [] => [] | x :: r => if case_matches c x then mismatches_from c (S n) r else n :: mismatches_from c (S n) r end.
Definition c01_mismatches (cs : list c01_case) : list nat := mismatches_from site_cfg 0 cs.
