(* C08: (1) observation type, (2) correspondence model vs. what the real msg server / EndBlocker
   did, (3) the decidable spec checker, written from the property text and applied to the REAL
   observations only (it does not call the model's step functions). *)
From Sekai Require Import Base.Prelude Base.Dec Gen.GovHandlers Model.Gov Model.GovWorld.

Inductive hop :=
| HSubmit (who : Z) (ct : ccontent)
| HVote (who id opt : Z)
| HEnd
| HExt (e : cext)
| HRotate (old new : Z).     (* MsgRotateRecoveryAddress: another module rewrites the vote store *)

Record obs := mkO {
  o_res : Z;                                      (* 0 accepted, 1 rejected, 2 panic *)
  o_new_id : Z;                                   (* accepted submit: the new proposal id; else 0 *)
  o_applied : list (Z * bool);                    (* handler calls made inside EndBlocker: (id, success), in order *)
  o_ev : list (Z * Z);                            (* events: (1, id) add_to_enactment, (2, id) remove_enactment *)
  o_props : list (Z * (Z * Z) * (bool * bool));   (* every proposal: id, (result, exec), (in active queue, in enactment queue) *)
  o_votes : list (Z * Z);                         (* HVote: votes of the target proposal afterwards, sorted by voter *)
  o_fvotes : list (Z * list (Z * Z));             (* stored votes (sorted by voter) of the proposals finalised in this HEnd step;
                                                     after HRotate: of every proposal *)
  o_electorate : list (Z * list Z);               (* HEnd, per non-dynamic proposal finalised in this step: the voters the CODE enumerates
                                                     (GetNetworkActorsByAbsoluteWhitelistPermission of its vote permission), sorted *)
  o_world : option world }.                       (* the state outside the lifecycle, when it changed *)

(* CScen: a scripted scenario on a REAL multi-step handler of another module (spending, basket, gov
   durations): a proposal is submitted while all steps of its Apply would succeed, passes, and before
   the enactment the harness makes the k-th step fail (or not: [expect_fail = false]).  Observed after
   the enactment block: the handler calls made for it, the handler's success, ExecResult / Result, whether
   ALL stores of the application are byte-identical to before the block except the proposal's own record
   and queue entry ([unchanged]), and whether the content's complete effect is present ([full]). *)
Inductive c08_case :=
| CHist (w0 : world) (steps : list (Z * Z * hop * obs))
| CScen (name : string) (expect_fail : bool) (ncalls : Z) (ok : bool) (exec res : Z) (unchanged full : bool)
(* CDyn: a dynamic-voter proposal kind (its voters, quorum, voting period and enactment delay come from an
   owning object of another module).  The scenario created the object with the recorded, pairwise distinct
   [q] / [period] / [enact] and [nowners] owner accounts, submitted through the real msg server at [t0],
   cast [nvotes] yes votes, and ran end blocks at [blocks] = (time, result code after, handler calls in it). *)
| CDyn (name : string) (t0 period enact q nowners nvotes : Z) (blocks : list (Z * Z * Z)).

(* ---------------------------------------------------------------- equality helpers *)
Fixpoint list_eqb {X} (e : X -> X -> bool) (l m : list X) : bool :=
  match l, m with [], [] => true | x :: l', y :: m' => e x y && list_eqb e l' m' | _, _ => false end.
Definition zz_eqb (a b : Z * Z) : bool := (fst a =? fst b) && (snd a =? snd b).
Definition actor_eqb (a b : actor) : bool :=
  Bool.eqb (a_active a) (a_active b) && Bool.eqb (a_veto a) (a_veto b) && list_eqb Z.eqb (a_wl a) (a_wl b)
  && list_eqb Z.eqb (a_bl a) (a_bl b) && list_eqb Z.eqb (a_roles a) (a_roles b).
Definition actors_eqb (l m : list (Z * actor)) : bool := list_eqb (fun x y => (fst x =? fst y) && actor_eqb (snd x) (snd y)) l m.
Definition roles_eqb (l m : list (Z * role)) : bool :=
  list_eqb (fun x y => (fst x =? fst y) && list_eqb Z.eqb (r_wl (snd x)) (r_wl (snd y)) && list_eqb Z.eqb (r_bl (snd x)) (r_bl (snd y))) l m.
Definition np_eqb (a b : np) : bool :=
  (n_mintx a =? n_mintx b) && (n_maxtx a =? n_maxtx b) && (n_quorum a =? n_quorum b) && (n_endtime a =? n_endtime b)
  && (n_enact a =? n_enact b) && (n_endblocks a =? n_endblocks b) && (n_enactblocks a =? n_enactblocks b).
Definition world_eqb (a b : world) : bool :=
  np_eqb (w_np a) (w_np b)
  && actors_eqb (w_actors a) (w_actors b) && roles_eqb (w_roles a) (w_roles b)
  && list_eqb Z.eqb (w_durs a) (w_durs b) && list_eqb Z.eqb (w_reg a) (w_reg b)
  && match w_pool a, w_pool b with
     | None, None => true
     | Some p, Some q => list_eqb Z.eqb (pl_owners p) (pl_owners q) && (pl_quorum p =? pl_quorum q)
                         && (pl_period p =? pl_period q) && (pl_enact p =? pl_enact q)
     | _, _ => false end.

Fixpoint ins_vote (who opt : Z) (l : list (Z * Z)) : list (Z * Z) :=
  match l with
  | [] => [(who, opt)]
  | (k, o) :: r => if k =? who then (who, opt) :: r else if who <? k then (who, opt) :: l else (k, o) :: ins_vote who opt r
  end.
Definition sort_votes (l : list (Z * Z)) : list (Z * Z) := fold_right (fun v acc => ins_vote (fst v) (snd v) acc) [] l.

(* ================================================================ (2) correspondence *)
(* what the translator read from the tree *)
Definition tree_flags : cflags := mkF durations_error_returned quorum_error_panics_flag dynamic_veto_from_allowed.

Definition to_op (h : hop) : cop :=
  match h with
  | HSubmit who ct => OSubmit who ct
  | HVote who id opt => OVote who id opt
  | HEnd => OEndBlock
  | HExt e => OExt e
  | HRotate old new => ORotate old new
  end.

Definition applied_delta (old new : list (event world ccontent)) : list (Z * bool) :=
  let k := (List.length new - List.length old)%nat in
  rev (flat_map (fun e => match e with EvApply id ok _ _ _ => [(id, ok)] | _ => [] end) (firstn k new)).

Definition in_q (id : Z) (q : list (Z * Z)) : bool := existsb (fun k => snd k =? id) q.

Definition props_match (s : cstate) (o : list (Z * (Z * Z) * (bool * bool))) : bool :=
  (Z.of_nat (List.length o) =? next_id s - 1)
  && forallb (fun e =>
       let '(id, (r, x), (ia, ie)) := e in
       match props s id with
       | Some p => (vresult_code (p_result p) =? r) && (p_exec p =? x)
                   && Bool.eqb (in_q id (activeq s)) ia && Bool.eqb (in_q id (enactq s)) ie
       | None => false end) o.

Definition events_of (s s' : cstate) : list (Z * Z) :=
  map (fun k => (2, snd k)) (filter (fun k => negb (in_q (snd k) (enactq s'))) (enactq s))
  ++ map (fun k => (1, snd k)) (filter (fun k => negb (in_q (snd k) (activeq s'))) (activeq s)).

Definition step_matches (s : cstate) (st : Z * Z * hop * obs) : bool * cstate :=
  let '(t, h, hp, o) := st in
  match c_step tree_flags decide_q (mkC t h) (to_op hp) s with
  | Ok s' =>
      ((o_res o =? 0)
       && (match hp with HSubmit _ _ => o_new_id o =? next_id s | _ => true end)
       && list_eqb (fun a b => (fst a =? fst b) && Bool.eqb (snd a) (snd b)) (applied_delta (log s) (log s')) (o_applied o)
       && list_eqb zz_eqb (events_of s s') (o_ev o)
       && props_match s' (o_props o)
       && (match hp with HVote _ id _ => list_eqb zz_eqb (sort_votes (votes s' id)) (o_votes o) | _ => true end)
       && forallb (fun e : Z * list (Z * Z) => list_eqb zz_eqb (sort_votes (votes s' (fst e))) (snd e)) (o_fvotes o)
       && (match o_world o with Some w => world_eqb (app s') w | None => world_eqb (app s') (app s) end),
       s')
  | Err _ =>
      ((o_res o =? 1) && props_match s (o_props o)
       && (match hp with HVote _ id _ => list_eqb zz_eqb (sort_votes (votes s id)) (o_votes o) | _ => true end)
       && (match o_world o with None => true | Some w => world_eqb (app s) w end)
       && match o_applied o, o_ev o with [], [] => true | _, _ => false end, s)
  | Panic _ => ((o_res o =? 2) && props_match s (o_props o)
                && (match o_world o with None => true | Some w => world_eqb (app s) w end), s)
  end.

Fixpoint steps_match (s : cstate) (l : list (Z * Z * hop * obs)) : bool :=
  match l with [] => true | st :: r => let '(b, s') := step_matches s st in b && steps_match s' r end.

Definition case_matches (c : c08_case) : bool :=
  match c with
  | CHist w0 steps => steps_match (init w0) steps
  | CScen _ expect_fail ncalls ok exec res _ _ =>
      (* the scenario did what it was scripted to do: enacted once, and the scripted step failed or not *)
      (ncalls =? 1) && (res =? 1) && Bool.eqb ok (negb expect_fail)
  | CDyn _ t0 period enact q nowners nvotes blocks =>
      (* expected from the OBJECT's parameters: finalised by the first block at or after t0 + period, applied by
         the first later block at or after t0 + period + enactment *)
      let pass := (q * nowners <=? nvotes * PREC) && (0 <? nvotes) in
      let fix go (res : Z) (l : list (Z * Z * Z)) : bool :=
        match l with
        | [] => true
        | (t, r, c) :: rest =>
            let '(res', calls) :=
              if (res =? 4) && (t0 + period * NS <=? t) then ((if pass then 6 else 5), 0)
              else if (res =? 6) && (t0 + (period + enact) * NS <=? t) then (1, 1)
              else (res, 0) in
            (r =? res') && (c =? calls) && go res' rest
        end in
      go 4 blocks
  end.

Fixpoint mismatches_from (n : nat) (cs : list c08_case) : list nat :=
  match cs with [] => [] | c :: r => if case_matches c then mismatches_from (S n) r else n :: mismatches_from (S n) r end.
Definition c08_mismatches (cs : list c08_case) : list nat := mismatches_from 0 cs.

(* ================================================================ (3) spec checker
   Bookkeeping is derived from the operations and the observations only. *)
Record prec := mkR {
  r_id : Z; r_ct : ccontent; r_vend : Z; r_eend : Z; r_minv : Z;
  r_res : Z;                         (* last observed result code *)
  r_fin : option (Z * Z);            (* finalisation: height, MinProposalEnactmentBlocks at that moment *)
  r_napplied : nat;
  r_votes : list (Z * Z) }.          (* accepted votes, latest per voter, sorted by voter *)
(* k_w: the checker's world: permission records (actors, roles) evolved by the checker itself from the
   accepted operations (ghost), the rest as last observed; k_obs: the last observed world *)
Record ck := mkK { k_w : world; k_obs : world; k_recs : list prec }.

Fixpoint find_rec (id : Z) (l : list prec) : option prec :=
  match l with [] => None | r :: t => if r_id r =? id then Some r else find_rec id t end.
Definition upd_rec (r' : prec) (l : list prec) : list prec := map (fun r => if r_id r =? r_id r' then r' else r) l.

(* what each content means when it takes effect, completely (written from the message definitions) *)
Definition spec_effect (ct : ccontent) (w : world) : world :=
  match ct with
  | CSetProp pid v => match np_put pid v (w_np w) with Some n => with_np w n | None => w end
  | CRegistry key hash => with_reg w (set_ix key hash (w_reg w))
  | CWhitelist who perm =>
      let a := match get_actor who (w_actors w) with Some a => a | None => default_actor end in
      with_actors w (put_actor who (set_wl a (ins_sorted perm (a_wl a))) (w_actors w))
  | CUnwhitelist who perm =>
      match get_actor who (w_actors w) with
      | Some a => with_actors w (put_actor who (set_wl a (del perm (a_wl a))) (w_actors w))
      | None => w end
  | CDurations l => with_durs w (fold_left (fun d e => set_ix (fst e) (snd e) d) l (w_durs w))
  | CPoolUpdate name owners q period enact => with_pool w (Some (mkPool owners q period enact))
  end.

Definition cl (b : bool) (name : string) : list string := if b then [] else [name].

(* eligibility and counts, from the world snapshot.  For a dynamic-voter content (vote permission 0)
   the eligible voters are the owner accounts of its pool; the veto-capable ones are those of them
   whose actor record has the veto option. *)
Fixpoint uniq (l : list Z) : list Z :=
  match l with [] => [] | x :: r => if mem x r then uniq r else x :: uniq r end.
Definition dyn_owners (w : world) (ct : ccontent) : list Z :=
  match ct, w_pool w with CPoolUpdate 1 _ _ _ _, Some p => uniq (pl_owners p) | _, _ => [] end.
(* The checker's own notion of who holds a permission, from ITS ghost record of permission and role
   edits (never from the code's index enumeration): individually whitelisted or through an assigned
   role that whitelists it; a blacklist entry (individual or of an assigned role) beats the whitelist. *)
Definition g_roles_have (rs : list (Z * role)) (a : actor) (sel : role -> list Z) (perm : Z) : bool :=
  existsb (fun r => match get_role r rs with Some ro => mem perm (sel ro) | None => false end) (a_roles a).
Definition g_holder (rs : list (Z * role)) (perm : Z) (a : actor) : bool := mem perm (a_wl a) || g_roles_have rs a r_wl perm.
Definition g_blacklisted (rs : list (Z * role)) (perm : Z) (a : actor) : bool := mem perm (a_bl a) || g_roles_have rs a r_bl perm.
Definition g_eligible (rs : list (Z * role)) (perm : Z) (a : actor) : bool := g_holder rs perm a && negb (g_blacklisted rs perm a).
(* the holders, as identifiers: what GetNetworkActorsByAbsoluteWhitelistPermission is meant to enumerate *)
Definition holders_ids (w : world) (perm : Z) : list Z := map fst (filter (fun ka => g_holder (w_roles w) perm (snd ka)) (w_actors w)).
Definition holders_count (w : world) (ct : ccontent) : Z := Z.of_nat (List.length (holders_ids w (vote_perm ct))).
Definition holders_veto (w : world) (ct : ccontent) : Z :=
  Z.of_nat (List.length (filter (fun ka => g_holder (w_roles w) (vote_perm ct) (snd ka) && a_veto (snd ka)) (w_actors w))).
Definition eligible (w : world) (ct : ccontent) : Z :=
  if vote_perm ct =? 0 then Z.of_nat (List.length (dyn_owners w ct))
  else Z.of_nat (List.length (filter (fun ka => g_eligible (w_roles w) (vote_perm ct) (snd ka)) (w_actors w))).
Definition veto_capable (w : world) (ct : ccontent) : Z :=
  if vote_perm ct =? 0 then
    Z.of_nat (List.length (filter (fun o => match get_actor o (w_actors w) with Some a => a_veto a | None => false end) (dyn_owners w ct)))
  else Z.of_nat (List.length (filter (fun ka => g_eligible (w_roles w) (vote_perm ct) (snd ka) && a_veto (snd ka)) (w_actors w))).
Definition may_vote (w : world) (who : Z) (ct : ccontent) : bool :=
  w_is_active w who && (if vote_perm ct =? 0 then mem who (dyn_owners w ct)
                        else match get_actor who (w_actors w) with Some a => g_eligible (w_roles w) (vote_perm ct) a | None => false end).
Definition spec_quorum (w : world) (ct : ccontent) : Z :=
  if vote_perm ct =? 0 then match ct, w_pool w with CPoolUpdate 1 _ _ _ _, Some p => pl_quorum p | _, _ => 0 end
  else n_quorum (w_np w).
(* voting window and enactment delay fixed at submission *)
Definition spec_window (w : world) (ct : ccontent) : Z * Z :=
  if vote_perm ct =? 0 then match ct, w_pool w with CPoolUpdate 1 _ _ _ _, Some p => (pl_period p, pl_enact p) | _, _ => (0, 0) end
  else let d := get_ix (ptype ct) (w_durs w) in
       ((if d <? n_endtime (w_np w) then n_endtime (w_np w) else d), n_enact (w_np w)).
Definition nopt (o : Z) (vs : list (Z * Z)) : Z := Z.of_nat (List.length (filter (fun v => snd v =? o) vs)).

(* "passed": quorum of the eligible voters voted, yes > half of the votes cast, veto < half of
   the veto-capable voters *)
Definition pass_clauses (w : world) (r : prec) : list string :=
  let ct := r_ct r in
  let total := Z.of_nat (List.length (r_votes r)) in
  let vcap := veto_capable w ct in
  cl (spec_quorum w ct * eligible w ct <=? total * PREC) "passed_without_quorum"
  ++ cl (total <? 2 * nopt 1 (r_votes r)) "passed_without_majority"
  ++ cl ((vcap =? 0) || (2 * nopt 4 (r_votes r) <? vcap))
        (if vote_perm ct =? 0 then "passed_despite_veto:dynamic_voter_proposal"
         else if (holders_veto w ct =? 0) || (2 * nopt 4 (r_votes r) <? holders_veto w ct)
              then "passed_despite_veto:blacklisted_holders_counted_as_veto_capable" else "passed_despite_veto").

Definition obs_result (id : Z) (o : obs) : option (Z * Z) :=
  option_map (fun e => snd (fst e)) (find (fun e => fst (fst e) =? id) (o_props o)).

(* result transitions of one known proposal in one step *)
Definition trans_clauses (t h : Z) (is_end : bool) (w_after : world) (o : obs) (r : prec) : list string * prec :=
  match obs_result (r_id r) o with
  | None => (["proposal_vanished"%string], r)
  | Some (res, ex) =>
      let applied_now := existsb (fun a => fst a =? r_id r) (o_applied o) in
      if res =? r_res r then
        (cl (negb applied_now || (r_res r =? 6)) "applied_not_passed", r)
      else if r_res r =? 4 then
        (* finalisation *)
        (cl is_end "finalised_outside_end_block"
         ++ cl ((r_vend r <=? t) && (r_minv r <=? h)) "early_final"
         ++ cl (negb (res =? 1) && negb (res =? 7)) "passed_without_enactment"
         ++ (if res =? 6 then pass_clauses w_after r else [])
         ++ cl (negb applied_now) "applied_at_finalisation",
         mkR (r_id r) (r_ct r) (r_vend r) (r_eend r) (r_minv r) res (Some (h, n_enactblocks (w_np w_after))) (r_napplied r) (r_votes r))
      else if (r_res r =? 6) && (res =? 1) then
        (cl applied_now "passed_without_apply",
         mkR (r_id r) (r_ct r) (r_vend r) (r_eend r) (r_minv r) res (r_fin r) (r_napplied r) (r_votes r))
      else (["result_changed"%string], mkR (r_id r) (r_ct r) (r_vend r) (r_eend r) (r_minv r) res (r_fin r) (r_napplied r) (r_votes r))
  end.

(* one handler call observed inside EndBlocker; [recs] are the records BEFORE this step *)
Definition apply_clauses (t h : Z) (recs : list prec) (o : obs) (seen : list Z) (a : Z * bool) : list string :=
  match find_rec (fst a) recs with
  | None => ["applied_unknown"%string]
  | Some r =>
      cl (Nat.eqb (r_napplied r) 0 && negb (mem (fst a) seen)) "applied_twice"
      ++ cl (r_res r =? 6) "applied_not_passed"
      ++ cl (r_eend r <=? t) "applied_before_enactment_time"
      ++ cl (match r_fin r with Some (hf, nb) => hf + nb <=? h | None => false end) "applied_before_enactment_height"
      ++ cl (match obs_result (fst a) o with Some (_, ex) => ex =? (if snd a then 1 else 2) | None => false end) "exec_flag"
  end.

Fixpoint apply_all (t h : Z) (recs : list prec) (o : obs) (seen : list Z) (l : list (Z * bool)) : list string :=
  match l with [] => [] | a :: r => apply_clauses t h recs o seen a ++ apply_all t h recs o (fst a :: seen) r end.

Definition expected_world (recs : list prec) (w : world) (l : list (Z * bool)) : world :=
  fold_left (fun (w : world) (a : Z * bool) => if snd a then match find_rec (fst a) recs with Some r => spec_effect (r_ct r) w | None => w end else w) l w.

(* Naming of an "atomic" violation (part of the violation signature).  If the observed state is
   explained exactly by "a durations proposal stopped at its first entry below MinimumProposalEndTime
   and reported success", the clause is atomic:durations:entry_below_min_end_time; otherwise the
   clause names the kinds of all contents applied in the block. *)
Fixpoint durations_prefix (l : list (Z * Z)) (w : world) : world :=
  match l with
  | [] => w
  | (ty, d) :: r => if d <? n_endtime (w_np w) then w else durations_prefix r (with_durs w (set_ix ty d (w_durs w)))
  end.
Definition prefix_world (recs : list prec) (w : world) (l : list (Z * bool)) : world :=
  fold_left (fun (w : world) (a : Z * bool) =>
               if snd a then match find_rec (fst a) recs with
                             | Some r => match r_ct r with CDurations dl => durations_prefix dl w | ct => spec_effect ct w end
                             | None => w end
               else w) l w.
Definition kind_name (ct : ccontent) : string :=
  match ct with
  | CSetProp _ _ => ":setprop" | CRegistry _ _ => ":registry" | CWhitelist _ _ => ":whitelist"
  | CUnwhitelist _ _ => ":unwhitelist" | CDurations _ => ":durations" | CPoolUpdate _ _ _ _ _ => ":poolupdate" end.
Definition applied_kinds (recs : list prec) (w w' : world) (l : list (Z * bool)) : string :=
  if world_eqb w' (prefix_world recs w l) then ":durations:entry_below_min_end_time"
  else fold_right (fun (a : Z * bool) acc => if snd a then match find_rec (fst a) recs with Some r => String.append (kind_name (r_ct r)) acc | None => acc end else acc) EmptyString l.

Fixpoint map_acc (f : prec -> list string * prec) (l : list prec) : list string * list prec :=
  match l with [] => ([], []) | r :: t => let '(c, r') := f r in let '(cs, t') := map_acc f t in (c ++ cs, r' :: t') end.

Definition bump_applied (l : list (Z * bool)) (recs : list prec) : list prec :=
  map (fun r => mkR (r_id r) (r_ct r) (r_vend r) (r_eend r) (r_minv r) (r_res r) (r_fin r)
                    (r_napplied r + List.length (filter (fun a : Z * bool => Z.eqb (fst a) (r_id r)) l))%nat (r_votes r)) recs.

Definition move_vote (old new : Z) (vs : list (Z * Z)) : list (Z * Z) :=
  match find (fun v => fst v =? old) vs with
  | Some v => ins_vote new (snd v) (filter (fun x => negb (fst x =? old)) vs)
  | None => vs end.

(* ---- the ghost record of permission / role edits: what each accepted edit means (independent of the keeper) *)
Definition g_edit (who : Z) (create : bool) (w : world) (f : actor -> option actor) : world :=
  match (match get_actor who (w_actors w) with Some a => Some a | None => if create then Some default_actor else None end) with
  | Some a => match f a with Some a' => with_actors w (put_actor who a' (w_actors w)) | None => w end
  | None => w end.
Definition g_role_edit (r : Z) (w : world) (f : role -> option role) : world :=
  match get_role r (w_roles w) with
  | Some ro => match f ro with Some ro' => with_roles w (put_role r ro' (w_roles w)) | None => w end
  | None => w end.
Definition ghost_ext (e : cext) (w : world) : world :=
  match e with
  | XWhitelist who p => g_edit who true w (fun a => if mem p (a_wl a) || mem p (a_bl a) then None else Some (set_wl a (ins_sorted p (a_wl a))))
  | XUnwhitelist who p => g_edit who false w (fun a => if mem p (a_wl a) then Some (set_wl a (del p (a_wl a))) else None)
  | XBlacklist who p => g_edit who true w (fun a => if mem p (a_wl a) || mem p (a_bl a) then None else Some (set_bl a (ins_sorted p (a_bl a))))
  | XUnblacklist who p => g_edit who false w (fun a => if mem p (a_bl a) then Some (set_bl a (del p (a_bl a))) else None)
  | XSetActive who b => g_edit who false w (fun a => Some (mkA b (a_veto a) (a_wl a) (a_bl a) (a_roles a)))
  | XSetVeto who b => g_edit who false w (fun a => Some (mkA (a_active a) b (a_wl a) (a_bl a) (a_roles a)))
  | XAssignRole who r => match get_role r (w_roles w) with
                         | Some _ => g_edit who true w (fun a => if mem r (a_roles a) then None else Some (set_roles a (ins_sorted r (a_roles a))))
                         | None => w end
  | XUnassignRole who r => match get_role r (w_roles w) with
                           | Some _ => g_edit who false w (fun a => if mem r (a_roles a) then Some (set_roles a (del r (a_roles a))) else None)
                           | None => w end
  | XRoleWl r p true => g_role_edit r w (fun ro => if mem p (r_wl ro) || mem p (r_bl ro) then None else Some (mkRole (ins_sorted p (r_wl ro)) (r_bl ro)))
  | XRoleWl r p false => g_role_edit r w (fun ro => if mem p (r_wl ro) then Some (mkRole (del p (r_wl ro)) (r_bl ro)) else None)
  | XRoleBl r p true => g_role_edit r w (fun ro => if mem p (r_wl ro) || mem p (r_bl ro) then None else Some (mkRole (r_wl ro) (ins_sorted p (r_bl ro))))
  | XRoleBl r p false => g_role_edit r w (fun ro => if mem p (r_bl ro) then Some (mkRole (r_wl ro) (del p (r_bl ro))) else None)
  | XSetNP _ _ | XSetDur _ _ => w          (* not a permission edit: that part of the world is taken from the observation *)
  end.
(* address rotation: the person's actor record continues under the new address *)
Definition g_rotate (old new : Z) (w : world) : world :=
  match get_actor old (w_actors w) with
  | Some a => with_actors w (put_actor new a (filter (fun ka => negb (fst ka =? old)) (w_actors w)))
  | None => w end.

Definition ck_step (k : ck) (st : Z * Z * hop * obs) : list string * ck :=
  let '(t, h, hp, o) := st in
  let w := k_w k in
  let is_end := match hp with HEnd => true | _ => false end in
  let accepted := o_res o =? 0 in
  let obs' := match o_world o with Some x => x | None => k_obs k end in
  let ghost := if accepted then match hp with
                                | HExt e => ghost_ext e w
                                | HRotate old new => g_rotate old new w
                                | HEnd => expected_world (k_recs k) w (o_applied o)
                                | _ => w end
               else w in
  let w' := mkW (w_np obs') (w_actors ghost) (w_durs obs') (w_reg obs') (w_pool obs') (w_roles ghost) in
  (* clauses that hold for every step *)
  let '(tc, recs1) := map_acc (trans_clauses t h is_end w' o) (k_recs k) in
  let ac := apply_all t h (k_recs k) o [] (o_applied o) in
  let recs2 := bump_applied (o_applied o) recs1 in
  let wc := match hp with
            | HExt _ | HRotate _ _ =>       (* the stored permission records must be what the accepted edits amount to *)
                cl (actors_eqb (w_actors obs') (w_actors ghost) && roles_eqb (w_roles obs') (w_roles ghost)) "permission_records_differ_from_ghost"
            | HEnd => cl (world_eqb obs' ghost)
                         (String.append "atomic" (applied_kinds (k_recs k) w obs' (o_applied o)))
            | _ => cl (world_eqb obs' w) "effect_without_enactment" end in
  let oc := match hp with HEnd => [] | _ => cl (match o_applied o with [] => true | _ => false end) "applied_outside_end_block" end in
  let rej := if accepted then [] else cl (world_eqb obs' w) "rejected_changed_state" in
  (* operation specific *)
  let '(sc, recs3) :=
    match hp with
    | HSubmit who ct =>
        if accepted then
          let vend := t + NS * fst (spec_window w ct) in
          (cl (match find_rec (o_new_id o) recs2 with None => true | Some _ => false end) "proposal_id_reused"
           ++ cl (match obs_result (o_new_id o) o with Some (4, 0) => true | _ => false end) "new_proposal_not_pending",
           recs2 ++ [mkR (o_new_id o) ct vend (vend + NS * snd (spec_window w ct)) (h + n_endblocks (w_np w)) 4 None 0 []])
        else ([], recs2)
    | HVote who id opt =>
        match find_rec id recs2 with
        | None => (cl (negb accepted) "vote_on_unknown_proposal", recs2)
        | Some r =>
            if accepted then
              let vs := ins_vote who opt (r_votes r) in
              (cl (t <=? r_vend r) "late_vote_accepted"
               ++ cl (may_vote w who (r_ct r)) "vote_without_permission"
               ++ cl (list_eqb zz_eqb vs (o_votes o)) "revote_not_replaced",
               upd_rec (mkR (r_id r) (r_ct r) (r_vend r) (r_eend r) (r_minv r) (r_res r) (r_fin r) (r_napplied r) vs) recs2)
            else (cl (list_eqb zz_eqb (r_votes r) (o_votes o)) "rejected_vote_recorded", recs2)
        end
    | HRotate old new =>
        (* the PERSON continues under the new address: its last accepted vote goes with it *)
        if accepted then
          ([], map (fun r => mkR (r_id r) (r_ct r) (r_vend r) (r_eend r) (r_minv r) (r_res r) (r_fin r) (r_napplied r)
                                 (move_vote old new (r_votes r))) recs2)
        else ([], recs2)
    | _ => ([], recs2)
    end in
  (* the stored votes reported by this step (at a finalisation: the votes that were counted) must be
     exactly the votes in force: the last accepted vote of each person *)
  let fc := flat_map (fun e : Z * list (Z * Z) =>
                        match find_rec (fst e) recs3 with
                        | Some r => cl (list_eqb zz_eqb (r_votes r) (snd e))
                                       (match hp with HRotate _ _ => "stored_votes_after_rotation_differ_from_one_vote_per_person"
                                                 | _ => "counted_votes_differ_from_last_accepted_vote_per_person" end)
                        | None => ["votes_of_unknown_proposal"%string] end) (o_fvotes o) in
  (* the voters the code enumerated for the tally vs. the holders according to the ghost record *)
  let ec := flat_map (fun e : Z * list Z =>
                        match find_rec (fst e) recs3 with
                        | Some r => cl (list_eqb Z.eqb (holders_ids w' (vote_perm (r_ct r))) (snd e)) "electorate:mismatch"
                        | None => ["electorate_of_unknown_proposal"%string] end) (o_electorate o) in
  (tc ++ ac ++ wc ++ oc ++ rej ++ sc ++ fc ++ ec, mkK w' obs' recs3).

Fixpoint ck_run (k : ck) (l : list (Z * Z * hop * obs)) : list string :=
  match l with [] => [] | st :: r => let '(c, k') := ck_step k st in c ++ ck_run k' r end.

Fixpoint dedup (l : list string) : list string :=
  match l with [] => [] | x :: r => if str_in x r then dedup r else x :: dedup r end.

(* "applied completely or not at all", on the whole application state *)
Definition scen_clauses (name : string) (ncalls : Z) (ok : bool) (exec : Z) (unchanged full : bool) : list string :=
  cl (ncalls <=? 1) (String.append "applied_twice:" name)
  ++ (if ncalls =? 0 then [] else
      cl (if ok then full else unchanged)
         (String.append (if ok then "atomic:success_without_complete_effect:" else "atomic:failure_left_writes:") name)
      ++ cl (exec =? (if ok then 1 else 2)) (String.append "exec_flag:" name)).

(* voting end, quorum and enactment time judged from the owning object's own parameters *)
Fixpoint dyn_clauses (name : string) (t0 period enact q nowners nvotes : Z) (res : Z) (l : list (Z * Z * Z)) : list string :=
  match l with
  | [] => []
  | (t, r, c) :: rest =>
      (if (res =? 4) && negb (r =? 4) then
         cl (t0 + period * NS <=? t) (String.append "early_final:dynamic:" name)
         ++ (if r =? 6 then cl (q * nowners <=? nvotes * PREC) (String.append "passed_without_quorum:dynamic:" name) else [])
       else [])
      ++ (if 0 <? c then
            cl (t0 + (period + enact) * NS <=? t) (String.append "applied_before_enactment_time:dynamic:" name)
            ++ cl (res =? 6) (String.append "applied_not_passed:dynamic:" name)
            ++ cl (c =? 1) (String.append "applied_twice:dynamic:" name)
          else [])
      ++ dyn_clauses name t0 period enact q nowners nvotes r rest
  end.

Definition case_clauses (c : c08_case) : list string :=
  match c with
  | CHist w0 steps => dedup (ck_run (mkK w0 w0 []) steps)
  | CScen name _ ncalls ok exec _ unchanged full => scen_clauses name ncalls ok exec unchanged full
  | CDyn name t0 period enact q nowners nvotes blocks => dedup (dyn_clauses name t0 period enact q nowners nvotes 4 blocks)
  end.

Fixpoint violations_from (n : nat) (cs : list c08_case) : list (nat * list string) :=
  match cs with [] => [] | c :: r =>
    match case_clauses c with [] => violations_from (S n) r | l => (n, l) :: violations_from (S n) r end end.
Definition c08_violations (cs : list c08_case) : list (nat * list string) := violations_from 0 cs.
