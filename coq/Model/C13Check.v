(* C13: (1) observations of the real code, (2) correspondence model vs. observations,
   (3) the decidable spec checker, written from the property text and applied to the REAL
   observations -- it never calls the model's step functions. *)
From Sekai Require Import Base.Prelude Base.Dec Model.Monetary.

(* result class of one operation on the real code: 0 ok, 1 rejected, 2 panic *)
Inductive obs : Type :=
| BObs (res : Z) (s_begin s_ubi : Z) (ps ys : snap) (ubis : list ubi) (pool0 : Z) (regn : Z) (mints : list Z)
    (* block; regn = registry supply of the native token; mints = native amounts minted by the ubi end blocker, in order *)
| TObs (res : Z) (nat_after : Z) (t : option tok) (bank_d : Z)                        (* token operation on denom d *)
| UObs (res : Z) (nat_after : Z) (ubis : list ubi)                                    (* ubi proposal *)
| PObs (res : Z) (nat_after : Z)                                                      (* parameters, fee flow *)
| GObs (res : Z) (nat_after : Z) (ps ys : snap) (ubis : list ubi) (pool0 : Z) (regs : list (Z * tok)) (banks : list (Z * Z)).
    (* genesis round trip: both snapshots, UBI records, pool balance, the whole registry, bank supply of every registered denom *)                                                     (* parameters, fee flow *)

Record init := mkInit { i_supply : Z; i_bals : list ((Z * Z) * Z); i_params : params; i_psnap : snap; i_ysnap : snap }.
Record c13_case := mkCase { c_init : init; c_steps : list (op * obs) }.

(* ---------------------------------------------------------------- equality tests *)
Definition oz_eqb (a b : option Z) : bool :=
  match a, b with Some x, Some y => x =? y | None, None => true | _, _ => false end.
Definition snap_eqb (a b : snap) : bool := (sn_time a =? sn_time b) && oz_eqb (sn_amt a) (sn_amt b).
Definition tok_eqb (a b : tok) : bool :=
  (t_supply a =? t_supply b) && (t_cap a =? t_cap b) && (t_owner a =? t_owner b) && Bool.eqb (t_noedit a) (t_noedit b)
  && (t_fee a =? t_fee b) && (t_stakecap a =? t_stakecap b).
Definition otok_eqb (a b : option tok) : bool :=
  match a, b with Some x, Some y => tok_eqb x y | None, None => true | _, _ => false end.
Definition ubi_eqb (a b : ubi) : bool :=
  (u_name a =? u_name b) && (u_amount a =? u_amount b) && (u_period a =? u_period b) && (u_last a =? u_last b)
  && (u_end a =? u_end b) && Bool.eqb (u_dynamic a) (u_dynamic b) && (u_pool a =? u_pool b).
Fixpoint list_eqb {A} (e : A -> A -> bool) (l m : list A) : bool :=
  match l, m with [] , [] => true | x :: l', y :: m' => (e x y && list_eqb e l' m')%bool | _, _ => false end.
Definition obs_eqb (a b : obs) : bool :=
  match a, b with
  | BObs r1 a1 b1 p1 y1 u1 q1 g1 m1, BObs r2 a2 b2 p2 y2 u2 q2 g2 m2 =>
      (r1 =? r2) && (a1 =? a2) && (b1 =? b2) && snap_eqb p1 p2 && snap_eqb y1 y2 && list_eqb ubi_eqb u1 u2 && (q1 =? q2) && (g1 =? g2)
      && list_eqb Z.eqb m1 m2
  | TObs r1 n1 t1 b1, TObs r2 n2 t2 b2 => (r1 =? r2) && (n1 =? n2) && otok_eqb t1 t2 && (b1 =? b2)
  | UObs r1 n1 u1, UObs r2 n2 u2 => (r1 =? r2) && (n1 =? n2) && list_eqb ubi_eqb u1 u2
  | PObs r1 n1, PObs r2 n2 => (r1 =? r2) && (n1 =? n2)
  | GObs r1 n1 p1 y1 u1 q1 g1 b1, GObs r2 n2 p2 y2 u2 q2 g2 b2 =>
      (r1 =? r2) && (n1 =? n2) && snap_eqb p1 p2 && snap_eqb y1 y2 && list_eqb ubi_eqb u1 u2 && (q1 =? q2)
      (* registry and supplies as finite maps: the store iterates by denomination, the model's list is in creation order *)
      && forallb (fun e => otok_eqb (aget (fst e) g2) (Some (snd e))) g1 && forallb (fun e => otok_eqb (aget (fst e) g1) (Some (snd e))) g2
      && forallb (fun e => oz_eqb (aget (fst e) b2) (Some (snd e))) b1 && forallb (fun e => oz_eqb (aget (fst e) b1) (Some (snd e))) b2
  | _, _ => false
  end.

Definition res_of {A} (o : outcome A) : Z := match o with Ok _ => 0 | Err _ => 1 | Panic _ => 2 end.

Section Run.
Variable t0 : Z.
Variable reg0 : list (Z * tok).
Variable ubis0 : list ubi.

(* ================================================================ (2) model vs observation *)
Section Model.
Variable cf : config.
Variable pools0 : list (Z * Z).

Definition init_state (i : init) : st :=
  mkSt t0 1 (i_params i) (i_psnap i) (i_ysnap i) [(native, i_supply i)]
       (map (fun e => (bkey (fst (fst e)) (snd (fst e)), snd e)) (i_bals i)) reg0 ubis0 pools0.

Definition op_denom (o : op) : Z :=
  match o with
  | OUpsertMsg _ _ d _ _ _ _ _ _ => d | OPropUpsert d _ _ _ _ _ _ => d | OMintIssue _ d _ => d | OMintIssue2 _ d _ _ => d | OBurn _ d _ => d
  | _ => native end.

Definition reg_native (s : st) : Z := match aget native (s_reg s) with Some t => t_supply t | None => 0 end.

(* what the model predicts the harness observes for [o] from state [s]; also the next state *)
Definition model_obs (s : st) (o : op) : st * obs :=
  match o with
  | OBlock dt =>
      match block_parts cf s dt with
      | Ok (s1, s2, s3) => (s3, BObs 0 (nat_supply s1) (nat_supply s2) (s_psnap s3) (s_ysnap s3) (s_ubis s3) (zget 0 (s_pools s3)) (reg_native s3) (ubi_mints cf (s_ubis s1) s1))
      | r => (s, BObs (res_of r) (nat_supply s) (nat_supply s) (s_psnap s) (s_ysnap s) (s_ubis s) (zget 0 (s_pools s)) (reg_native s) [])
      end
  | OGenesis =>
      let s' := step_total cf s o in
      (s', GObs 0 (nat_supply s') (s_psnap s') (s_ysnap s') (s_ubis s') (zget 0 (s_pools s')) (s_reg s')
                (map (fun e => (fst e, supply_of s' (fst e))) (s_reg s')))
  | OParams _ _ _ | OHardcap _ | OFee _ _ =>
      let r := step cf s o in let s' := step_total cf s o in (s', PObs (res_of r) (nat_supply s'))
  | OUbiUpsert _ _ _ _ _ _ | OUbiRemove _ =>
      let r := step cf s o in let s' := step_total cf s o in (s', UObs (res_of r) (nat_supply s') (s_ubis s'))
  | _ =>
      let r := step cf s o in let s' := step_total cf s o in let d := op_denom o in
      (s', TObs (res_of r) (nat_supply s') (aget d (s_reg s')) (supply_of s' d))
  end.

Fixpoint steps_match (s : st) (l : list (op * obs)) : bool :=
  match l with
  | [] => true
  | (o, ob) :: r => let '(s', mo) := model_obs s o in obs_eqb mo ob && steps_match s' r
  end.
Definition case_matches (c : c13_case) : bool := steps_match (init_state (c_init c)) (c_steps c).

Fixpoint mismatches_from (n : nat) (cs : list c13_case) : list nat :=
  match cs with [] => [] | c :: r => if case_matches c then mismatches_from (S n) r else n :: mismatches_from (S n) r end.
Definition c13_mismatches (cs : list c13_case) : list nat := mismatches_from 0 cs.
End Model.

(* ================================================================ (3) the property, on real observations
   The checker keeps only OBSERVED values: the last seen native supply, snapshots, UBI records and
   registry records, plus the parameters that the operations themselves set. *)
Record tview := mkTview { v_tok : option tok; v_bank : Z; v_bound : Z }.   (* v_bound: least positive cap seen; 0 = none *)
Record cst := mkCst {
  k_now : Z; k_params : params; k_psnap : snap; k_ysnap : snap; k_native : Z;
  k_ubis : list ubi; k_toks : list (Z * tview) }.

Definition view_of (k : cst) (d : Z) : tview :=
  match aget d (k_toks k) with
  | Some v => if d =? native then mkTview (v_tok v) (k_native k) (v_bound v) else v
  | None => mkTview None (if d =? native then k_native k else 0) 0 end.
Definition reg_supply_of (t : option tok) : Z := match t with Some x => t_supply x | None => 0 end.

(* exact arithmetic of the bounds (integers; no Dec rounding, no uint64 wrap) *)
Definition cdiv (a b : Z) : Z := - ((- a) / b).          (* ceiling for b > 0 *)
(* snapshot grown pro rata: a + ceil(a * rate * dt / period), rate scaled by 10^18 *)
Definition spec_target (ps : snap) (pr : params) (now : Z) : option Z :=
  match sn_amt ps with
  | None => None
  | Some a => Some (a + cdiv (a * p_rate pr * (now - sn_time ps)) (PREC * p_period pr))
  end.
(* supply has grown over the year-start snapshot by the annual maximum pro-rated by the month
   index (plus the 2e-18 slack of the decimal arithmetic) *)
Definition spec_gate_closed (ys : snap) (maxann supply now : Z) : bool :=
  match sn_amt ys with
  | None => false
  | Some a =>
      let mi := (now - sn_time ys + 2592000 - 1) / 2592000 in
      (0 <? a) && (0 <=? mi) && (a * (maxann * mi + 24) <=? 12 * (supply - a) * PREC)
  end.
Definition spec_ubi_yearly (us : list ubi) : Z :=
  zsum (map (fun u => if u_period u =? 0 then 0 else u_amount u * 31556952 / u_period u) us).
Definition spec_ubi_due_total (now : Z) (us : list ubi) : Z :=
  zsum (map (fun u => if (u_last u + u_period u <? now) then u_amount u * 1000000 else 0) us).

Definition cl (b : bool) (name : string) : list string := if b then [] else [name].

(* the two block clauses on the inflation bounds (named so that Proofs/Monetary.v can state that
   every block of the model passes them: c13_chk_sound_block) *)
Definition chk_infl_target (native_before : Z) (ps : snap) (pr : params) (now sb : Z) : bool :=
  match spec_target ps pr now with
  | Some tgt => sb <=? Z.max native_before tgt
  | None => sb <=? native_before end.
Definition chk_annual_gate (native_before : Z) (ys : snap) (pr : params) (now su : Z) : bool :=
  if spec_gate_closed ys (p_maxann pr) native_before now then su =? native_before else true.
Definition chk_origin (native_before n : Z) : bool := n <=? native_before.
Fixpoint chk_ubi_gate (ys : snap) (pr : params) (now running : Z) (mints : list Z) : bool :=
  match mints with
  | [] => true
  | m :: r => negb (spec_gate_closed ys (p_maxann pr) running now) && (0 <? m) && chk_ubi_gate ys pr now (running + m) r
  end.

Definition with_native (k : cst) (n : Z) : cst := mkCst (k_now k) (k_params k) (k_psnap k) (k_ysnap k) n (k_ubis k) (k_toks k).

(* clauses for one step; returns the clauses violated and the next checker state *)
Definition check_step (k : cst) (o : op) (ob : obs) : list string * cst :=
  match o, ob with
  | OBlock dt, BObs res sb su ps ys ubis _ regn mints =>
      if negb (res =? 0) then ([], k) else
      let now := k_now k + dt in
      let pr := k_params k in
      let cls :=
        (* inflation never lifts supply above the period snapshot grown pro rata *)
        cl (chk_infl_target (k_native k) (k_psnap k) pr now sb) "infl_target"
        (* no minting (inflation or UBI) once the pro-rated annual maximum is reached *)
        ++ cl (chk_annual_gate (k_native k) (k_ysnap k) pr now su) "annual_gate"
        (* ... and, record by record inside the block: every UBI mint happens with the gate still open
           at the supply reached just before it (inflation of this block and earlier records included) *)
        ++ cl (chk_ubi_gate (k_ysnap k) pr now sb mints) "ubi_gate"
        ++ cl (zsum mints =? su - sb) "ubi_mints"
        (* UBI pays at most the amount of every due record *)
        ++ cl ((sb <=? su) && (su - sb <=? spec_ubi_due_total now (k_ubis k))) "ubi_payout"
        (* snapshots record the actual supply at the time they are taken *)
        ++ cl ((snap_eqb ps (k_psnap k) || snap_eqb ps (mkSnap now (Some su)))
               && (snap_eqb ys (k_ysnap k) || snap_eqb ys (mkSnap now (Some su)))) "snapshot"
        (* the registry record of the native token grows by exactly what was minted *)
        ++ cl (regn - reg_supply_of (v_tok (view_of k native)) =? su - k_native k) "reg_tracks" in
      (cls, mkCst now pr ps ys su ubis
                  (aset native (let v := view_of k native in
                                mkTview (match v_tok v with Some x => Some (with_supply x regn) | None => Some (with_supply default_tok regn) end) su (v_bound v)) (k_toks k)))
  | OParams rate period maxann, PObs res n =>
      (cl (chk_origin (k_native k) n) "origin",
       with_native (if res =? 0 then mkCst (k_now k) (mkParams rate period maxann (p_hardcap (k_params k))) (k_psnap k) (k_ysnap k) (k_native k) (k_ubis k) (k_toks k) else k) n)
  | OHardcap v, PObs res n =>
      (cl (chk_origin (k_native k) n) "origin",
       with_native (if res =? 0 then let p := k_params k in mkCst (k_now k) (mkParams (p_rate p) (p_period p) (p_maxann p) v) (k_psnap k) (k_ysnap k) (k_native k) (k_ubis k) (k_toks k) else k) n)
  | OFee _ _, PObs res n => (cl (chk_origin (k_native k) n) "origin", with_native k n)
  | OGenesis, GObs res n ps ys ubis _ regs banks =>
      (* a genesis round trip changes nothing the property speaks about: the checker's own record (snapshots as
         observed at the blocks that took them, UBI records, registry records, supplies) simply carries across *)
      (cl (res =? 0) "genesis_fails"
       ++ cl (n =? k_native k) "genesis_supply"
       ++ cl (snap_eqb (snap_norm ps) (snap_norm (k_psnap k)) && snap_eqb (snap_norm ys) (snap_norm (k_ysnap k))) "genesis_snapshots"
       ++ cl (list_eqb ubi_eqb ubis (k_ubis k)) "genesis_ubi"
       ++ cl (forallb (fun e => otok_eqb (aget (fst e) regs) (v_tok (view_of k (fst e)))) regs
              && forallb (fun e => snd e =? v_bank (view_of k (fst e))) banks
              && forallb (fun e => match v_tok (view_of k (fst e)) with Some _ => existsb (fun r => fst r =? fst e) regs | None => true end) (k_toks k)) "genesis_registry",
       mkCst (k_now k) (k_params k) (snap_norm (k_psnap k)) (snap_norm (k_ysnap k)) (k_native k) (k_ubis k) (k_toks k))
  | OUbiUpsert name amount period start end_ pool, UObs res n ubis =>
      (cl (chk_origin (k_native k) n) "origin"
       ++ (if res =? 0 then
             (* accepted only if the yearly total of all records stays within the hard cap *)
             cl (spec_ubi_yearly ubis <=? p_hardcap (k_params k)) "ubi_cap"
             ++ cl (existsb (fun u => ubi_eqb u (mkUbi name amount period start end_ false pool)) ubis
                    && forallb (fun u => (u_name u =? name) || existsb (ubi_eqb u) (k_ubis k)) ubis) "ubi_record"
           else cl (list_eqb ubi_eqb ubis (k_ubis k)) "reject"),
       mkCst (k_now k) (k_params k) (k_psnap k) (k_ysnap k) n ubis (k_toks k))
  | OUbiRemove name, UObs res n ubis =>
      (cl (chk_origin (k_native k) n) "origin"
       ++ (if res =? 0 then cl (forallb (fun u => negb (u_name u =? name) && existsb (ubi_eqb u) (k_ubis k)) ubis) "ubi_record"
           else cl (list_eqb ubi_eqb ubis (k_ubis k)) "reject"),
       mkCst (k_now k) (k_params k) (k_psnap k) (k_ysnap k) n ubis (k_toks k))
  | _, TObs res n t bank =>
      let d := match o with
               | OUpsertMsg _ _ d _ _ _ _ _ _ => d | OPropUpsert d _ _ _ _ _ _ => d | OMintIssue _ d _ => d | OMintIssue2 _ d _ _ => d | OBurn _ d _ => d
               | _ => native end in
      let v := view_of k d in
      let rs := reg_supply_of (v_tok v) in
      let rs' := reg_supply_of t in
      let bound := match t with
                   | Some x => if 0 <? t_cap x then (if 0 <? v_bound v then Z.min (v_bound v) (t_cap x) else t_cap x) else v_bound v
                   | None => v_bound v end in
      let cls :=
        (* native tokens are created only by block inflation and UBI payouts *)
        cl (chk_origin (k_native k) n) "origin"
        ++ (if negb (res =? 0) then cl (otok_eqb t (v_tok v) && (bank =? v_bank v)) "reject" else
            (match o with
             | OMintIssue _ _ amt =>
                 (* recorded supply grows by exactly what is minted *)
                 cl ((rs' - rs =? bank - v_bank v) && (bank - v_bank v =? amt) && (0 <? amt)) "reg_tracks"
             | OMintIssue2 _ _ a1 a2 =>
                 (* two mints in one transaction: the registry and the bank both grow by the SUM *)
                 cl ((rs' - rs =? bank - v_bank v) && (bank - v_bank v =? a1 + a2) && (0 <? a1) && (0 <? a2)) "reg_tracks"
             | OBurn _ _ amt => cl ((rs' - rs =? bank - v_bank v) && (bank - v_bank v =? - amt) && (0 <? amt)) "reg_tracks"
             | OUpsertMsg actor perm _ _ _ _ _ _ _ =>
                 match v_tok v with
                 | Some old =>
                     cl ((rs' =? rs) && (bank =? v_bank v)) "reg_tracks"
                     ++ cl ((t_owner old =? actor) && negb (t_noedit old)) "owner_only"
                     (* an owner can never raise or remove the cap *)
                     ++ cl (if 0 <? t_cap old then match t with Some x => (0 <? t_cap x) && (t_cap x <=? t_cap old) | None => false end else true) "owner_cap"
                 | None => cl perm "gate" ++ cl (bank =? v_bank v) "reg_tracks"
                 end
             | OPropUpsert _ _ _ _ _ _ _ =>
                 match v_tok v with
                 | Some old => cl ((rs' =? rs) && (bank =? v_bank v) && match t with Some x => t_cap x =? t_cap old | None => false end) "reg_tracks"
                 | None => cl (bank =? v_bank v) "reg_tracks"
                 end
             | _ => []
             end)
            (* recorded supply never exceeds the cap -- the current one, and (when this operation
               raised the supply) every positive cap the token has had since it was registered,
               because caps only go down *)
            ++ cl (match t with Some x => if 0 <? t_cap x then t_supply x <=? t_cap x else true | None => true end) "cap"
            ++ cl (if (0 <? bound) && (rs <? rs') then rs' <=? bound else true) "cap_hist") in
      (cls, mkCst (k_now k) (k_params k) (k_psnap k) (k_ysnap k) n (k_ubis k) (aset d (mkTview t bank bound) (k_toks k)))
  | _, _ => (["shape"%string], k)
  end.

Definition at_step (i : Z) (name : string) : string := (name ++ "@" ++ z_to_string i)%string.
Fixpoint check_steps (i : Z) (k : cst) (l : list (op * obs)) : list string :=
  match l with
  | [] => []
  | (o, ob) :: r => let '(cls, k') := check_step k o ob in map (at_step i) cls ++ check_steps (i + 1) k' r
  end.

Definition init_cst (i : init) : cst :=
  mkCst t0 (i_params i) (i_psnap i) (i_ysnap i) (i_supply i) ubis0
        (map (fun e => (fst e, mkTview (Some (snd e)) (if fst e =? native then i_supply i else 0)
                                       (if 0 <? t_cap (snd e) then t_cap (snd e) else 0))) reg0).
Definition case_clauses (c : c13_case) : list string := check_steps 0 (init_cst (c_init c)) (c_steps c).

Fixpoint violations_from (n : nat) (cs : list c13_case) : list (nat * list string) :=
  match cs with [] => [] | c :: r =>
    match case_clauses c with [] => violations_from (S n) r | cls => (n, cls) :: violations_from (S n) r end end.
Definition c13_violations (cs : list c13_case) : list (nat * list string) := violations_from 0 cs.
End Run.
