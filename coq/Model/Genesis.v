(* C12 -- genesis export / re-import.  Definitions only.
   (1) class level: a module's store is a map from store classes (key prefixes) to contents;
       ExportGenesis reads the classes marked [c_exported], InitGenesis writes the classes marked
       [c_imported] (table Gen/GenesisCoverage.v, regenerated from the code), derived indexes are
       rebuilt from what was exported;
   (2) hand models of export/import with content, written from
       x/gov/genesis.go (roles, permissions, proposals and their queues),
       x/multistaking/genesis.go (pools, undelegations, the two id counters),
       x/staking/module.go + x/staking/proposal_handler.go (validators, jail info). *)
From Sekai Require Import Base.Prelude Gen.GenesisCoverage.
Open Scope Z_scope.

(* ================================================================ 1. class level *)

(* audited classes: every class that is not (read by export AND written by import) must be listed
   here with the reason; a new store class, or a removed export/import line, is not listed and
   breaks [coverage_complete]. *)
Inductive audit_kind :=
| Derived      (* index rebuilt by InitGenesis from exported primary records *)
| Lost         (* known finding: content is lost at re-import *)
| Transient    (* queue written and drained inside one block: empty at every committed height *)
| Unused.      (* declared but never written by the keeper *)

Definition audit_eqb (a b : audit_kind) : bool :=
  match a, b with Derived, Derived | Lost, Lost | Transient, Transient | Unused, Unused => true | _, _ => false end.

Definition audited : list (string * string * audit_kind) := [
  (* derived indexes, rebuilt by the setters InitGenesis calls *)
  ("basket", "PrefixBasketByDenomKey", Derived);
  ("gov", "KeyPrefixIdRecordVerifyRequestByApprover", Derived);
  ("gov", "KeyPrefixIdRecordVerifyRequestByRequester", Derived);
  ("gov", "KeyPrefixIdentityRecordByAddress", Derived);
  ("gov", "RoleActorPrefix", Derived);
  ("gov", "RoleSidToIdRegistry", Derived);
  ("gov", "WhitelistActorPrefix", Derived);
  ("gov", "WhitelistRolePrefix", Derived);
  ("recovery", "RecoveryChallengeKeyPrefix", Derived);
  ("recovery", "RecoveryTokenByDenomKeyPrefix", Derived);
  ("slashing", "AddrPubkeyRelationKeyPrefix", Derived);
  ("staking", "ValidatorsByConsAddressKey", Derived);
  (* known findings: neither exported nor imported *)
  ("collectives", "PrefixCollectiveContributerKey", Lost);
  ("collectives", "PrefixCollectiveKey", Lost);
  ("custody", "CustodyBufferSizeKey", Lost);
  ("custody", "CustodyTxSizeKey", Lost);
  ("custody", "PrefixKeyCustodyCustodians", Lost);
  ("custody", "PrefixKeyCustodyLimits", Lost);
  ("custody", "PrefixKeyCustodyLimitsStatus", Lost);
  ("custody", "PrefixKeyCustodyPool", Lost);
  ("custody", "PrefixKeyCustodyRecord", Lost);
  ("custody", "PrefixKeyCustodyVote", Lost);
  ("custody", "PrefixKeyCustodyWhiteList", Lost);
  ("ethereum", "PrefixKeyRelay", Lost);
  ("feeprocessing", "KeyExecutionStatus", Lost);
  ("feeprocessing", "KeyFeePaymentHistory", Lost);
  ("gov", "ActivePollPrefix", Lost);
  ("gov", "ActiveProposalsPrefix", Lost);
  ("gov", "CouncilorIdentityRegistryPrefix", Lost);
  ("gov", "CouncilorsKey", Lost);
  ("gov", "EnactmentProposalsPrefix", Lost);
  ("gov", "NextPollIDPrefix", Lost);
  ("gov", "PollPrefix", Lost);
  ("gov", "PollVotesPrefix", Lost);
  ("layer2", "BridgeRegistrarHelperKey", Lost);
  ("layer2", "KeyPrefixDapp", Lost);
  ("layer2", "PrefixBridgeAccountKey", Lost);
  ("layer2", "PrefixBridgeTokenKey", Lost);
  ("layer2", "PrefixDappLeaderDenouncementKey", Lost);
  ("layer2", "PrefixDappOperatorKey", Lost);
  ("layer2", "PrefixDappSessionApprovalKey", Lost);
  ("layer2", "PrefixDappSessionKey", Lost);
  ("layer2", "PrefixUserDappBondKey", Lost);
  ("layer2", "PrefixXAMKey", Lost);
  ("multistaking", "KeyLastPoolId", Lost);
  ("multistaking", "KeyLastUndelegationId", Lost);
  ("multistaking", "KeyPrefixCompoundInfo", Lost);
  ("multistaking", "KeyPrefixPoolDelegator", Lost);
  ("recovery", "KeyPrefixRRTokenHolder", Lost);
  ("slashing", "SlashedValidatorsByTimeKeyPrefix", Lost);
  ("staking", "ValidatorJailInfo", Lost);
  (* queues filled and drained within one block (EndBlocker) *)
  ("staking", "PendingValidatorQueue", Transient);
  ("staking", "ReactivatingValidatorQueue", Transient);
  ("staking", "RemovingValidatorQueue", Transient);
  (* declared, never written *)
  ("distributor", "ProposerKey", Unused);   (* the keeper uses the SDK's distribution ProposerKey (0x01) instead *)
  ("gov", "CouncilorsByMonikerKey", Unused);
  ("layer2", "PrefixDappOperatorCandidateKey", Unused);
  ("layer2", "PrefixTokenInfoKey", Unused);
  ("slashing", "ValidatorMissedBlockBitArrayKeyPrefix", Unused);
  ("staking", "LastValidatorPowerKey", Unused)
]%string.

Fixpoint audit_of (m n : string) (l : list (string * string * audit_kind)) : option audit_kind :=
  match l with
  | [] => None
  | (m', n', k) :: r => if (String.eqb m m' && String.eqb n n')%bool then Some k else audit_of m n r
  end.

Definition covered (c : cls) : bool := (c_exported c && c_imported c)%bool.

(* the audit entry must be consistent with what the translator saw *)
Definition audit_consistent (c : cls) (k : audit_kind) : bool :=
  match k with
  | Derived => (negb (c_exported c) && c_imported c)%bool
  (* a class listed as lost stays acceptable once InitGenesis starts rebuilding it (repaired tree) *)
  | Lost => ((negb (c_imported c) && c_used c) || (negb (c_exported c) && c_imported c))%bool
  | Transient => (negb (c_exported c) && negb (c_imported c) && c_used c)%bool
  | Unused => (negb (c_exported c) && negb (c_imported c))%bool
  end.

Definition class_ok (c : cls) : bool :=
  if covered c then match audit_of (c_module c) (c_name c) audited with None => true | Some _ => false end
  else match audit_of (c_module c) (c_name c) audited with Some k => audit_consistent c k | None => false end.

Definition uncovered_unaudited : list (string * string) :=
  map (fun c => (c_module c, c_name c)) (filter (fun c => negb (class_ok c)) classes).

(* stale audit entries (class no longer exists) *)
Definition class_exists (m n : string) : bool :=
  existsb (fun c => (String.eqb (c_module c) m && String.eqb (c_name c) n)%bool) classes.
Definition stale_audits : list (string * string) :=
  map (fun e => (fst (fst e), snd (fst e))) (filter (fun e => negb (class_exists (fst (fst e)) (snd (fst e)))) audited).

(* status of a class of a store as the harness sees it (store name, class name) *)
Inductive status := SCovered | SDerived | SLost | STransient | SUnused | SUnknown.
Fixpoint find_class (store name : string) (l : list cls) : option cls :=
  match l with
  | [] => None
  | c :: r => if (String.eqb (c_store c) store && String.eqb (c_name c) name)%bool then Some c else find_class store name r
  end.
Definition status_of (store name : string) : status :=
  match find_class store name classes with
  | None => SUnknown
  | Some c =>
      if covered c then SCovered
      else if c_imported c then SDerived              (* written by InitGenesis from other exported data *)
      else match audit_of (c_module c) (c_name c) audited with
           | Some Transient => STransient | Some Unused => SUnused
           | _ => SLost
           end
  end.

(* which keeper functions InitGenesis reaches (regenerated): the hand models below follow these flags *)
Fixpoint calls_of (m : string) (l : list (string * list string)) : list string :=
  match l with [] => [] | (m', fs) :: r => if String.eqb m m' then fs else calls_of m r end.
Definition init_calls (m f : string) : bool := str_in f (calls_of m import_calls).
Definition gov_restores_blacklists : bool := init_calls "gov" "BlacklistRolePermission".
Definition gov_rebuilds_queues : bool := (init_calls "gov" "AddToActiveProposals" && init_calls "gov" "AddToEnactmentProposals")%bool.
Definition ms_restores_counters : bool := (init_calls "multistaking" "SetLastPoolId" && init_calls "multistaking" "SetLastUndelegationId")%bool.

(* ---- abstract module state: contents per class.  Export keeps the exported classes, import
   writes the imported ones; a derived class is recomputed from the genesis by [derive]. *)
Section ClassModel.
  Variable content : Type.
  Variable empty : content.
  Definition mstate := cls -> content.
  Variable derive : cls -> mstate -> content.          (* how InitGenesis rebuilds an index from the genesis *)
  Definition export_m (s : mstate) : mstate := fun c => if c_exported c then s c else empty.
  Definition import_m (g : mstate) : mstate :=
    fun c => if c_imported c then (if c_exported c then g c else derive c g) else empty.
  Definition reimport_m (s : mstate) : mstate := import_m (export_m s).
End ClassModel.

(* genesis initialisation order constraints the code depends on:
   staking.InitGenesis reads the gov identity registrar; slashing.InitGenesis iterates the staking
   validators; multistaking / basket / collectives use tokens and staking. *)
Fixpoint index_of_str (x : string) (l : list string) (n : nat) : option nat :=
  match l with [] => None | y :: r => if String.eqb x y then Some n else index_of_str x r (S n) end.
Definition before (a b : string) : bool :=
  match index_of_str a init_order 0, index_of_str b init_order 0 with
  | Some i, Some j => Nat.ltb i j | _, _ => false end.
Definition order_constraints : list (string * string) :=
  [("auth", "bank"); ("bank", "gov"); ("gov", "staking"); ("staking", "slashing"); ("staking", "recovery");
   ("tokens", "multistaking"); ("staking", "multistaking"); ("multistaking", "basket"); ("spending", "ubi");
   ("spending", "collectives")]%string.
Definition order_ok : bool := forallb (fun p => before (fst p) (snd p)) order_constraints.

(* ================================================================ 2a. gov roles and role permissions *)

Record perms := mkPerms { wl : list Z; bl : list Z }.
Definition empty_perms := mkPerms [] [].
Definition zmem (x : Z) (l : list Z) : bool := existsb (Z.eqb x) l.

Record roles_state := mkRoles {
  registry : list (Z * perms);      (* RolePermissionRegistry, in store (= id) order *)
  infos : list Z;                   (* RoleIdToInfo: ids that have a role record, in store order *)
  windex : list (Z * Z);            (* WhitelistRolePrefix: (permission, role) *)
  next_role : Z }.

Fixpoint lookup_perms (id : Z) (l : list (Z * perms)) : option perms :=
  match l with [] => None | (i, p) :: r => if i =? id then Some p else lookup_perms id r end.

(* Permissions.AddToWhitelist: rejected when blacklisted or already whitelisted (InitGenesis ignores the error) *)
Definition add_whitelist (p : perms) (w : Z) : perms :=
  if (zmem w (bl p) || zmem w (wl p))%bool then p else mkPerms (wl p ++ [w]) (bl p).
(* Permissions.AddToBlacklist: rejected when whitelisted or already blacklisted *)
Definition add_blacklist (p : perms) (b : Z) : perms :=
  if (zmem b (wl p) || zmem b (bl p))%bool then p else mkPerms (wl p) (bl p ++ [b]).
(* what InitGenesis makes of one exported Permissions value: SetRole wrote empty permissions, then every
   whitelisted value goes through WhitelistRolePermission; the blacklist loop exists only when [blk]
   (it is commented out in the unrepaired tree) *)
Definition import_perms (blk : bool) (p : perms) : perms :=
  let q := fold_left add_whitelist (wl p) empty_perms in
  if blk then fold_left add_blacklist (bl p) q else q.

Record roles_genesis := mkRolesGen { g_roles : list Z; g_perms : list (Z * perms); g_next_role : Z }.
Definition export_roles (s : roles_state) : roles_genesis := mkRolesGen (infos s) (registry s) (next_role s).
Definition index_of_perms (id : Z) (p : perms) : list (Z * Z) := map (fun w => (w, id)) (wl p).
Definition import_roles (blk : bool) (g : roles_genesis) : roles_state :=
  let reg := map (fun id => (id, match lookup_perms id (g_perms g) with Some p => import_perms blk p | None => empty_perms end)) (g_roles g) in
  mkRoles reg (g_roles g) (flat_map (fun e => index_of_perms (fst e) (snd e)) reg) (g_next_role g).
Definition reimport_roles (blk : bool) (s : roles_state) : roles_state := import_roles blk (export_roles s).

(* reachable shape of the role state (what SetRole / DeleteRole / Whitelist* / Blacklist* maintain) *)
Definition roles_wf (s : roles_state) : Prop :=
  infos s = map fst (registry s) /\ NoDup (map fst (registry s)) /\
  (forall id p, In (id, p) (registry s) -> NoDup (wl p) /\ NoDup (bl p) /\ (forall x, In x (wl p) -> ~ In x (bl p))) /\
  (forall e, In e (windex s) <-> In e (flat_map (fun e => index_of_perms (fst e) (snd e)) (registry s))).
Definition no_blacklists (s : roles_state) : Prop := forall id p, In (id, p) (registry s) -> bl p = [].

(* CheckIfAllowedPermission for an account holding the given roles and no personal permissions *)
Definition role_allows (s : roles_state) (roles : list Z) (perm : Z) : bool :=
  let ps := flat_map (fun id => match lookup_perms id (registry s) with Some p => [p] | None => [] end) roles in
  (existsb (fun p => zmem perm (wl p)) ps && negb (existsb (fun p => zmem perm (bl p)) ps))%bool.

(* ================================================================ 2b. gov proposals and their queues *)

Inductive presult := Pending | Enactment | Passed | Rejected.
Record proposal := mkProp { p_id : Z; p_result : presult; p_voting_end : Z; p_enact_end : Z }.
Record props_state := mkProps { proposals : list proposal; active_q : list Z; enact_q : list Z; next_prop : Z }.
Definition export_props (s : props_state) : list proposal * Z := (proposals s, next_prop s).
(* InitGenesis: SaveProposal for every proposal, SetNextProposalID.  Unrepaired tree: neither queue is
   written.  With [rebuild]: a Pending proposal goes back to the active queue; a proposal waiting for
   enactment, or a failed one whose enactment period is not over at genesis time [now], to the
   enactment queue (block-height conditions are not modelled). *)
Definition in_voting (p : proposal) : bool := match p_result p with Pending => true | _ => false end.
Definition in_enactment (now : Z) (p : proposal) : bool :=
  match p_result p with Enactment => true | Rejected => now <? p_enact_end p | _ => false end.
Definition import_props (rebuild : bool) (now : Z) (g : list proposal * Z) : props_state :=
  if rebuild then mkProps (fst g) (map p_id (filter in_voting (fst g))) (map p_id (filter (in_enactment now) (fst g))) (snd g)
  else mkProps (fst g) [] [] (snd g).
Definition reimport_props (rebuild : bool) (now : Z) (s : props_state) : props_state := import_props rebuild now (export_props s).
(* the mis-refactoring of the rebuild (seeded change C12-b): an Enactment proposal is re-queued only while
   its enactment period is not over at genesis time *)
Definition in_enactment_timegated (now : Z) (p : proposal) : bool :=
  match p_result p with Enactment | Rejected => now <? p_enact_end p | _ => false end.
Definition import_props_timegated (now : Z) (g : list proposal * Z) : props_state :=
  mkProps (fst g) (map p_id (filter in_voting (fst g))) (map p_id (filter (in_enactment_timegated now) (fst g))) (snd g).
(* the queues hold exactly the proposals in the respective phase (what submit / EndBlocker maintain) *)
Definition queues_sound (now : Z) (s : props_state) : Prop :=
  (forall id, In id (active_q s) <-> In id (map p_id (filter in_voting (proposals s)))) /\
  (forall id, In id (enact_q s) <-> In id (map p_id (filter (in_enactment now) (proposals s)))).

Section EndBlock.
  Variable decide : Z -> presult.        (* outcome of the tally of a proposal whose voting ended *)
  Definition set_result (id : Z) (f : presult -> presult) (l : list proposal) : list proposal :=
    map (fun p => if p_id p =? id then mkProp (p_id p) (f (p_result p)) (p_voting_end p) (p_enact_end p) else p) l.
  Definition prop_of (id : Z) (l : list proposal) : option proposal := find (fun p => p_id p =? id) l.
  Definition due (sel : proposal -> Z) (t : Z) (l : list proposal) (id : Z) : bool :=
    match prop_of id l with Some p => sel p <=? t | None => false end.
  (* gov EndBlocker at block time t: finished enactments are applied, then finished votes are tallied
     and moved to the enactment queue *)
  Definition end_block (s : props_state) (t : Z) : props_state :=
    let done := filter (due p_enact_end t (proposals s)) (enact_q s) in
    let ps1 := fold_left (fun l id => set_result id (fun r => match r with Enactment => Passed | x => x end) l) done (proposals s) in
    let eq1 := filter (fun id => negb (due p_enact_end t (proposals s) id)) (enact_q s) in
    let fin := filter (due p_voting_end t ps1) (active_q s) in
    let ps2 := fold_left (fun l id => set_result id (fun _ => match decide id with Passed => Enactment | x => x end) l) fin ps1 in
    mkProps ps2 (filter (fun id => negb (due p_voting_end t ps1 id)) (active_q s)) (eq1 ++ fin) (next_prop s).
  Definition run_blocks (s : props_state) (ts : list Z) : props_state := fold_left end_block ts s.
End EndBlock.

(* ================================================================ 2c. multistaking *)

Record ms_state := mkMsState {
  last_pool : Z; last_undel : Z;
  pools : list (Z * Z);             (* pool id, validator *)
  undels : list (Z * Z);            (* undelegation id, owner *)
  delegators : list (Z * Z);        (* pool id, delegator *)
  compound : list Z }.
Definition export_ms (s : ms_state) : list (Z * Z) * list (Z * Z) := (pools s, undels s).
(* InitGenesis: SetStakingPool, SetUndelegation (and rewards); no delegator index, no compound info.
   Unrepaired tree: no counter either.  With [ctr]: each counter continues after the highest imported id. *)
Definition zmax_list (l : list Z) : Z := fold_right Z.max 0 l.
Definition import_ms (ctr : bool) (g : list (Z * Z) * list (Z * Z)) : ms_state :=
  mkMsState (if ctr then zmax_list (map fst (fst g)) else 0) (if ctr then zmax_list (map fst (snd g)) else 0) (fst g) (snd g) [] [].
Definition reimport_ms (ctr : bool) (s : ms_state) : ms_state := import_ms ctr (export_ms s).
(* a variant that takes the undelegation counter from the LAST entry of the list (seeded change C03-c):
   correct only for lists in ascending id order *)
Definition import_ms_lastentry (g : list (Z * Z) * list (Z * Z)) : ms_state :=
  mkMsState (zmax_list (map fst (fst g))) (last (map fst (snd g)) 0) (fst g) (snd g) [] [].

Fixpoint upsert (k v : Z) (l : list (Z * Z)) : list (Z * Z) :=
  match l with
  | [] => [(k, v)]
  | (k', v') :: r => if k' =? k then (k, v) :: r else (k', v') :: upsert k v r
  end.
Fixpoint zlookup (k : Z) (l : list (Z * Z)) : option Z :=
  match l with [] => None | (k', v) :: r => if k' =? k then Some v else zlookup k r end.
(* keeper.Undelegate: id := last + 1; SetLastUndelegationId; SetUndelegation (store.Set: overwrites) *)
Definition undelegate (s : ms_state) (owner : Z) : ms_state :=
  let id := last_undel s + 1 in
  mkMsState (last_pool s) id (pools s) (upsert id owner (undels s)) (delegators s) (compound s).
(* msg server UpsertStakingPool for a validator without a pool: id := last + 1; pools are keyed by
   validator, so the record is new, but the id (hence the share denom v<id>/...) repeats *)
Definition new_pool (s : ms_state) (validator : Z) : ms_state :=
  let id := last_pool s + 1 in
  mkMsState id (last_undel s) (pools s ++ [(id, validator)]) (undels s) (delegators s) (compound s).

(* ================================================================ 2d. staking: validators and jail info *)

Inductive vstatus := VActive | VInactive | VPaused | VJailed.
Record st_state := mkSt { vals : list (Z * vstatus); jail_info : list (Z * Z) (* validator, jail time *) }.
Definition export_st (s : st_state) : list (Z * vstatus) := vals s.
Definition import_st (g : list (Z * vstatus)) : st_state := mkSt g [].
Definition reimport_st (s : st_state) : st_state := import_st (export_st s).
Fixpoint vstatus_of (v : Z) (l : list (Z * vstatus)) : option vstatus :=
  match l with [] => None | (v', st) :: r => if v' =? v then Some st else vstatus_of v r end.
(* ApplyUnjailValidatorProposal at block time t *)
Definition unjail (max_unjail : Z) (s : st_state) (v t : Z) : outcome st_state :=
  match vstatus_of v (vals s) with
  | None => Err "validator not found"
  | Some VJailed =>
      match zlookup v (jail_info s) with
      | None => Err "validator jailing info not found"
      | Some jt => if jt + max_unjail <? t then Err "time to unjail passed"
                   else Ok (mkSt (map (fun e => if fst e =? v then (v, VInactive) else e) (vals s))
                                 (filter (fun e => negb (fst e =? v)) (jail_info s)))
      end
  | Some _ => Err "validator is not jailed"
  end.

(* ================================================================ 2e. x/upgrade version check, gov data registry export *)

(* ExportGenesis writes a version string; InitGenesis panics unless it equals the SekaiVersion constant *)
Definition upgrade_import_of (sekai v : string) : outcome unit :=
  if String.eqb v sekai then Ok tt else Panic "invalid genesis version".
Definition exported_version_of (sekai : string) (lit : option string) : string := match lit with Some v => v | None => sekai end.
(* instantiated with what the translator read from x/upgrade/module.go and types/constants.go *)
Definition upgrade_reimport : outcome unit := upgrade_import_of sekai_version (exported_version_of sekai_version upgrade_exported_version).
Definition upgrade_refuses_own_export : bool := is_panic upgrade_reimport.

(* gov ExportGenesis calls AllDataRegistry, which assigns into a map; when the translator finds that map
   declared without initialiser the export panics as soon as the registry holds one entry *)
Definition gov_export_panics (registry_populated : bool) : bool :=
  (str_in "gov.AllDataRegistry" export_nil_map_writes && registry_populated)%bool.

(* ================================================================ 2f. gov identity registrar (x/gov/genesis.go, keeper/identity_registrar.go) *)

(* a record: id |-> (owner, key) coded as one number; the by-address index: (owner, key) |-> id *)
Record id_state := mkId { id_records : list (Z * Z); id_index : list (Z * Z); id_last : Z }.
Definition export_id (s : id_state) : list (Z * Z) * Z := (id_records s, id_last s).
(* InitGenesis: SetIdentityRecord for every record (store.Set of the record under its id and of the id
   under owner+key: both overwrite), then SetLastIdentityRecordId *)
Definition set_record (s : list (Z * Z) * list (Z * Z)) (r : Z * Z) : list (Z * Z) * list (Z * Z) :=
  (upsert (fst r) (snd r) (fst s), upsert (snd r) (fst r) (snd s)).
Definition import_id (g : list (Z * Z) * Z) : id_state :=
  let st := fold_left set_record (fst g) ([], []) in mkId (fst st) (snd st) (snd g).
Definition reimport_id (s : id_state) : id_state := import_id (export_id s).
Definition swap_pair (r : Z * Z) : Z * Z := (snd r, fst r).
(* ids are unique, an owner has one record per key, the index points at exactly the stored records *)
Definition id_wf (s : id_state) : Prop :=
  NoDup (map fst (id_records s)) /\ NoDup (map snd (id_records s)) /\
  (forall e, In e (id_index s) <-> In e (map swap_pair (id_records s))).

(* ================================================================ 2g. distributor (x/distributor/module.go, keeper/store.go) *)

Record distr_state := mkDistr {
  d_treasury : Z; d_snap_period : Z; d_votes : list (Z * Z) (* validator, height *);
  d_proposer : option Z; d_year_snapshot : Z * Z; d_periodic_snapshot : Z * Z }.
Record distr_genesis := mkDistrGen {
  dg_treasury : Z; dg_snap_period : Z; dg_votes : list (Z * Z); dg_proposer : Z; dg_year : Z * Z; dg_periodic : Z * Z }.
(* ExportGenesis: GetPreviousProposerConsAddr panics when no block has run yet *)
Definition export_distr (s : distr_state) : outcome distr_genesis :=
  match d_proposer s with
  | None => Panic "previous proposer not set"
  | Some p => Ok (mkDistrGen (d_treasury s) (d_snap_period s) (d_votes s) p (d_year_snapshot s) (d_periodic_snapshot s))
  end.
Definition vote_mem (v : Z * Z) (l : list (Z * Z)) : bool := existsb (fun w => ((fst w =? fst v) && (snd w =? snd v))%bool) l.
(* SetValidatorVote: the key is validator ++ height, the value the height: setting an existing vote changes nothing *)
Definition set_vote (l : list (Z * Z)) (v : Z * Z) : list (Z * Z) := if vote_mem v l then l else l ++ [v].
Definition import_distr (g : distr_genesis) : distr_state :=
  mkDistr (dg_treasury g) (dg_snap_period g) (fold_left set_vote (dg_votes g) []) (Some (dg_proposer g)) (dg_year g) (dg_periodic g).
Definition reimport_distr (s : distr_state) : outcome distr_state :=
  match export_distr s with Ok g => Ok (import_distr g) | Err e => Err e | Panic m => Panic m end.

(* x/upgrade next plan: InitGenesis either stores it as exported, or (SaveNextPlan) refuses -- the error
   is ignored -- a plan whose upgrade time is not after the genesis block time.  Which of the two the code
   does is read from the tree ([upgrade_import_checks_time]). *)
Definition upgrade_import_checks_time : bool := (init_calls "upgrade" "SaveNextPlan" && negb (init_calls "upgrade" "RestoreNextPlan"))%bool.
Definition import_next_plan (time_checked : bool) (now : Z) (plan : option Z (* upgrade time *)) : option Z :=
  match plan with
  | Some t => if (time_checked && (t <=? now))%bool then None else Some t
  | None => None
  end.
