(* C17: correspondence (model vs. what the real ante decorator + handlers did) and the decidable
   spec checker applied to the REAL observations.  A case is one whole history: the initial
   balances and, per transaction, the operation, the observed outcome (0 ok / 1 rejected / 2 panic)
   and the observed state change as a patch list. *)
From Sekai Require Import Base.Prelude Model.Custody.

Inductive patch :=
| PSet (i : Z) (v : option settings)
| PCust (i : Z) (v : option amap)
| PWl (i : Z) (v : option amap)
| PLim (i : Z) (v : option lmap)
| PPool (i : Z) (v : option pmap)
| PBal (i : Z) (d : Z) (v : Z)
| PMark (f t : Z) (h : string) (v : Z)
| PStatus (i : Z) (v : option smap)      (* the limit-status record *)
| PMarkGone (f t : Z) (h : string).      (* a vote mark disappeared (only by the repaired address rotation) *)

(* a step: transaction id (consecutive steps with the same id are the messages of one transaction, observed
   one by one inside it), operation, outcome code of the transaction, state patch after the message *)
Definition ostep := (Z * op * Z * list patch)%type.
Inductive c17_case := C17 (bals : list coins) (steps : list ostep).

(* ---------------------------------------------------------------- equality of observations *)
Definition settings_eqb (a b : settings) : bool :=
  Bool.eqb (s_en a) (s_en b) && (s_mode a =? s_mode b) && Bool.eqb (s_pwd a) (s_pwd b) && Bool.eqb (s_wl a) (s_wl b)
  && Bool.eqb (s_lim a) (s_lim b) && String.eqb (s_key a) (s_key b) && (s_next a =? s_next b).
Definition opt_eqb {A} (e : A -> A -> bool) (a b : option A) : bool :=
  match a, b with Some x, Some y => e x y | None, None => true | _, _ => false end.
Fixpoint list_eqb {A} (e : A -> A -> bool) (l m : list A) : bool :=
  match l, m with [], [] => true | x :: l', y :: m' => e x y && list_eqb e l' m' | _, _ => false end.
(* maps are compared as sets of bindings (the harness prints them sorted, the model keeps insertion order) *)
Definition sub_map {K V} (ke : K -> K -> bool) (ve : V -> V -> bool) (l m : list (K * V)) : bool :=
  forallb (fun e => existsb (fun e' => ke (fst e) (fst e') && ve (snd e) (snd e')) m) l.
Definition map_eqb {K V} (ke : K -> K -> bool) (ve : V -> V -> bool) (l m : list (K * V)) : bool :=
  Nat.eqb (List.length l) (List.length m) && sub_map ke ve l m && sub_map ke ve m l.
Definition coin_eqb (a b : Z * Z) : bool := (fst a =? fst b) && (snd a =? snd b).
Definition txr_eqb (a b : txr) : bool :=
  (t_from a =? t_from b) && (t_to a =? t_to b) && list_eqb coin_eqb (t_amt a) (t_amt b) && String.eqb (t_pw a) (t_pw b) && list_eqb coin_eqb (t_rew a) (t_rew b)
  && (t_votes a =? t_votes b) && Bool.eqb (t_conf a) (t_conf b).
(* the denominations the harness uses *)
Definition denoms : list Z := [0; 1; 2].
Definition bal_eqb (a b : coins) : bool := forallb (fun d => bal_get d a =? bal_get d b) denoms.
Definition stat_eqb (a b : Z * Z) : bool := (fst a =? fst b) && (snd a =? snd b).
Definition lim_eqb (a b : Z * string) : bool := (fst a =? fst b) && String.eqb (snd a) (snd b).
Definition acct_eqb (a b : acct) : bool :=
  opt_eqb settings_eqb (a_set a) (a_set b) && opt_eqb (map_eqb Z.eqb Bool.eqb) (a_cust a) (a_cust b)
  && opt_eqb (map_eqb Z.eqb Bool.eqb) (a_wl a) (a_wl b) && opt_eqb (map_eqb Z.eqb lim_eqb) (a_lim a) (a_lim b)
  && opt_eqb (map_eqb String.eqb txr_eqb) (a_pool a) (a_pool b) && bal_eqb (a_bal a) (a_bal b)
  && opt_eqb (map_eqb Z.eqb stat_eqb) (a_stat a) (a_stat b).
Definition mark4_eqb (a b : Z * Z * string * Z) : bool :=
  match a, b with (f, t, h, v), (f', t', h', v') => (f =? f') && (t =? t') && String.eqb h h' && (v =? v') end.
Definition marks_eqb (l m : list (Z * Z * string * Z)) : bool :=
  Nat.eqb (List.length l) (List.length m) && forallb (fun e => existsb (mark4_eqb e) m) l && forallb (fun e => existsb (mark4_eqb e) l) m.
Definition state_eqb (n : nat) (a b : state) : bool :=
  forallb (fun i => acct_eqb (getA a (Z.of_nat i)) (getA b (Z.of_nat i))) (seq 0 n) && marks_eqb (marks a) (marks b).

(* [None]: the patch reports something the model has no place for *)
Definition apply_patch (s : option state) (p : patch) : option state :=
  match s with None => None | Some s =>
  match p with
  | PSet i v => Some (setA s i (with_set (getA s i) v))
  | PCust i v => Some (setA s i (with_cust (getA s i) v))
  | PWl i v => Some (setA s i (with_wl (getA s i) v))
  | PLim i v => Some (setA s i (with_lim (getA s i) v))
  | PPool i v => Some (setA s i (with_pool (getA s i) v))
  | PBal i d v => Some (setA s i (with_bal (getA s i) (map_set d v (a_bal (getA s i)))))
  | PStatus i v => Some (setA s i (with_stat (getA s i) v))
  | PMark f t h v => Some (add_mark s f t h v)
  | PMarkGone f t h => Some (mkSt (accts s) (filter (fun e => negb (mark_eqb f t h e)) (marks s)))
  end end.
(* keep the association list short: rebuild it over the n accounts *)
Definition compact (n : nat) (s : state) : state :=
  mkSt (map (fun i => (Z.of_nat i, getA s (Z.of_nat i))) (seq 0 n)) (marks s).

Definition outcome_code {A} (o : outcome A) : Z := match o with Ok _ => 0 | Err _ => 1 | Panic _ => 2 end.

(* ---------------------------------------------------------------- model vs observation, step by step from the OBSERVED state *)
Section Corr.
Variable v : variant.
Variable minrew : Z.
(* the harness supplies the digest of the OldKey in place of the OldKey: H is the identity here *)
Definition Hid (x : string) : string := x.

(* the messages of the first transaction of the list, its outcome code, the observed state after it, the rest *)
Fixpoint take_tx (n : nat) (id : Z) (s : option state) (steps : list ostep) : list op * option state * list ostep :=
  match steps with
  | (id', o, code, ps) :: r =>
      if id' =? id then
        let s' := match fold_left apply_patch ps s with Some x => Some (compact n x) | None => None end in
        let '(ops, fin, rest) := take_tx n id s' r in (o :: ops, fin, rest)
      else ([], s, steps)
  | [] => ([], s, [])
  end.

Fixpoint txs_match (fuel : nat) (n : nat) (s : state) (steps : list ostep) : bool :=
  match fuel, steps with
  | _, [] => true
  | O, _ => false
  | S fuel, (id, _, code, _) :: _ =>
      let '(ops, fin, rest) := take_tx n id (Some s) steps in
      match fin with
      | None => false
      | Some obs =>
          let m := step_tx v Hid minrew s ops in
          (outcome_code m =? code)
          && (match m with Ok s' => state_eqb n s' obs | _ => state_eqb n s obs end)
          && txs_match fuel n obs rest
      end
  end.
Definition case_matches (c : c17_case) : bool :=
  match c with C17 bals steps => txs_match (S (List.length steps)) (List.length bals) (init_state bals) steps end.
Fixpoint mismatches_from (k : nat) (cs : list c17_case) : list nat :=
  match cs with [] => [] | c :: r => if case_matches c then mismatches_from (S k) r else k :: mismatches_from (S k) r end.
Definition c17_mismatches (cs : list c17_case) : list nat := mismatches_from 0 cs.
End Corr.

(* ================================================================ the property, checked on what the real code did.
   Written from the property text; uses only the observed states (never [step]/[handle]/[ante]).
   Clause names are complete signatures  clause:message-type[:feature]. *)

Definition kind_name (o : op) : string :=
  match o with
  | OCreate _ _ _ => "create_custody" | ODisable _ _ => "disable_custody" | ODrop _ _ => "drop_custody"
  | OAdd LCust _ _ _ => "add_custodians" | ORem LCust _ _ _ => "remove_custodians" | ODropL LCust _ _ => "drop_custodians"
  | OAdd LWl _ _ _ => "add_whitelist" | ORem LWl _ _ _ => "remove_whitelist" | ODropL LWl _ _ => "drop_whitelist"
  | OAddLim _ _ _ _ _ => "add_limits" | ORemLim _ _ _ => "remove_limits" | ODropLim _ _ => "drop_limits"
  | OSend _ _ _ _ _ _ => "custody_send" | OApprove _ _ _ => "approve" | ODecline _ _ _ => "decline"
  | OConfirm _ _ _ _ _ => "confirm" | OBank _ _ _ _ => "bank_send" | OMulti _ _ _ => "multisend"
  | ORotate _ _ _ => "rotate"
  end%string.
Definition op_kp (o : op) : option kp :=
  match o with
  | OCreate _ _ k | ODisable _ k | ODrop _ k | OAdd _ _ _ k | ORem _ _ _ k | ODropL _ _ k
  | OAddLim _ _ _ _ k | ORemLim _ _ k | ODropLim _ k => Some k
  | _ => None
  end.

(* the custody configuration of an account: settings, custodians, whitelist, limits *)
Definition config_eqb (a b : acct) : bool :=
  opt_eqb settings_eqb (a_set a) (a_set b) && opt_eqb (map_eqb Z.eqb Bool.eqb) (a_cust a) (a_cust b)
  && opt_eqb (map_eqb Z.eqb Bool.eqb) (a_wl a) (a_wl b) && opt_eqb (map_eqb Z.eqb lim_eqb) (a_lim a) (a_lim b).
Definition guarded (a : acct) : bool := match a_set a with Some st => s_en st | None => false end.
(* the custodians of an account: addresses whose entry is true *)
Definition custodians (a : acct) : list Z :=
  match a_cust a with Some l => map fst (filter (fun e => snd e) l) | None => [] end.
Definition is_custodian (a : acct) (f : Z) : bool := existsb (Z.eqb f) (custodians a).
Definition n_cust (a : acct) : Z := Z.of_nat (List.length (custodians a)).
Definition flag (f : settings -> bool) (a : acct) : bool := match a_set a with Some st => f st | None => false end.
(* some denomination of the balance went down *)
Definition dec (pre post : acct) : bool := existsb (fun d => bal_get d (a_bal post) <? bal_get d (a_bal pre)) denoms.

Definition cl (a b : string) : string := (a ++ ":" ++ b)%string.
Definition cl3 (a b c : string) : string := (a ++ ":" ++ b ++ ":" ++ c)%string.

(* a limit entry restricts a coin: present, not removed (a removed entry is the empty limit), amount above it *)
Definition over_limit (l : lmap) (c : Z * Z) : bool :=
  match alist_get (fst c) l with
  | Some (cap, lim) => negb ((cap =? 0) && String.eqb lim "") && (cap <? snd c)
  | None => false end.
(* whitelist / limits of the paying account against one transfer; an absent list restricts nothing;
   the limit clause only asks that a single transfer above the limit's amount is refused *)
Definition wl_lim_clauses (a : acct) (to : Z) (amt : coins) (path : string) : list string :=
  (if flag s_wl a then match a_wl a with Some w => if bool_at to w then [] else [cl "whitelist" path] | None => [] end else []) ++
  (if flag s_lim a then match a_lim a with
                        | Some l => if existsb (over_limit l) amt then [cl "limits" path] else []
                        | None => [] end else []).

(* a plain send (bank send, multi-send) that moved coins out of account [a] *)
Definition path_clauses (a : acct) (to : Z) (amt : coins) (path : string) : list string :=
  (if guarded a && (0 <? n_cust a) then [cl "blocked" path] else []) ++ wl_lim_clauses a to amt path.

(* the log kept along a history (the checker's own record, built from accepted messages): approvals and
   declines by listed custodians (from, target, lower-case hash), transfers whose password was confirmed
   with the matching password, and the accounts that came into being by address rotation *)
Record log := mkLog { l_appr : list (Z * Z * string); l_decl : list (Z * Z * string); l_conf : list (Z * string); l_rot : list Z;
                      l_req : list (Z * string);     (* transfers requested while the account's password switch was on *)
                      l_alias : list (Z * Z);        (* (new address, old address) of every address rotation: one person *)
                      l_same : list Z }.             (* accounts for whose pending transfer one person voted under two addresses *)
Definition in3 (f t : Z) (h : string) (l : list (Z * Z * string)) : bool :=
  existsb (fun e => match e with (f', t', h') => (f =? f') && (t =? t') && String.eqb h h' end) l.
Definition in2 (t : Z) (h : string) (l : list (Z * string)) : bool :=
  existsb (fun e => (t =? fst e) && String.eqb h (snd e)) l.
Definition count_appr (t : Z) (h : string) (l : list (Z * Z * string)) : Z :=
  Z.of_nat (List.length (filter (fun e => match e with (_, t', h') => (t =? t') && String.eqb h h' end) l)).
(* outside the vote guarantees: touched by an address rotation, or one person voted twice under two addresses *)
Definition rotated (lg : log) (t : Z) : bool := existsb (Z.eqb t) (l_rot lg) || existsb (Z.eqb t) (l_same lg).
(* the person behind an address: follow the rotations back to the first address *)
Definition alias_step (al : list (Z * Z)) (x : Z) : Z := match alist_get x al with Some a => a | None => x end.
Definition canon (lg : log) (f : Z) : Z := fold_left (fun x _ => alias_step (l_alias lg) x) (l_alias lg) f.
(* the same person is on record for (t, h) under another address *)
Definition same_person (lg : log) (f t : Z) (h : string) : bool :=
  existsb (fun e => match e with (f', t', h') => negb (f =? f') && (canon lg f =? canon lg f') && (t =? t') && String.eqb h h' end)
          (l_appr lg ++ l_decl lg).
Definition vote_kind (lg : log) (t : Z) (k : string) : string :=
  if existsb (Z.eqb t) (l_rot lg) then (k ++ "_rotated")%string else if existsb (Z.eqb t) (l_same lg) then (k ++ "_alias")%string else k.
(* the record follows a rotated account: entries of [a] are repeated for [nw] *)
Definition ren3 (a nw : Z) (l : list (Z * Z * string)) : list (Z * Z * string) :=
  map (fun e => match e with (f, _, h) => (f, nw, h) end) (filter (fun e => match e with (_, t, _) => t =? a end) l) ++ l.
Definition ren2 (a nw : Z) (l : list (Z * string)) : list (Z * string) :=
  map (fun e => (nw, snd e)) (filter (fun e => fst e =? a) l) ++ l.

(* a pooled transfer of [t] is gone from the pool after this step *)
Definition released (pre post : state) (t : Z) (h : string) : option txr :=
  match a_pool (getA pre t) with
  | Some p => match pool_get h p with
              | Some tx => match a_pool (getA post t) with
                           | Some p' => match pool_get h p' with Some _ => None | None => Some tx end
                           | None => Some tx
                           end
              | None => None end
  | None => None end.

(* clauses of a pay-out of a pooled transfer; [votes_now]: the vote counter the code itself had reached *)
Definition release_clauses (lg : log) (pre : state) (t : Z) (h : string) (tx : txr) (votes_now : Z) (kind : string) : list string :=
  let T := getA pre t in
  (if guarded T && (0 <? n_cust T) then
     let mode := match a_set T with Some st => s_mode st | None => 0 end in
     if count_appr t h (l_appr lg) * 100 <? mode * n_cust T then
       [cl3 "threshold" kind (if votes_now * 100 <? mode * n_cust T then "undercount" else "nongenuine")]
     else []
   else []) ++
  (* the password: required when the switch is on now, or was on when the transfer was requested (and the owner
     did not redefine the settings since); judged from the checker's record of accepted confirmations only *)
  (if negb (in2 t h (l_conf lg)) then
     if flag s_pwd T then [cl3 "password" kind (if t_conf tx then "unconfirmed" else "flag_unset")]
     else if in2 t h (l_req lg) then [cl3 "password" kind "requirement_dropped"] else []
   else []) ++
  wl_lim_clauses T (t_to tx) (t_amt tx) "custody_send".

(* a vote was recorded in this step (the vote store grew) *)
Definition voted (pre post : state) : bool := negb (Nat.eqb (List.length (marks pre)) (List.length (marks post))).

(* the pending transfer (t, h) before the step *)
Definition pending (pre : state) (t : Z) (h : string) : option txr :=
  match a_pool (getA pre t) with Some pl => pool_get h pl | None => None end.
(* a vote / confirmation paid more out of the requesting account than the voter's reward although no
   transfer left the pool: a pay-out must take its transfer out of the pool (exactly once) *)
Definition paid_without_release (pre post : state) (t : Z) (h : string) : bool :=
  match released pre post t h with
  | Some _ => false
  | None =>
      (* the account the transfer would be paid from, and what the voter's reward may take from it *)
      let p := match pending pre t h with Some tx => t_from tx | None => t end in
      let rd := match pending pre t h with Some tx => match t_rew tx with (d, _) :: _ => d | [] => 0 end | None => 0 end in
      let r0 := match pending pre t h with Some tx => if t_from tx =? t then match t_rew tx with (_, r) :: _ => Z.max 0 r | [] => 0 end else 0 | None => 0 end in
      existsb (fun d => (if d =? rd then r0 else 0) + bal_get d (a_bal (getA post p)) <? bal_get d (a_bal (getA pre p))) denoms
  end.

(* a pooled transfer after an address rotation: unchanged, or requested by the rotated address now *)
Definition tx_from (y : txr) (nw : Z) : txr := mkTx nw (t_to y) (t_amt y) (t_pw y) (t_rew y) (t_votes y) (t_conf y).
Definition moved_tx (a nw : Z) (x y : txr) : bool :=
  txr_eqb x y || ((t_from y =? a) && txr_eqb x (tx_from y nw)) || ((t_from x =? a) && txr_eqb y (tx_from x nw)).

(* A. the configuration of a guarded account changes only with the preimage of ITS current key; the
   decorator judged against the state [a0] at the start of the transaction *)
Definition key_clauses (n : nat) (a0 pre post : state) (o : op) : list string :=
  let kind := kind_name o in
  let sg := signer o in
  flat_map (fun i =>
      let x := Z.of_nat i in
      let X := getA a0 x in
      if guarded X && negb (config_eqb (getA pre x) (getA post x)) then
        match o with
        | ORotate a _ _ => if x =? a then [] else [cl3 "key" kind "nonsettings"]   (* the rotation clauses below *)
        | _ =>
        match op_kp o, a_set X with
        | Some k, Some st =>
            if String.eqb (k_old k) (s_key st) then [] else
            [cl3 "key" kind (if x =? sg then "self"
                             else match a_set (getA a0 sg) with
                                  | None => "t_norec"
                                  | Some ss => if s_en ss then (if k_tgt k =? s_next ss then "t_next" else "t_other") else "t_disabled"
                                  end)]
        | _, _ => [cl3 "key" kind "nonsettings"]
        end end
      else []) (seq 0 n).

(* H. coins leave a guarded account (with custodians) only in the steps that are explained below *)
Definition out_clauses (n : nat) (pre post : state) (o : op) : list string :=
  let kind := kind_name o in
  flat_map (fun i =>
      let x := Z.of_nat i in
      let X := getA pre x in
      if guarded X && (0 <? n_cust X) && dec X (getA post x) then
        match o with
        | OApprove _ t h | OConfirm _ t h _ _ =>
            if (t =? x) || match pending pre t (to_lower h) with Some tx => t_from tx =? x | None => false end then [] else [cl "outflow" kind]
        | ODecline _ t _ => if t =? x then [] else [cl "outflow" kind]
        | OSend s _ _ _ _ _ | OBank s _ _ _ | OMulti s _ _ => if s =? x then [] else [cl "outflow" kind]
        | ORotate a nw _ => if (a =? x) || (nw =? x) then [] else [cl "outflow" kind]
        | _ => [cl "outflow" kind]
        end
      else []) (seq 0 n).

(* the clauses of the operation itself, and the log after it *)
Definition op_clauses (n : nat) (lg : log) (a0 pre post : state) (o : op) : list string * log :=
  match o with
  | OApprove f t hraw =>
      let kind := vote_kind lg t "approve" in
      let h := to_lower hraw in
      let T := getA pre t in
      let isc := is_custodian T f in
      let dup := in3 f t h (l_appr lg) || in3 f t h (l_decl lg) in
      let dpp := negb dup && same_person lg f t h in      (* the same person under another address *)
      let vt := voted pre post in
      let lg1 := if isc && negb dup && vt then
                   if dpp then mkLog (l_appr lg) (l_decl lg) (l_conf lg) (l_rot lg) (l_req lg) (l_alias lg) (t :: l_same lg)
                   else mkLog ((f, t, h) :: l_appr lg) (l_decl lg) (l_conf lg) (l_rot lg) (l_req lg) (l_alias lg) (l_same lg)
                 else lg in
      ((if negb isc && negb (state_eqb n pre post) then [cl "only_custodians" kind] else []) ++
       (if isc && dup && vt then [cl "vote_once" kind] else []) ++
       (if isc && dpp && vt then [cl3 "vote_once" kind "same_person"] else []) ++
       (if paid_without_release pre post t h then [cl "payout_without_release" kind] else []) ++
       (if negb vt && dec T (getA post t) then [cl "reward_without_vote" kind] else []) ++
       (match released pre post t h with
        | Some tx => release_clauses lg1 pre t h tx (t_votes tx + 1) (vote_kind lg1 t "approve")
        | None => []
        end), lg1)
  | ODecline f t hraw =>
      let kind := vote_kind lg t "decline" in
      let h := to_lower hraw in
      let T := getA pre t in
      let isc := is_custodian T f in
      let dup := in3 f t h (l_appr lg) || in3 f t h (l_decl lg) in
      let dpp := negb dup && same_person lg f t h in
      let vt := voted pre post in
      let lg1 := if isc && negb dup && vt then mkLog (l_appr lg) ((f, t, h) :: l_decl lg) (l_conf lg) (l_rot lg) (l_req lg) (l_alias lg) (l_same lg) else lg in
      ((if negb isc && negb (state_eqb n pre post) then [cl "only_custodians" kind] else []) ++
       (if isc && dup && vt then [cl "vote_once" kind] else []) ++
       (if isc && dpp && vt then [cl3 "vote_once" kind "same_person"] else []) ++
       (if paid_without_release pre post t h then [cl "payout_without_release" kind] else []) ++
       (if negb vt && dec T (getA post t) then [cl "reward_without_vote" kind] else []) ++
       (match released pre post t h with Some _ => [cl "release" kind] | None => [] end), lg1)
  | OConfirm f t hraw p ph =>
      let kind := vote_kind lg t "confirm" in
      let h := to_lower hraw in
      match pending pre t h with
      | Some tx =>
          (* an accepted confirmation of a pending transfer: the password must be the one of the request
             (given as it is, or as its digest) *)
          let good := String.eqb p (t_pw tx) || String.eqb ph (t_pw tx) in
          let lg1 := if good then mkLog (l_appr lg) (l_decl lg) ((t, h) :: l_conf lg) (l_rot lg) (l_req lg) (l_alias lg) (l_same lg) else lg in
          ((if good then [] else [cl3 "password" kind "wrong"]) ++
           (if paid_without_release pre post t h then [cl "payout_without_release" kind] else []) ++
           (match released pre post t h with
            | Some tx => release_clauses lg1 pre t h tx (t_votes tx) kind
            | None => [] end), lg1)
      | None => (if state_eqb n pre post then [] else [cl3 "password" kind "no_transfer"], lg)
      end
  | OCreate sg _ _ =>
      (* the owner redefined the settings: requirements recorded for its pending transfers follow the new ones *)
      ([], mkLog (l_appr lg) (l_decl lg) (l_conf lg) (l_rot lg) (filter (fun e => negb (fst e =? sg)) (l_req lg)) (l_alias lg) (l_same lg))
  | OSend s to amt _ _ h =>
      let kind := "custody_send"%string in
      let S := getA pre s in
      if dec S (getA post s) then      (* paid out directly *)
        ((if guarded S && (0 <? n_cust S) then [cl3 "threshold" kind "direct"] else []) ++
         (if flag s_pwd S then [cl3 "password" kind "direct"] else []) ++
         wl_lim_clauses S to amt kind, lg)
      else ([], if flag s_pwd S then mkLog (l_appr lg) (l_decl lg) (l_conf lg) (l_rot lg) ((s, h) :: l_req lg) (l_alias lg) (l_same lg) else lg)
  | OBank s to amt _ =>
      (* the decorator's decision: against the state at the start of the transaction *)
      if dec (getA pre s) (getA post s) then (path_clauses (getA a0 s) to amt "bank_send", lg) else ([], lg)
  | OMulti s to amt =>
      if dec (getA pre s) (getA post s) then (path_clauses (getA a0 s) to amt "multisend", lg) else ([], lg)
  | ORotate a nw ok =>
      (* the custody records and the funds of [a] must arrive at [nw] unchanged: the protection follows the funds *)
      let A := getA pre a in let B := getA pre nw in let A' := getA post a in let B' := getA post nw in
      let mv {X} (x y : option X) : option X := match x with Some _ => x | None => y end in
      ((if ok then [] else [cl "rotate" "unauthorised"]) ++
       (if opt_eqb settings_eqb (a_set B') (mv (a_set A) (a_set B)) && opt_eqb (map_eqb Z.eqb Bool.eqb) (a_cust B') (mv (a_cust A) (a_cust B))
           && opt_eqb (map_eqb Z.eqb Bool.eqb) (a_wl B') (mv (a_wl A) (a_wl B)) && opt_eqb (map_eqb Z.eqb lim_eqb) (a_lim B') (mv (a_lim A) (a_lim B))
           && opt_eqb (map_eqb String.eqb (moved_tx a nw)) (a_pool B') (mv (a_pool A) (a_pool B))
           && opt_eqb (map_eqb Z.eqb stat_eqb) (a_stat B') (mv (a_stat A) (a_stat B))
        then [] else [cl "rotate" "custody_not_moved"]) ++
       (if forallb (fun d => (bal_get d (a_bal B') =? bal_get d (a_bal B) + bal_get d (a_bal A)) && (bal_get d (a_bal A') =? 0)) denoms
        then [] else [cl "rotate" "funds"]),
       mkLog (ren3 a nw (l_appr lg)) (ren3 a nw (l_decl lg)) (ren2 a nw (l_conf lg)) (a :: nw :: l_rot lg) (ren2 a nw (l_req lg)) ((nw, a) :: l_alias lg) (l_same lg))
  | _ => ([], lg)
  end.

Definition step_clauses (n : nat) (lg : log) (a0 pre post : state) (o : op) : list string * log :=
  (key_clauses n a0 pre post o ++ out_clauses n pre post o ++ fst (op_clauses n lg a0 pre post o), snd (op_clauses n lg a0 pre post o)).

Fixpoint dedup (l : list string) : list string :=
  match l with [] => [] | x :: r => if str_in x r then dedup r else x :: dedup r end.

(* a trace: per message the transaction id, the operation, the outcome code of its transaction and the
   state after it ([None]: the observation reported something the model's state type has no place for) *)
Definition trace := list (Z * op * Z * option state).

(* [a0], [id0]: the state at the start of the current transaction and its id *)
Fixpoint trace_clauses (n : nat) (lg : log) (id0 : Z) (a0 s : state) (tr : trace) : list string :=
  match tr with
  | [] => []
  | (id, o, code, None) :: _ => ["unmodelled_state"%string]
  | (id, o, code, Some post) :: r =>
      let a0 := if id =? id0 then a0 else s in
      if code =? 0 then
        fst (step_clauses n lg a0 s post o) ++ trace_clauses n (snd (step_clauses n lg a0 s post o)) id a0 post r
      else (if state_eqb n s post then [] else [cl "not_atomic" (kind_name o)]) ++ trace_clauses n lg id a0 post r
  end.

(* the observed trace of a history: patches applied to the previous observed state *)
Fixpoint decode (n : nat) (s : state) (steps : list ostep) : trace :=
  match steps with
  | [] => []
  | (id, o, code, ps) :: r =>
      match fold_left apply_patch ps (Some s) with
      | None => [(id, o, code, None)]
      | Some post => let post := compact n post in (id, o, code, Some post) :: decode n post r
      end
  end.

Definition no_log : log := mkLog [] [] [] [] [] [] [].
Definition case_clauses (c : c17_case) : list string :=
  match c with C17 bals steps =>
    let n := List.length bals in dedup (trace_clauses n no_log (-1) (init_state bals) (init_state bals) (decode n (init_state bals) steps)) end.

(* the trace the MODEL produces for a list of operations (one message per transaction): the same checker
   runs over it in the proofs *)
Section ModelTrace.
Variable v : variant.
Variable H : string -> string.
Variable minrew : Z.
Fixpoint model_trace (id : Z) (s : state) (ops : list op) : trace :=
  match ops with
  | [] => []
  | o :: r => let s' := exec v H minrew s o in (id, o, outcome_code (step v H minrew s o), Some s') :: model_trace (id + 1) s' r
  end.
Definition model_clauses (bals : list coins) (ops : list op) : list string :=
  trace_clauses (List.length bals) no_log (-1) (init_state bals) (init_state bals) (model_trace 0 (init_state bals) ops).
End ModelTrace.

Fixpoint violations_from (k : nat) (cs : list c17_case) : list (nat * list string) :=
  match cs with [] => [] | c :: r =>
    match case_clauses c with [] => violations_from (S k) r | l => (k, l) :: violations_from (S k) r end end.
Definition c17_violations (cs : list c17_case) : list (nat * list string) := violations_from 0 cs.
