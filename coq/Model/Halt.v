(* C06 -- models of the begin/end-block steps of /repo that can panic (definitions only).
   Every Go panic is a [Panic], every returned error an [Err]; nothing is totalised.
   Sources: x/gov/abci.go processProposal/processPoll + x/gov/types/quorum.go IsQuorum,
   x/gov/types/router.go ApplyProposal, x/gov/keeper/msg_server.go SubmitProposal (dry run),
   x/spending/keeper/abci.go EndBlocker, x/spending/keeper/spending_pool.go ClaimSpendingPool,
   x/spending/proposal_handler.go (Withdraw / Distribution Apply),
   x/staking/keeper/val_state_change.go ApplyAndReturnValidatorSetUpdates,
   x/feeprocessing/keeper/keeper.go ProcessExecutionFeeReturn,
   x/distributor/keeper/distributor.go AllocateTokens (proposer part), x/upgrade/keeper/plan.go. *)
From Sekai Require Import Base.Prelude Base.Dec.

(* panic classes as the harness reports them (harness/cmd/c06/drive.go classOf) *)
Definition cls_of (s : string) : string :=
  if String.eqb s "division by zero" then "div-by-zero"
  else if String.eqb s "Int overflow" then "int-overflow" else s.
Definition relabel {A} (o : outcome A) : outcome A :=
  match o with Panic s => Panic (cls_of s) | x => x end.

(* ------------------------------------------------------------------ gov: IsQuorum / processProposal *)
(* IsQuorum(percentage, votes, totalVoters) *)
Definition is_quorum (q : dec) (votes voters : Z) : outcome bool :=
  if voters <? votes then Err "votes-gt-voters"
  else if PREC <? q then Err "quorum-gt-1"
  else do need <- relabel (dmul (dec_of_int voters) q); Ok (need <=? dec_of_int votes).
(* processProposal / processPoll: an IsQuorum error is turned into panic(...) *)
Definition process_quorum (q : dec) (votes voters : Z) : outcome bool :=
  match is_quorum q votes voters with Err e => Panic e | r => r end.

(* voters of a permission-gated proposal: the actors holding the permission (directly or through a
   role); a vote is accepted only from a current holder; holders can be removed afterwards *)
Record gstate := mkG { g_holders : list Z; g_votes : list Z }.
Inductive gop := GGrant (a : Z) | GRevoke (a : Z) | GVote (a : Z).
Fixpoint zmem (x : Z) (l : list Z) : bool := match l with [] => false | y :: r => (x =? y) || zmem x r end.
Fixpoint zremove (x : Z) (l : list Z) : list Z :=
  match l with [] => [] | y :: r => if x =? y then zremove x r else y :: zremove x r end.
Definition zadd (x : Z) (l : list Z) : list Z := if zmem x l then l else x :: l.
Definition gstep (s : gstate) (o : gop) : gstate :=
  match o with
  | GGrant a => mkG (zadd a s.(g_holders)) s.(g_votes)
  | GRevoke a => mkG (zremove a s.(g_holders)) s.(g_votes)
  | GVote a => if zmem a s.(g_holders) then mkG s.(g_holders) (zadd a s.(g_votes)) else s   (* rejected *)
  end.
Definition grun (ops : list gop) (s : gstate) : gstate := fold_left gstep ops s.
Definition gprocess (q : dec) (s : gstate) : outcome bool :=
  process_quorum q (Z.of_nat (List.length s.(g_votes))) (Z.of_nat (List.length s.(g_holders))).
Definition is_revoke (o : gop) : bool := match o with GRevoke _ => true | _ => false end.

(* ------------------------------------------------------------------ spending EndBlocker *)
Record spool := mkSpool { sp_dyn : bool; sp_period : Z; sp_last : Z; sp_weight : dec; sp_bals : list Z }.
(* sdk.NewDecCoinFromDec panics on a negative amount *)
Definition new_dec_coin (amount : dec) : outcome dec := if amount <? 0 then Panic "neg-deccoin" else Ok amount.
Fixpoint pool_rates (den : dec) (bals : list Z) : outcome (list dec) :=
  match bals with
  | [] => Ok []
  | b :: r => do rate <- relabel (dquo (dec_of_int b) den); do c <- new_dec_coin rate;
              do rs <- pool_rates den r; Ok (c :: rs)
  end.
(* one iteration of the loop over pools; [sp_weight] is the summed weight of the registered claimers *)
(* [guard]: does the end-blocker skip a pool whose denominator period*weight is not positive?  The flag
   is REGENERATED from the working tree (Gen/PanicSites.v spend_endblock_guarded): false on the pinned tree *)
Definition spend_pool_step (guard : bool) (now : Z) (p : spool) : outcome spool :=
  if negb p.(sp_dyn) then Ok p
  else if now <? wrap64 (p.(sp_period) + p.(sp_last)) then Ok p      (* uint64 addition wraps *)
  else if p.(sp_weight) =? 0 then Ok p
  else do den <- relabel (dmul (dec_of_int (as_int64 p.(sp_period))) p.(sp_weight));   (* NewDec(int64(period)).Mul(totalWeight) *)
       if guard && (den <=? 0) then Ok p else
       do _ <- pool_rates den p.(sp_bals);
       Ok (mkSpool p.(sp_dyn) p.(sp_period) now p.(sp_weight) p.(sp_bals)).
Fixpoint spend_endblock (guard : bool) (now : Z) (ps : list spool) : outcome (list spool) :=
  match ps with
  | [] => Ok []
  | p :: r => do p' <- spend_pool_step guard now p; do r' <- spend_endblock guard now r; Ok (p' :: r')
  end.

(* histories of the spending module as far as the end-blocker is concerned *)
Inductive sop :=
| SCreate (dyn : bool) (period : Z) (now : Z)        (* MsgCreateSpendingPool: any account; no guard on period *)
| SRegister (i : nat) (w : dec)                      (* a beneficiary of weight w registers in pool i *)
| SDeposit (i : nat) (amt : Z)
| SEnd (now : Z).                                    (* EndBlock at block time now *)
Fixpoint upd {A} (i : nat) (f : A -> A) (l : list A) : list A :=
  match l, i with [], _ => [] | x :: r, O => f x :: r | x :: r, S k => x :: upd k f r end.
Definition sstep (guard : bool) (s : outcome (list spool)) (o : sop) : outcome (list spool) :=
  do ps <- s;
  match o with
  | SCreate dyn period now => Ok (ps ++ [mkSpool dyn period now 0 []])
  | SRegister i w => Ok (upd i (fun p => mkSpool p.(sp_dyn) p.(sp_period) p.(sp_last) (p.(sp_weight) + w) p.(sp_bals)) ps)
  | SDeposit i amt => Ok (upd i (fun p => mkSpool p.(sp_dyn) p.(sp_period) p.(sp_last) p.(sp_weight) (amt :: p.(sp_bals))) ps)
  | SEnd now => spend_endblock guard now ps
  end.
Definition srun (guard : bool) (ops : list sop) : outcome (list spool) := fold_left (sstep guard) ops (Ok []).
(* the guard that makes the end-blocker safe: what a fixed CreateSpendingPool / Register / Deposit admit *)
Definition amt_bound : Z := 2 ^ 190.
Definition sop_ok (o : sop) : bool :=
  match o with
  | SCreate dyn period _ => negb dyn || ((0 <? period) && (period <? two63))
  | SRegister _ w => (0 <? w) && (w <? 2 ^ 100)
  | SDeposit _ amt => (0 <=? amt) && (amt <? amt_bound)
  | SEnd _ => true
  end.
Definition pool_safe (p : spool) : bool :=
  (negb p.(sp_dyn) || ((0 <? p.(sp_period)) && (p.(sp_period) <? two63)))
  && (0 <=? p.(sp_weight)) && (p.(sp_weight) <? 2 ^ 150)
  && forallb (fun b => (0 <=? b) && (b <? amt_bound)) p.(sp_bals).

(* magnitudes only (no sign / non-zero conditions): what every stored pool satisfies *)
Definition pool_bounded (p : spool) : bool :=
  (0 <=? p.(sp_period)) && (p.(sp_period) <? two64) && (Z.abs p.(sp_weight) <? 2 ^ 150)
  && forallb (fun b => (0 <=? b) && (b <? amt_bound)) p.(sp_bals).

(* ------------------------------------------------------------------ proposal enactment (router.ApplyProposal) *)
(* Apply runs on a cache context; an error is swallowed (state unchanged), a panic is not recovered *)
Definition apply_proposal {S} (handler : S -> outcome S) (s : S) : outcome S :=
  match handler s with Ok s' => Ok s' | Err _ => Ok s | Panic m => Panic m end.
(* SubmitProposal dry-runs Apply on a throw-away branch: a panic or an error there fails the submission *)
Definition submit_accepts {S} (handler : S -> outcome S) (s : S) : bool := is_ok (handler s).

(* SpendingPoolWithdraw.Apply, one denom: for each beneficiary the bank transfer out of the spending
   MODULE account (which holds all pools), then pool.Balances.Sub(amounts) -- Coins.Sub panics below zero *)
Fixpoint withdraw_loop (n : nat) (modbal poolbal amt : Z) : outcome (Z * Z) :=
  match n with
  | O => Ok (modbal, poolbal)
  | S k => if amt =? 0 then withdraw_loop k modbal poolbal amt
           else if modbal <? amt then Err "insufficient-funds"
           else if poolbal <? amt then Panic "neg-coin"
           else withdraw_loop k (modbal - amt) (poolbal - amt) amt
  end.
Definition withdraw_handler (n : nat) (amt : Z) (s : Z * Z) : outcome (Z * Z) := withdraw_loop n (fst s) (snd s) amt.

(* ClaimSpendingPool (called by SpendingPoolDistribution.Apply for every beneficiary), one rate denom,
   static rate: rewards = round(rate * duration * weight); sdk.NewCoin panics on a negative amount and
   pool.Balances.Sub(rewards) panics when the pool's recorded balance is smaller -- BEFORE the transfer *)
Definition claim (poolbal : Z) (rate w : dec) (cstart last now cend expiry : Z) : outcome Z :=
  if w =? 0 then Err "not-beneficiary" else
  let cs := Z.max cstart last in
  let ce := if negb (cend =? 0) && (cend <? now) then cend else now in
  if ce <=? cs then Err "no-more-rewards" else
  let dur := Z.min (ce - cs) expiry in
  do a1 <- relabel (dmul rate (dec_of_int dur)); do a2 <- relabel (dmul a1 w);
  let amount := round_int a2 in
  if amount <? 0 then Panic "neg-coin"
  else if poolbal <? amount then Panic "neg-coin"
  else Ok (poolbal - amount).

(* ------------------------------------------------------------------ staking: ApplyAndReturnValidatorSetUpdates *)
(* removing / reactivating queues hold validator keys; a key without a validator record makes
   GetValidator fail => "validator not found" => BlockValidatorUpdates panics *)
Record vstate := mkV { v_vals : list Z; v_removing : list Z; v_reactivating : list Z }.
Inductive vop := VJoin (v : Z) | VPause (v : Z) | VJail (v : Z) | VInactivate (v : Z) | VActivate (v : Z) | VEnd.
Definition vend (s : vstate) : outcome vstate :=
  if forallb (fun v => zmem v s.(v_vals)) s.(v_removing) && forallb (fun v => zmem v s.(v_vals)) s.(v_reactivating)
  then Ok (mkV s.(v_vals) [] []) else Panic "validator-not-found".
Definition vstep (s : outcome vstate) (o : vop) : outcome vstate :=
  do st <- s;
  match o with
  | VJoin v => Ok (mkV (zadd v st.(v_vals)) st.(v_removing) st.(v_reactivating))
  | VPause v | VJail v | VInactivate v =>       (* GetValidator first: unknown key => error, nothing queued *)
      if zmem v st.(v_vals) then Ok (mkV st.(v_vals) (zadd v st.(v_removing)) (zremove v st.(v_reactivating))) else Ok st
  | VActivate v =>
      if zmem v st.(v_vals) then Ok (mkV st.(v_vals) (zremove v st.(v_removing)) (zadd v st.(v_reactivating))) else Ok st
  | VEnd => vend st
  end.
Definition vrun (ops : list vop) (s : vstate) : outcome vstate := fold_left vstep ops (Ok s).
Definition v_inv (s : vstate) : bool :=
  forallb (fun v => zmem v s.(v_vals)) s.(v_removing) && forallb (fun v => zmem v s.(v_vals)) s.(v_reactivating).

(* ------------------------------------------------------------------ fee collector payouts *)
(* ProcessExecutionFeeReturn / AllocateTokensToValidator / IncreasePoolRewards(autocompound):
   SendCoinsFromModule(fee_collector, ...) failing => panic(err) *)
Definition pay_from_collector (collector amount : Z) : outcome Z :=
  if amount <=? 0 then Ok collector
  else if collector <? amount then Panic "insufficient-funds" else Ok (collector - amount).
(* AllocateTokens, proposer part, one denom: fees = collector - treasury (when >= 0),
   cut = fees * power / snap (sdk.Int.Quo: division by zero panics), validator share rounded *)
Definition allocate (collector treasury power snap : Z) (share : dec) : outcome Z :=
  let fees := if treasury <=? collector then collector - treasury else 0 in
  if snap =? 0 then Panic "div-by-zero" else
  let cut := Z.quot (fees * power) snap in
  let share' := if PREC <? share then PREC else share in
  do r <- relabel (dmul (dec_of_int cut) share');
  pay_from_collector collector (round_int r).

(* ------------------------------------------------------------------ upgrade: the only sanctioned stop *)
Definition upgrade_begin (due processed instate has_handler skip : bool) : outcome bool :=
  if negb due then Ok processed
  else if negb processed then Ok true
  else if negb instate then Panic "upgrade-needed"
  else if skip then Ok processed
  else if has_handler then Ok processed else Panic "upgrade-handler-missing".

(* ------------------------------------------------------------------ one EndBlock of the modelled modules, in app.go's order:
   gov (every due proposal / poll: quorum), staking (validator-set updates), spending *)
Record world := mkW { w_due : list (dec * gstate); w_val : vstate; w_pools : list spool }.
Fixpoint gov_endblock (l : list (dec * gstate)) : outcome unit :=
  match l with [] => Ok tt | (q, g) :: r => do _ <- gprocess q g; gov_endblock r end.
Definition end_block (guard : bool) (now : Z) (w : world) : outcome world :=
  do _ <- gov_endblock w.(w_due);
  do v <- vend w.(w_val);
  do ps <- spend_endblock guard now w.(w_pools);
  Ok (mkW [] v ps).
(* SubmitProposal followed (later, on another state) by enactment *)
Definition lifecycle {S} (handler : S -> outcome S) (s_submit s_enact : S) : option (outcome S) :=
  if submit_accepts handler s_submit then Some (apply_proposal handler s_enact) else None.

(* ------------------------------------------------------------------ UBI: UpsertUBI.Apply hard-cap check and the UBI end-blocker's mint *)
(* Apply: ubiSum + amount*31556952/period > hardcap => error; all uint64 (wraps), integer division by period *)
Definition ubi_apply (ubi_sum amount period hardcap : Z) : outcome Z :=
  if period =? 0 then Panic "div-by-zero"
  else if hardcap <? wrap64 (ubi_sum + wrap64 (amount * 31556952) / period) then Err "ubi sum overflows hardcap"
  else Ok amount.
(* ProcessUBIRecord: sdk.NewCoin(denom, NewInt(int64(amount)) * 1000000) -- NewCoin panics on a negative amount;
   the cache context around it only discards ERRORS *)
Definition ubi_mint (amount : Z) : outcome Z :=
  let a := as_int64 amount * 1000000 in if a <? 0 then Panic "neg-coin" else Ok a.

(* ------------------------------------------------------------------ the same steps as the tree has them NOW: each flag is
   regenerated from /repo by gen_panics (true = the unguarded code of the pinned tree) *)
(* IsQuorum error: panic, or "quorum not reached" *)
Definition process_quorum_on (panics : bool) (q : dec) (votes voters : Z) : outcome bool :=
  if panics then process_quorum q votes voters
  else match is_quorum q votes voters with Err _ => Ok false | r => r end.
(* Coins.Sub (panics below zero) or SafeSub + error *)
Fixpoint withdraw_loop_checked (n : nat) (modbal poolbal amt : Z) : outcome (Z * Z) :=
  match n with
  | O => Ok (modbal, poolbal)
  | S k => if amt =? 0 then withdraw_loop_checked k modbal poolbal amt
           else if modbal <? amt then Err "insufficient-funds"
           else if poolbal <? amt then Err "pool balance does not cover the amount"
           else withdraw_loop_checked k (modbal - amt) (poolbal - amt) amt
  end.
Definition withdraw_handler_on (unchecked : bool) (n : nat) (amt : Z) (s : Z * Z) : outcome (Z * Z) :=
  if unchecked then withdraw_handler n amt s else withdraw_loop_checked n (fst s) (snd s) amt.
Definition claim_checked (poolbal : Z) (rate w : dec) (cstart last now cend expiry : Z) : outcome Z :=
  if w =? 0 then Err "not-beneficiary" else
  let cs := Z.max cstart last in
  let ce := if negb (cend =? 0) && (cend <? now) then cend else now in
  if ce <=? cs then Err "no-more-rewards" else
  let dur := Z.min (ce - cs) expiry in
  do a1 <- relabel (dmul rate (dec_of_int dur)); do a2 <- relabel (dmul a1 w);
  let amount := round_int a2 in
  if amount <? 0 then Err "pool balance does not cover the amount"
  else if poolbal <? amount then Err "pool balance does not cover the amount"
  else Ok (poolbal - amount).
Definition claim_on (unchecked : bool) := if unchecked then claim else claim_checked.
(* int64(amount) or NewIntFromUint64(amount) *)
Definition ubi_mint_on (cast : bool) (amount : Z) : outcome Z := if cast then ubi_mint amount else Ok (amount * 1000000).

(* ------------------------------------------------------------------ IncreasePoolRewards: the pool reward is split per staked denom,
   allocation_d = round(reward * stake_cap_d); every delegator is credited its share of each allocation *)
Definition credit_one (reward : Z) (cap : dec) : outcome Z :=
  do a <- relabel (dmul (dec_of_int reward) cap); Ok (round_int a).
Definition credit_two (reward : Z) (cap1 cap2 : dec) : outcome Z :=
  do a <- credit_one reward cap1; do b <- credit_one reward cap2; Ok (a + b).

(* UpsertUBI.Apply after b963c04: Period = 0 refused, the sums in sdk.Int (no wrap-around) *)
Definition ubi_apply_exact (ubi_sum amount period hardcap : Z) : outcome Z :=
  if period =? 0 then Err "ubi sum overflows hardcap"
  else if hardcap <? ubi_sum + Z.quot (amount * 31556952) period then Err "ubi sum overflows hardcap"
  else Ok amount.
Definition ubi_apply_on (uint64_arith : bool) := if uint64_arith then ubi_apply else ubi_apply_exact.

(* ClaimSpendingPool with the dynamic-rate case: AFTER the "claimStart >= claimEnd" check a dynamic pool moves the
   claim start to the last rate recalculation, so the duration can be NEGATIVE (recalculation after the claim end).
   [unchecked] = no amount.IsNegative() / SafeSub guard. *)
Definition claim_dyn (unchecked : bool) (poolbal : Z) (rate w : dec) (cstart last now cend expiry : Z) (dyn : bool) (lastcalc : Z) : outcome Z :=
  if w =? 0 then Err "not-beneficiary" else
  let cs := Z.max cstart last in
  let ce := if negb (cend =? 0) && (cend <? now) then cend else now in
  if ce <=? cs then Err "no-more-rewards" else
  let cs' := if dyn && (cs <? lastcalc) then lastcalc else cs in
  let dur := Z.min (ce - cs') expiry in
  do a1 <- relabel (dmul rate (dec_of_int dur)); do a2 <- relabel (dmul a1 w);
  let amount := round_int a2 in
  if amount <? 0 then (if unchecked then Panic "neg-coin" else Err "pool balance does not cover the amount")
  else if poolbal <? amount then (if unchecked then Panic "neg-coin" else Err "pool balance does not cover the amount")
  else Ok (poolbal - amount).

(* ------------------------------------------------------------------ recovery: IncreaseRecoveryTokenUnderlying (proposer payout, BeginBlock).
   The holder index key is prefix ++ denom ++ holder WITHOUT a separator and GetRRTokenHolders iterates prefix ++ denom:
   unless only exact-denom entries are kept, the entries of every denom that EXTENDS this one are listed too. *)
Fixpoint str_prefix (p s : string) : bool :=
  match p, s with
  | EmptyString, _ => true
  | String a p', String b s' => Ascii.eqb a b && str_prefix p' s'
  | _, _ => false
  end.
Definition rr_listed (exact : bool) (denom : string) (index : list (string * Z)) : list Z :=
  map snd (filter (fun e => if exact then String.eqb (fst e) denom else str_prefix denom (fst e)) index).
(* every listed holder is credited floor(amount * balance / supply); Coins.Sub(amount, total) panics below zero *)
Definition rr_allocate (amount supply : Z) (bal : Z -> Z) (listed : list Z) : outcome Z :=
  let total := zsum (map (fun h => Z.quot (amount * bal h) supply) listed) in
  if amount <? total then Panic "neg-coin" else Ok (amount - total).

(* ------------------------------------------------------------------ gov actors and the permission index under address rotation.
   An actor record carries its individually whitelisted permissions; the index holds (permission, address) entries.
   Rotation a -> u saves a's record at u (OVERWRITING a record already there) and moves only the index entries of the
   permissions in the moved record; enumerating a permission looks every indexed address up and panics if it has no record. *)
Record astate := mkA { a_actors : list (Z * list Z); a_index : list (Z * Z) }.
Fixpoint a_find (x : Z) (l : list (Z * list Z)) : option (list Z) :=
  match l with [] => None | (y, ps) :: r => if x =? y then Some ps else a_find x r end.
Definition a_drop (x : Z) (l : list (Z * list Z)) := filter (fun e => negb (fst e =? x)) l.
Definition a_rotate (refuse : bool) (s : astate) (a u : Z) : astate :=
  match a_find a s.(a_actors) with
  | None => s
  | Some perms =>
      if refuse && (match a_find u s.(a_actors) with Some _ => true | None => false end) then s   (* rejected message *)
      else mkA ((u, perms) :: a_drop u (a_drop a s.(a_actors)))
               (map (fun e => if (snd e =? a) && zmem (fst e) perms then (fst e, u) else e) s.(a_index))
  end.
Fixpoint a_enumerate (p : Z) (actors : list (Z * list Z)) (index : list (Z * Z)) : outcome (list Z) :=
  match index with
  | [] => Ok []
  | (q, x) :: r =>
      if q =? p then
        match a_find x actors with
        | None => Panic "actor-missing"          (* GetNetworkActorOrFail *)
        | Some _ => do l <- a_enumerate p actors r; Ok (x :: l)
        end
      else a_enumerate p actors r
  end.
