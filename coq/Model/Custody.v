(* C17 -- model of the custody module as the code is: the ante decorator's custody part
   (app/ante/ante.go CustodyDecorator) followed by the sixteen msg-server handlers
   (x/custody/keeper/msg_server.go) and the two bank send paths.  Definitions only.

   Conventions.  Accounts are integers; an account that was never written has no custody records
   and balance 0 (as an unknown address in the store).  Strings that are only ever compared
   (TargetAddress, NextController) are integer codes: -1 = "", -2 = a string that is not a bech32
   address, i >= 0 = the bech32 string of account i.  Coin denominations are integers (0 = the
   default one); coins are lists (denomination, amount) as sdk.Coins (sorted, positive).
   The model is parameterised by a [variant]: the five places where the tree is known to be wrong and
   for which a repair exists under /verif/fixes (C17-*.patch); the harness determines by probe
   transactions which variant the tree implements.
   Nil-pointer dereferences, index-out-of-range and division by zero of the Go code are [Panic].
   uint64 values are assumed below 2^63 (no wrap-around is modelled; the harness stays there).
   The decorator and the messages of a transaction are committed together or not at all. *)
From Sekai Require Import Base.Prelude.

Record settings := mkSet { s_en : bool; s_mode : Z; s_pwd : bool; s_wl : bool; s_lim : bool; s_key : string; s_next : Z }.
(* key parameters common to the settings messages: [k_old] is the OldKey preimage, [k_new] the next
   key (already a digest), [k_next] NextAddress, [k_tgt] TargetAddress *)
Record kp := mkKp { k_old : string; k_new : string; k_next : Z; k_tgt : Z }.
(* a pooled transfer: MsgSend fields + Votes + Confirmed *)
Definition coins := list (Z * Z).
(* a pooled transfer: MsgSend fields (FromAddress, ToAddress, Amount, Password, Reward) + Votes + Confirmed *)
Record txr := mkTx { t_from : Z; t_to : Z; t_amt : coins; t_pw : string; t_rew : coins; t_votes : Z; t_conf : bool }.
Definition amap := list (Z * bool).            (* map[string]bool keyed by address *)
Definition lmap := list (Z * (Z * string)).    (* map[denom]*CustodyLimit{Amount, Limit} *)
Definition pmap := list (string * txr).        (* map[hash]*TransactionRecord *)
Definition smap := list (Z * (Z * Z)).         (* map[denom]*CustodyStatus{Amount, Time} *)
Record acct := mkAcct { a_set : option settings; a_cust : option amap; a_wl : option amap; a_lim : option lmap;
                        a_pool : option pmap; a_bal : coins; a_stat : option smap }.

(* which of the repaired places the tree implements *)
Record variant := mkV {
  v_cust_only : bool;   (* Approve/Decline refuse a sender who is not a custodian of the target (C17-custodian-only-votes) *)
  v_lower : bool;       (* the vote mark is keyed by the lower-cased hash, as the pool is (C17-vote-key-lowercase) *)
  v_pwd : bool;         (* PasswordConfirm compares the password with the one of the request (C17-password-compared) *)
  v_nilmap : bool;      (* adding to a stored empty map no longer panics (C17-empty-map-assignment) *)
  v_limits : bool;      (* the limit path of the decorator: no nil dereference, window enforced per coin (C17-limits-window) *)
  v_rot : bool          (* address rotation also moves the vote marks and the FromAddress of pooled transfers (C17-rotation-moves-votes) *)
}.
Definition v_tree0 : variant := mkV false false false false false false.   (* the tree as first modelled *)
Definition v_fixed : variant := mkV true true true true true true.
(* [marks]: the vote store, key (from, target, hash exactly as given in the message), value 1 / -1 *)
Record state := mkSt { accts : list (Z * acct); marks : list (Z * Z * string * Z) }.

Inductive lst := LCust | LWl.
Inductive op :=
| OCreate (sg : Z) (ns : settings) (k : kp)
| ODisable (sg : Z) (k : kp)
| ODrop (sg : Z) (k : kp)
| OAdd (w : lst) (sg : Z) (adds : list Z) (k : kp)
| ORem (w : lst) (sg : Z) (r : Z) (k : kp)
| ODropL (w : lst) (sg : Z) (k : kp)
| OAddLim (sg : Z) (d : Z) (amt : Z) (lim : string) (k : kp)
| ORemLim (sg : Z) (d : Z) (k : kp)
| ODropLim (sg : Z) (k : kp)
| OSend (sg : Z) (to : Z) (amt : coins) (pw : string) (rew : coins) (h : string)   (* h = hex sha256 of the tx bytes *)
| OApprove (f : Z) (t : Z) (h : string)
| ODecline (f : Z) (t : Z) (h : string)
| OConfirm (f : Z) (t : Z) (h : string) (p : string) (ph : string)               (* p: password given, ph: its digest *)
| OBank (sg : Z) (to : Z) (amt : coins) (now : Z)                                 (* now: block time (unix seconds) *)
| OMulti (sg : Z) (to : Z) (amt : coins)
(* x/recovery MsgRotateRecoveryAddress: everything of account [a] moves to the fresh address [nw];
   [ok]: the preconditions outside custody hold (recovery proof, fee paid by an outsider, [a] exists,
   [nw] has no account and no rotation history) -- computed by the harness from the real state *)
| ORotate (a : Z) (nw : Z) (ok : bool).

Definition signer (o : op) : Z :=
  match o with
  | OCreate sg _ _ | ODisable sg _ | ODrop sg _ | OAdd _ sg _ _ | ORem _ sg _ _ | ODropL _ sg _
  | OAddLim sg _ _ _ _ | ORemLim sg _ _ | ODropLim sg _ | OSend sg _ _ _ _ _ | OBank sg _ _ _ | OMulti sg _ _ => sg
  | OApprove f _ _ | ODecline f _ _ | OConfirm f _ _ _ _ => f
  | ORotate _ _ _ => -3          (* signed by the fee payer, an account outside the universe *)
  end.

(* ---------------------------------------------------------------- maps *)
Fixpoint alist_get {V} (k : Z) (l : list (Z * V)) : option V :=
  match l with [] => None | (k', v) :: r => if k =? k' then Some v else alist_get k r end.
(* Go map assignment m[k] = v: replaces, or adds a key *)
Fixpoint map_set {V} (k : Z) (v : V) (l : list (Z * V)) : list (Z * V) :=
  match l with [] => [(k, v)] | (k', v') :: r => if k =? k' then (k, v) :: r else (k', v') :: map_set k v r end.
Definition map_len {V} (l : list (Z * V)) : Z := Z.of_nat (List.length l).
Definition bool_at (k : Z) (l : amap) : bool := match alist_get k l with Some b => b | None => false end.

Fixpoint pool_get (h : string) (l : pmap) : option txr :=
  match l with [] => None | (h', v) :: r => if String.eqb h h' then Some v else pool_get h r end.
Fixpoint pool_set (h : string) (v : txr) (l : pmap) : pmap :=
  match l with [] => [(h, v)] | (h', v') :: r => if String.eqb h h' then (h, v) :: r else (h', v') :: pool_set h v r end.
Definition pool_del (h : string) (l : pmap) : pmap := filter (fun e => negb (String.eqb h (fst e))) l.

Definition mark_eqb (f t : Z) (h : string) (e : Z * Z * string * Z) : bool :=
  match e with (f', t', h', _) => (f =? f') && (t =? t') && String.eqb h h' end.
Definition mark_get (f t : Z) (h : string) (l : list (Z * Z * string * Z)) : option Z :=
  match find (mark_eqb f t h) l with Some (_, _, _, v) => Some v | None => None end.

(* ---------------------------------------------------------------- state access *)
Definition empty_acct : acct := mkAcct None None None None None [] None.
Definition getA (s : state) (i : Z) : acct := match alist_get i (accts s) with Some a => a | None => empty_acct end.
Definition setA (s : state) (i : Z) (a : acct) : state := mkSt ((i, a) :: accts s) (marks s).
Definition add_mark (s : state) (f t : Z) (h : string) (v : Z) : state := mkSt (accts s) ((f, t, h, v) :: marks s).
(* vote marks recorded for target [a] are re-keyed to [nw] *)
Definition ren_marks (a nw : Z) (l : list (Z * Z * string * Z)) : list (Z * Z * string * Z) :=
  map (fun e => match e with (f, t, h, x) => (f, (if t =? a then nw else t), h, x) end) l.

Definition with_set (a : acct) (v : option settings) := mkAcct v (a_cust a) (a_wl a) (a_lim a) (a_pool a) (a_bal a) (a_stat a).
Definition with_cust (a : acct) (v : option amap) := mkAcct (a_set a) v (a_wl a) (a_lim a) (a_pool a) (a_bal a) (a_stat a).
Definition with_wl (a : acct) (v : option amap) := mkAcct (a_set a) (a_cust a) v (a_lim a) (a_pool a) (a_bal a) (a_stat a).
Definition with_lim (a : acct) (v : option lmap) := mkAcct (a_set a) (a_cust a) (a_wl a) v (a_pool a) (a_bal a) (a_stat a).
Definition with_pool (a : acct) (v : option pmap) := mkAcct (a_set a) (a_cust a) (a_wl a) (a_lim a) v (a_bal a) (a_stat a).
Definition with_bal (a : acct) (v : coins) := mkAcct (a_set a) (a_cust a) (a_wl a) (a_lim a) (a_pool a) v (a_stat a).
Definition with_stat (a : acct) (v : option smap) := mkAcct (a_set a) (a_cust a) (a_wl a) (a_lim a) (a_pool a) (a_bal a) v.
Definition lst_of (w : lst) (a : acct) : option amap := match w with LCust => a_cust a | LWl => a_wl a end.
Definition with_lst (w : lst) (a : acct) (v : option amap) : acct := match w with LCust => with_cust a v | LWl => with_wl a v end.

Definition set_enabled (st : settings) (b : bool) := mkSet b (s_mode st) (s_pwd st) (s_wl st) (s_lim st) (s_key st) (s_next st).
Definition set_keys (st : settings) (key : string) (next : Z) := mkSet (s_en st) (s_mode st) (s_pwd st) (s_wl st) (s_lim st) key next.
Definition tx_votes (t : txr) (v : Z) := mkTx (t_from t) (t_to t) (t_amt t) (t_pw t) (t_rew t) v (t_conf t).
Definition tx_conf (t : txr) (b : bool) := mkTx (t_from t) (t_to t) (t_amt t) (t_pw t) (t_rew t) (t_votes t) b.

(* balances: amount of a denomination (0 when absent) *)
Definition bal_get (d : Z) (b : coins) : Z := match alist_get d b with Some x => x | None => 0 end.
Definition can_pay (b cs : coins) : bool := forallb (fun c => snd c <=? bal_get (fst c) b) cs.
Definition bal_sub (b cs : coins) : coins := fold_left (fun b c => map_set (fst c) (bal_get (fst c) b - snd c) b) cs b.
Definition bal_add (b cs : coins) : coins := fold_left (fun b c => map_set (fst c) (bal_get (fst c) b + snd c) b) cs b.
(* the whole balance [cs] of one account is added to the balance [b] of another *)
Definition bal_merge (b cs : coins) : coins :=
  fold_left (fun acc c => map_set (fst c) (bal_get (fst c) b + bal_get (fst c) cs) acc) cs b.
(* sdk.Coins.Validate + IsAllPositive: sorted by denomination without duplicates, amounts positive *)
Fixpoint coins_sorted (lo : Z) (cs : coins) : bool :=
  match cs with [] => true | (d, a) :: r => (lo <? d) && (0 <? a) && coins_sorted d r end.
Definition coins_ok (cs : coins) : bool := match cs with [] => false | _ => coins_sorted (-1) cs end.
(* sdk.NewCoins(one coin): a zero coin is dropped *)
Definition one_coin (d a : Z) : coins := if a =? 0 then [] else [(d, a)].

(* sdk.Coins.IsValid: empty, or sorted without duplicates and all positive *)
Definition coins_valid (cs : coins) : bool := match cs with [] => true | _ => coins_sorted (-1) cs end.

(* bank SendCoins: refuses invalid coins; fails when any coin exceeds the balance; nothing moves then *)
Definition send (s : state) (from to : Z) (cs : coins) : outcome state :=
  let a := getA s from in
  if negb (coins_valid cs) then Err "invalid coins" else
  if can_pay (a_bal a) cs then
    let s1 := setA s from (with_bal a (bal_sub (a_bal a) cs)) in
    let b := getA s1 to in
    Ok (setA s1 to (with_bal b (bal_add (a_bal b) cs)))
  else Err "insufficient funds".

(* time.ParseDuration on the strings the harness uses: whole seconds; None = parse error *)
Definition dur_s (l : string) : option Z :=
  if String.eqb l "1h" then Some 3600 else if String.eqb l "90s" then Some 90 else if String.eqb l "0s" then Some 0 else None.

(* AddToCustodyPool: the pool record is stored as it is (a pool whose map became empty is read back
   as a record with an empty map, as observed in the differential run) *)
Definition store_pool (s : state) (t : Z) (p : pmap) : state := setA s t (with_pool (getA s t) (Some p)).

Section Model.
Variable v : variant.
(* sha256 + hex of the OldKey; nothing is assumed about it *)
Variable H : string -> string.
(* network property MinCustodyReward *)
Variable minrew : Z.

(* ---------------------------------------------------------------- ante: CustodyDecorator, one message *)
Definition ante_keyed (st : settings) (k : kp) : outcome unit :=
  if negb (k_tgt k =? -1) && negb (k_tgt k =? s_next st) then Err "wrong target address"
  else if String.eqb (H (k_old k)) (s_key st) then Ok tt else Err "wrong key".

Definition ante_switch (sg : acct) (st : settings) (o : op) : outcome unit :=
  match o with
  | OCreate _ _ k | OAdd _ _ _ k | ORem _ _ _ k | ODropL _ _ k => ante_keyed st k
  (* Type() of these five messages names another message: the type assertion in the arm fails *)
  | OAddLim _ _ _ _ _ | ORemLim _ _ _ | ODropLim _ _ | OApprove _ _ _ | ODecline _ _ _ => Err "invalid type"
  | OSend _ _ _ _ rew _ =>
      match a_cust sg with
      | None => Panic "nil custodians"
      | Some c => match rew with
                  | [] => Err "no reward"
                  | (rd, r0) :: _ => if r0 <? minrew * map_len c then Err "too small reward"
                                     else if rd =? 0 then Ok tt else Err "wrong reward denom"
                  end
      end
  (* no arm: disable, drop, password confirm, bank messages *)
  | ODisable _ _ | ODrop _ _ | OConfirm _ _ _ _ _ | OBank _ _ _ _ | OMulti _ _ _ | ORotate _ _ _ => Ok tt
  end.

(* the repaired limit path: per coin of the message, a window of the limit's duration starting at
   the first send; the sum sent inside the window may not exceed the limit's amount *)
Fixpoint limits_fold (lims : lmap) (now : Z) (cs : coins) (st : smap) : outcome smap :=
  match cs with
  | [] => Ok st
  | (d, amt) :: r =>
      match alist_get d lims with
      | None => limits_fold lims now r st
      | Some (cap, lim) =>
          if (cap =? 0) && String.eqb lim "" then limits_fold lims now r st      (* a removed limit *)
          else match dur_s lim with
               | None => Err "limit reached"
               | Some w =>
                   if w <=? 0 then Err "limit reached" else
                   let '(spent, start) := match alist_get d st with
                                          | Some (a, t) => if now - t <? w then (a, t) else (0, now)
                                          | None => (0, now) end in
                   if cap <? spent + amt then Err "limit reached"
                   else limits_fold lims now r (map_set d (spent + amt, start) st)
               end
      end
  end.

(* the decorator's bank-send part: [Ok None] nothing to store, [Ok (Some st)] the limit statuses to store *)
Definition ante_bank (sg : acct) (to : Z) (cs : coins) (now : Z) : outcome (option smap) :=
  match a_set sg with
  | None => Ok None
  | Some st =>
      do _ <- (if s_en st then
                 match a_cust sg with
                 | None => Panic "nil custodians"
                 | Some c => if 0 <? map_len c then Err "custody enabled, use custody send" else Ok tt
                 end
               else Ok tt);
      do _ <- (if s_wl st then
                 match a_wl sg with
                 | None => Ok tt
                 | Some w => if bool_at to w then Ok tt else Err "not in whitelist"
                 end
               else Ok tt);
      if s_lim st then
        if v_limits v then
          do st' <- limits_fold (match a_lim sg with Some l => l | None => [] end) now cs
                                (match a_stat sg with Some x => x | None => [] end);
          Ok (Some st')
        else Panic "nil limit statuses"      (* the limit-status record is never written before it is dereferenced *)
      else Ok None
  end.

(* the decorator: checks, and for a bank send of an account with limits the new statuses *)
Definition ante (s : state) (o : op) : outcome state :=
  let sg := getA s (signer o) in
  do _ <- match a_set sg with
          | Some st => if s_en st then ante_switch sg st o else Ok tt
          | None => Ok tt
          end;
  match o with
  | OBank _ to cs now =>
      do r <- ante_bank sg to cs now;
      match r with
      | None => Ok s
      | Some st' => Ok (setA s (signer o) (with_stat sg (Some st')))
      end
  | _ => Ok s
  end.

(* ---------------------------------------------------------------- handlers *)
(* TargetAddress: "" = the signer; a code 100 + i is another spelling (upper case) of the bech32 string of
   account i: a different string that decodes to the same address *)
Definition resolve (sg : Z) (k : kp) : outcome Z :=
  if k_tgt k =? -1 then Ok sg else if k_tgt k <? 0 then Err "cannot convert target"
  else if 100 <=? k_tgt k then Ok (k_tgt k - 100) else Ok (k_tgt k).

(* SetCustodyRecordKey: dereferences the settings record of the (target) account *)
Definition set_key (s : state) (x : Z) (k : kp) : outcome state :=
  match a_set (getA s x) with
  | None => Panic "nil settings"
  | Some st => Ok (setA s x (with_set (getA s x) (Some (set_keys st (k_new k) (k_next k)))))
  end.

Definition rec_missing {A} : outcome A := Panic "nil transaction record".

(* the key under which a vote is marked *)
Definition mark_key (hraw : string) : string := if v_lower v then to_lower hraw else hraw.
(* repaired variant: the sender of an approval / a decline must be a custodian of the target *)
Definition voter_ok (T : acct) (f : Z) : bool :=
  if v_cust_only v then match a_cust T with Some c => bool_at f c | None => false end else true.

Definition handle (s : state) (o : op) : outcome state :=
  match o with
  | OCreate sg ns k =>
      Ok (setA s sg (with_set (getA s sg) (Some (set_keys ns (k_new k) (k_next k)))))
  | ODisable sg k =>
      do x <- resolve sg k;
      match a_set (getA s x) with
      | None => Panic "nil settings"
      | Some st => Ok (setA s x (with_set (getA s x) (Some (set_enabled st false))))
      end
  | ODrop sg k =>
      do x <- resolve sg k;
      Ok (setA s x (with_set (getA s x) None))
  | OAdd w sg adds k =>
      do x <- resolve sg k;
      (* a stored record whose map is empty is read back with a nil map: assigning into it panics
         (unless repaired) *)
      match lst_of w (getA s x), adds, v_nilmap v with
      | Some [], _ :: _, false => Panic "assignment to entry in nil map"
      | cur, _, _ =>
          let cur := match cur with Some l => l | None => [] end in
          let l' := fold_left (fun l z => map_set z true l) adds cur in
          do s1 <- set_key s x k;
          Ok (setA s1 x (with_lst w (getA s1 x) (Some l')))
      end
  | ORem w sg r k =>
      do x <- resolve sg k;
      match lst_of w (getA s x) with
      | None => Err "empty list"
      | Some l => if bool_at r l then
                    do s1 <- set_key s x k;
                    Ok (setA s1 x (with_lst w (getA s1 x) (Some (map_set r false l))))
                  else Err "missing element"
      end
  | ODropL w sg k =>
      do x <- resolve sg k;
      do s1 <- set_key s x k;
      Ok (setA s1 x (with_lst w (getA s1 x) None))
  | OAddLim sg d amt lim k =>
      do x <- resolve sg k;
      match a_lim (getA s x), v_nilmap v with
      | Some [], false => Panic "assignment to entry in nil map"
      | cur, _ =>
          let cur := match cur with Some l => l | None => [] end in
          do s1 <- set_key s x k;
          Ok (setA s1 x (with_lim (getA s1 x) (Some (map_set d (amt, lim) cur))))
      end
  | ORemLim sg d k =>
      do x <- resolve sg k;
      match a_lim (getA s x) with
      | None => Err "empty limits"
      | Some l => match alist_get d l with
                  | None => Err "missing element"
                  | Some _ => do s1 <- set_key s x k;
                              Ok (setA s1 x (with_lim (getA s1 x) (Some (map_set d (0, ""%string) l))))
                  end
      end
  | ODropLim sg k =>
      do x <- resolve sg k;
      do s1 <- set_key s x k;
      Ok (setA s1 x (with_lim (getA s1 x) None))
  | OSend sg to amt pw rew h =>
      if negb (coins_ok amt) then Err "invalid coins" else
      let a := getA s sg in
      do pooled <- match a_set a with
                   | None => Ok false
                   | Some st => if s_en st then
                                  match a_cust a with
                                  | None => Panic "nil custodians"
                                  | Some c => Ok ((0 <? map_len c) || s_pwd st)
                                  end
                                else Ok (s_pwd st)
                   end;
      (* the pool record is REPLACED by a pool holding only the new transfer *)
      if pooled then Ok (setA s sg (with_pool a (Some [(h, mkTx sg to amt pw rew 0 false)])))
      else send s sg to amt
  | OApprove f t hraw =>
      let T := getA s t in
      if negb (voter_ok T f) then Err "not a custodian" else
      match mark_get f t (mark_key hraw) (marks s) with
      | Some _ => Ok s
      | None =>
          let h := to_lower hraw in
          match a_pool T with None => rec_missing | Some p =>
          match pool_get h p with None => rec_missing | Some tx =>
          match a_cust T with None => Panic "nil custodians" | Some c =>
          let n := map_len c in
          match t_rew tx with [] => Panic "index out of range" | (rd, r0) :: _ =>
          if n =? 0 then Panic "division by zero" else
          if Z.quot r0 n <? 0 then Panic "negative coin amount" else
          let rw := one_coin rd (Z.quot r0 n) in
          let v' := t_votes tx + 1 in
          let allowC := match a_set T with
                        | Some st => if s_en st && (0 <? n) then s_mode st <=? Z.quot (v' * 100) n else true
                        | None => true end in
          let allowP := match a_set T with
                        | Some st => if s_pwd st then t_conf tx else true
                        | None => true end in
          do s1 <- send s t f rw;
          let s2 := add_mark s1 f t (mark_key hraw) 1 in
          if allowC && allowP then
            do s3 <- send s2 (t_from tx) (t_to tx) (t_amt tx);
            Ok (store_pool s3 t (pool_del h p))
          else Ok (store_pool s2 t (pool_set h (tx_votes tx v') p))
          end end end end
      end
  | ODecline f t hraw =>
      let T := getA s t in
      if negb (voter_ok T f) then Err "not a custodian" else
      match mark_get f t (mark_key hraw) (marks s) with
      | Some _ => Ok s
      | None =>
          let h := to_lower hraw in
          match a_set T with None => Ok s | Some st =>
          if negb (s_en st) then Ok s else
          match a_cust T with None => Panic "nil custodians" | Some c =>
          let n := map_len c in
          if n =? 0 then Ok s else
          match a_pool T with None => Ok s | Some p =>
          match pool_get h p with None => Ok s | Some tx =>
          match t_rew tx with [] => Panic "index out of range" | (rd, r0) :: _ =>
          if Z.quot r0 n <? 0 then Panic "negative coin amount" else
          send (add_mark s f t (mark_key hraw) (-1)) t f (one_coin rd (Z.quot r0 n))
          end end end end end
      end
  | OConfirm f t hraw pw _ =>
      let h := to_lower hraw in
      let T := getA s t in
      let rec0 := match a_pool T with Some p => pool_get h p | None => None end in
      (* repaired variant: the password given must be the one of the request *)
      if (match rec0 with Some r => v_pwd v && negb (String.eqb pw (t_pw r)) | None => false end) then Err "wrong password" else
      let rec' := option_map (fun r => tx_conf r true) rec0 in
      do allowC <- match a_set T with
                   | Some st => if s_en st then
                                  match a_cust T with
                                  | None => Panic "nil custodians"
                                  | Some c => if 0 <? map_len c then
                                                match rec' with
                                                | None => rec_missing
                                                | Some r => Ok (s_mode st <=? Z.quot (t_votes r * 100) (map_len c))
                                                end
                                              else Ok true
                                  end
                                else Ok true
                   | None => Ok true end;
      do allowP <- match a_set T with
                   | Some st => if s_pwd st then match rec' with None => rec_missing | Some r => Ok (t_conf r) end else Ok true
                   | None => Ok true end;
      match rec', a_pool T with
      | Some r, Some p =>
          if allowC && allowP then
            do s1 <- send s (t_from r) (t_to r) (t_amt r);
            Ok (store_pool s1 t (pool_del h p))
          else Ok (store_pool s t (pool_set h r p))
      | _, _ => rec_missing
      end
  | OBank sg to amt _ => if negb (coins_ok amt) then Err "invalid coins" else send s sg to amt
  | OMulti sg to amt => if negb (coins_ok amt) then Err "invalid coins" else send s sg to amt
  | ORotate a nw ok =>
      if negb ok || (a =? nw) then Err "rotation refused" else
      let A := getA s a in
      let B := getA s nw in
      let mv {X} (x y : option X) : option X := match x with Some _ => x | None => y end in
      (* the balance is sent as one SendCoins (skipped when empty); a custody record that exists is
         dropped at [a] and stored at [nw]; vote marks and the FromAddress inside pooled transfers stay *)
      let A' := mkAcct None None None None None [] None in
      (* repaired variant: pending transfers requested by [a] are paid from [nw] *)
      let pl := if v_rot v then option_map (map (fun e => (fst e, if t_from (snd e) =? a
                                                                    then mkTx nw (t_to (snd e)) (t_amt (snd e)) (t_pw (snd e)) (t_rew (snd e)) (t_votes (snd e)) (t_conf (snd e))
                                                                    else snd e))) (a_pool A)
                else a_pool A in
      let B' := mkAcct (mv (a_set A) (a_set B)) (mv (a_cust A) (a_cust B)) (mv (a_wl A) (a_wl B)) (mv (a_lim A) (a_lim B))
                       (mv pl (a_pool B)) (bal_merge (a_bal B) (a_bal A)) (mv (a_stat A) (a_stat B)) in
      Ok (mkSt (accts (setA (setA s a A') nw B')) (if v_rot v then ren_marks a nw (marks s) else marks s))
  end.

(* a transaction of several messages: the decorator looks at every message first (against the state before
   any of them ran), then the handlers run in order; all or nothing *)
Definition ante_all (s : state) (ops : list op) : outcome state :=
  fold_left (fun acc o => do x <- acc; ante x o) ops (Ok s).
Definition handle_all (s : state) (ops : list op) : outcome state :=
  fold_left (fun acc o => do x <- acc; handle x o) ops (Ok s).
Definition step_tx (s : state) (ops : list op) : outcome state := do s1 <- ante_all s ops; handle_all s1 ops.

(* one transaction: the decorator, then the handler; atomically *)
Definition step (s : state) (o : op) : outcome state := do s1 <- ante s o; handle s1 o.
Definition exec (s : state) (o : op) : state := match step s o with Ok s' => s' | _ => s end.
Definition run (s : state) (ops : list op) : state := fold_left exec ops s.

End Model.

Definition init_state (bals : list coins) : state :=
  mkSt (combine (map Z.of_nat (seq 0 (List.length bals))) (map (fun b => with_bal empty_acct b) bals)) [].
