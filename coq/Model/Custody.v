(* C17 -- model of the custody module as the code is: the ante decorator's custody part
   (app/ante/ante.go CustodyDecorator) followed by the sixteen msg-server handlers
   (x/custody/keeper/msg_server.go) and the two bank send paths.  Definitions only.

   Conventions.  Accounts are integers; an account that was never written has no custody records
   and balance 0 (as an unknown address in the store).  Strings that are only ever compared
   (TargetAddress, NextController) are integer codes: -1 = "", -2 = a string that is not a bech32
   address, i >= 0 = the bech32 string of account i.  One coin denomination (the default one).
   Nil-pointer dereferences, index-out-of-range and division by zero of the Go code are [Panic].
   uint64 values are assumed below 2^63 (no wrap-around is modelled; the harness stays there). *)
From Sekai Require Import Base.Prelude.

Record settings := mkSet { s_en : bool; s_mode : Z; s_pwd : bool; s_wl : bool; s_lim : bool; s_key : string; s_next : Z }.
(* key parameters common to the settings messages: [k_old] is the OldKey preimage, [k_new] the next
   key (already a digest), [k_next] NextAddress, [k_tgt] TargetAddress *)
Record kp := mkKp { k_old : string; k_new : string; k_next : Z; k_tgt : Z }.
(* a pooled transfer: MsgSend fields + Votes + Confirmed *)
Record txr := mkTx { t_to : Z; t_amt : Z; t_pw : string; t_rew : list Z; t_votes : Z; t_conf : bool }.
Definition amap := list (Z * bool).            (* map[string]bool keyed by address *)
Definition lmap := list (Z * (Z * string)).    (* map[denom]*CustodyLimit{Amount, Limit} *)
Definition pmap := list (string * txr).        (* map[hash]*TransactionRecord *)
Record acct := mkAcct { a_set : option settings; a_cust : option amap; a_wl : option amap; a_lim : option lmap;
                        a_pool : option pmap; a_bal : Z }.
(* [marks]: the vote store, key (from, target, hash exactly as given in the message), value 1 / -1 *)
Record state := mkSt { accts : list (Z * acct); marks : list (Z * Z * string * Z) }.

Inductive lst := LCust | LWl.
Inductive op :=
| OCreate (sg : Z) (ns : settings) (k : kp)
| ODisable (sg : Z) (k : kp)
| ODrop (sg : Z) (k : kp)
| OAdd (w : lst) (sg : Z) (adds : list Z) (k : kp)
| ORem (w : lst) (sg : Z) (r : Z) (k : kp)
| ODropL (w : lst) (sg : Z) (k : kp)
| OAddLim (sg : Z) (d : Z) (amt : Z) (lim : string) (k : kp)
| ORemLim (sg : Z) (d : Z) (k : kp)
| ODropLim (sg : Z) (k : kp)
| OSend (sg : Z) (to : Z) (amt : Z) (pw : string) (rew : list Z) (h : string)   (* h = hex sha256 of the tx bytes *)
| OApprove (f : Z) (t : Z) (h : string)
| ODecline (f : Z) (t : Z) (h : string)
| OConfirm (f : Z) (t : Z) (h : string) (p : string) (ph : string)               (* p: password given, ph: its digest *)
| OBank (sg : Z) (to : Z) (amt : Z)
| OMulti (sg : Z) (to : Z) (amt : Z).

Definition signer (o : op) : Z :=
  match o with
  | OCreate sg _ _ | ODisable sg _ | ODrop sg _ | OAdd _ sg _ _ | ORem _ sg _ _ | ODropL _ sg _
  | OAddLim sg _ _ _ _ | ORemLim sg _ _ | ODropLim sg _ | OSend sg _ _ _ _ _ | OBank sg _ _ | OMulti sg _ _ => sg
  | OApprove f _ _ | ODecline f _ _ | OConfirm f _ _ _ _ => f
  end.

(* ---------------------------------------------------------------- maps *)
Fixpoint alist_get {V} (k : Z) (l : list (Z * V)) : option V :=
  match l with [] => None | (k', v) :: r => if k =? k' then Some v else alist_get k r end.
(* Go map assignment m[k] = v: replaces, or adds a key *)
Fixpoint map_set {V} (k : Z) (v : V) (l : list (Z * V)) : list (Z * V) :=
  match l with [] => [(k, v)] | (k', v') :: r => if k =? k' then (k, v) :: r else (k', v') :: map_set k v r end.
Definition map_len {V} (l : list (Z * V)) : Z := Z.of_nat (List.length l).
Definition bool_at (k : Z) (l : amap) : bool := match alist_get k l with Some b => b | None => false end.

Fixpoint pool_get (h : string) (l : pmap) : option txr :=
  match l with [] => None | (h', v) :: r => if String.eqb h h' then Some v else pool_get h r end.
Fixpoint pool_set (h : string) (v : txr) (l : pmap) : pmap :=
  match l with [] => [(h, v)] | (h', v') :: r => if String.eqb h h' then (h, v) :: r else (h', v') :: pool_set h v r end.
Definition pool_del (h : string) (l : pmap) : pmap := filter (fun e => negb (String.eqb h (fst e))) l.

Definition mark_eqb (f t : Z) (h : string) (e : Z * Z * string * Z) : bool :=
  match e with (f', t', h', _) => (f =? f') && (t =? t') && String.eqb h h' end.
Definition mark_get (f t : Z) (h : string) (l : list (Z * Z * string * Z)) : option Z :=
  match find (mark_eqb f t h) l with Some (_, _, _, v) => Some v | None => None end.

(* ---------------------------------------------------------------- state access *)
Definition empty_acct : acct := mkAcct None None None None None 0.
Definition getA (s : state) (i : Z) : acct := match alist_get i (accts s) with Some a => a | None => empty_acct end.
Definition setA (s : state) (i : Z) (a : acct) : state := mkSt ((i, a) :: accts s) (marks s).
Definition add_mark (s : state) (f t : Z) (h : string) (v : Z) : state := mkSt (accts s) ((f, t, h, v) :: marks s).

Definition with_set (a : acct) (v : option settings) := mkAcct v (a_cust a) (a_wl a) (a_lim a) (a_pool a) (a_bal a).
Definition with_cust (a : acct) (v : option amap) := mkAcct (a_set a) v (a_wl a) (a_lim a) (a_pool a) (a_bal a).
Definition with_wl (a : acct) (v : option amap) := mkAcct (a_set a) (a_cust a) v (a_lim a) (a_pool a) (a_bal a).
Definition with_lim (a : acct) (v : option lmap) := mkAcct (a_set a) (a_cust a) (a_wl a) v (a_pool a) (a_bal a).
Definition with_pool (a : acct) (v : option pmap) := mkAcct (a_set a) (a_cust a) (a_wl a) (a_lim a) v (a_bal a).
Definition with_bal (a : acct) (v : Z) := mkAcct (a_set a) (a_cust a) (a_wl a) (a_lim a) (a_pool a) v.
Definition lst_of (w : lst) (a : acct) : option amap := match w with LCust => a_cust a | LWl => a_wl a end.
Definition with_lst (w : lst) (a : acct) (v : option amap) : acct := match w with LCust => with_cust a v | LWl => with_wl a v end.

Definition set_enabled (st : settings) (b : bool) := mkSet b (s_mode st) (s_pwd st) (s_wl st) (s_lim st) (s_key st) (s_next st).
Definition set_keys (st : settings) (key : string) (next : Z) := mkSet (s_en st) (s_mode st) (s_pwd st) (s_wl st) (s_lim st) key next.
Definition tx_votes (t : txr) (v : Z) := mkTx (t_to t) (t_amt t) (t_pw t) (t_rew t) v (t_conf t).
Definition tx_conf (t : txr) (b : bool) := mkTx (t_to t) (t_amt t) (t_pw t) (t_rew t) (t_votes t) b.

(* bank SendCoins: fails on insufficient funds; a zero amount is the empty coin set (no-op) *)
Definition send (s : state) (from to amt : Z) : outcome state :=
  let a := getA s from in
  if a_bal a <? amt then Err "insufficient funds" else
  let s1 := setA s from (with_bal a (a_bal a - amt)) in
  let b := getA s1 to in
  Ok (setA s1 to (with_bal b (a_bal b + amt))).

(* AddToCustodyPool: the pool record is stored as it is (a pool whose map became empty is read back
   as a record with an empty map, as observed in the differential run) *)
Definition store_pool (s : state) (t : Z) (p : pmap) : state := setA s t (with_pool (getA s t) (Some p)).

Section Model.
(* sha256 + hex of the OldKey; nothing is assumed about it *)
Variable H : string -> string.
(* network property MinCustodyReward *)
Variable minrew : Z.

(* ---------------------------------------------------------------- ante: CustodyDecorator, one message *)
Definition ante_keyed (st : settings) (k : kp) : outcome unit :=
  if negb (k_tgt k =? -1) && negb (k_tgt k =? s_next st) then Err "wrong target address"
  else if String.eqb (H (k_old k)) (s_key st) then Ok tt else Err "wrong key".

Definition ante_switch (sg : acct) (st : settings) (o : op) : outcome unit :=
  match o with
  | OCreate _ _ k | OAdd _ _ _ k | ORem _ _ _ k | ODropL _ _ k => ante_keyed st k
  (* Type() of these five messages names another message: the type assertion in the arm fails *)
  | OAddLim _ _ _ _ _ | ORemLim _ _ _ | ODropLim _ _ | OApprove _ _ _ | ODecline _ _ _ => Err "invalid type"
  | OSend _ _ _ _ rew _ =>
      match a_cust sg with
      | None => Panic "nil custodians"
      | Some c => match rew with
                  | [] => Err "no reward"
                  | r0 :: _ => if r0 <? minrew * map_len c then Err "too small reward" else Ok tt
                  end
      end
  (* no arm: disable, drop, password confirm, bank messages *)
  | ODisable _ _ | ODrop _ _ | OConfirm _ _ _ _ _ | OBank _ _ _ | OMulti _ _ _ => Ok tt
  end.

Definition ante_bank (sg : acct) (to : Z) : outcome unit :=
  match a_set sg with
  | None => Ok tt
  | Some st =>
      do _ <- (if s_en st then
                 match a_cust sg with
                 | None => Panic "nil custodians"
                 | Some c => if 0 <? map_len c then Err "custody enabled, use custody send" else Ok tt
                 end
               else Ok tt);
      do _ <- (if s_wl st then
                 match a_wl sg with
                 | None => Ok tt
                 | Some w => if bool_at to w then Ok tt else Err "not in whitelist"
                 end
               else Ok tt);
      (* the limit-status record is never written before it is dereferenced *)
      if s_lim st then Panic "nil limit statuses" else Ok tt
  end.

Definition ante (s : state) (o : op) : outcome unit :=
  let sg := getA s (signer o) in
  do _ <- match a_set sg with
          | Some st => if s_en st then ante_switch sg st o else Ok tt
          | None => Ok tt
          end;
  match o with OBank _ to _ => ante_bank sg to | _ => Ok tt end.

(* ---------------------------------------------------------------- handlers *)
Definition resolve (sg : Z) (k : kp) : outcome Z :=
  if k_tgt k =? -1 then Ok sg else if k_tgt k <? 0 then Err "cannot convert target" else Ok (k_tgt k).

(* SetCustodyRecordKey: dereferences the settings record of the (target) account *)
Definition set_key (s : state) (x : Z) (k : kp) : outcome state :=
  match a_set (getA s x) with
  | None => Panic "nil settings"
  | Some st => Ok (setA s x (with_set (getA s x) (Some (set_keys st (k_new k) (k_next k)))))
  end.

Definition rec_missing {A} : outcome A := Panic "nil transaction record".

Definition handle (s : state) (o : op) : outcome state :=
  match o with
  | OCreate sg ns k =>
      Ok (setA s sg (with_set (getA s sg) (Some (set_keys ns (k_new k) (k_next k)))))
  | ODisable sg k =>
      do x <- resolve sg k;
      match a_set (getA s x) with
      | None => Panic "nil settings"
      | Some st => Ok (setA s x (with_set (getA s x) (Some (set_enabled st false))))
      end
  | ODrop sg k =>
      do x <- resolve sg k;
      Ok (setA s x (with_set (getA s x) None))
  | OAdd w sg adds k =>
      do x <- resolve sg k;
      (* a stored record whose map is empty is read back with a nil map: assigning into it panics *)
      match lst_of w (getA s x), adds with
      | Some [], _ :: _ => Panic "assignment to entry in nil map"
      | cur, _ =>
          let cur := match cur with Some l => l | None => [] end in
          let l' := fold_left (fun l z => map_set z true l) adds cur in
          do s1 <- set_key s x k;
          Ok (setA s1 x (with_lst w (getA s1 x) (Some l')))
      end
  | ORem w sg r k =>
      do x <- resolve sg k;
      match lst_of w (getA s x) with
      | None => Err "empty list"
      | Some l => if bool_at r l then
                    do s1 <- set_key s x k;
                    Ok (setA s1 x (with_lst w (getA s1 x) (Some (map_set r false l))))
                  else Err "missing element"
      end
  | ODropL w sg k =>
      do x <- resolve sg k;
      do s1 <- set_key s x k;
      Ok (setA s1 x (with_lst w (getA s1 x) None))
  | OAddLim sg d amt lim k =>
      do x <- resolve sg k;
      match a_lim (getA s x) with
      | Some [] => Panic "assignment to entry in nil map"
      | cur =>
          let cur := match cur with Some l => l | None => [] end in
          do s1 <- set_key s x k;
          Ok (setA s1 x (with_lim (getA s1 x) (Some (map_set d (amt, lim) cur))))
      end
  | ORemLim sg d k =>
      do x <- resolve sg k;
      match a_lim (getA s x) with
      | None => Err "empty limits"
      | Some l => match alist_get d l with
                  | None => Err "missing element"
                  | Some _ => do s1 <- set_key s x k;
                              Ok (setA s1 x (with_lim (getA s1 x) (Some (map_set d (0, ""%string) l))))
                  end
      end
  | ODropLim sg k =>
      do x <- resolve sg k;
      do s1 <- set_key s x k;
      Ok (setA s1 x (with_lim (getA s1 x) None))
  | OSend sg to amt pw rew h =>
      if amt <=? 0 then Err "invalid coins" else
      let a := getA s sg in
      do pooled <- match a_set a with
                   | None => Ok false
                   | Some st => if s_en st then
                                  match a_cust a with
                                  | None => Panic "nil custodians"
                                  | Some c => Ok ((0 <? map_len c) || s_pwd st)
                                  end
                                else Ok (s_pwd st)
                   end;
      (* the pool record is REPLACED by a pool holding only the new transfer *)
      if pooled then Ok (setA s sg (with_pool a (Some [(h, mkTx to amt pw rew 0 false)])))
      else send s sg to amt
  | OApprove f t hraw =>
      match mark_get f t hraw (marks s) with
      | Some _ => Ok s
      | None =>
          let h := to_lower hraw in
          let T := getA s t in
          match a_pool T with None => rec_missing | Some p =>
          match pool_get h p with None => rec_missing | Some tx =>
          match a_cust T with None => Panic "nil custodians" | Some c =>
          let n := map_len c in
          match t_rew tx with [] => Panic "index out of range" | r0 :: _ =>
          if n =? 0 then Panic "division by zero" else
          let rw := Z.quot r0 n in
          let v' := t_votes tx + 1 in
          let allowC := match a_set T with
                        | Some st => if s_en st && (0 <? n) then s_mode st <=? Z.quot (v' * 100) n else true
                        | None => true end in
          let allowP := match a_set T with
                        | Some st => if s_pwd st then t_conf tx else true
                        | None => true end in
          do s1 <- send s t f rw;
          let s2 := add_mark s1 f t hraw 1 in
          if allowC && allowP then
            do s3 <- send s2 t (t_to tx) (t_amt tx);
            Ok (store_pool s3 t (pool_del h p))
          else Ok (store_pool s2 t (pool_set h (tx_votes tx v') p))
          end end end end
      end
  | ODecline f t hraw =>
      match mark_get f t hraw (marks s) with
      | Some _ => Ok s
      | None =>
          let h := to_lower hraw in
          let T := getA s t in
          match a_set T with None => Ok s | Some st =>
          if negb (s_en st) then Ok s else
          match a_cust T with None => Panic "nil custodians" | Some c =>
          let n := map_len c in
          if n =? 0 then Ok s else
          match a_pool T with None => Ok s | Some p =>
          match pool_get h p with None => Ok s | Some tx =>
          match t_rew tx with [] => Panic "index out of range" | r0 :: _ =>
          send (add_mark s f t hraw (-1)) t f (Z.quot r0 n)
          end end end end end
      end
  | OConfirm f t hraw _ _ =>
      let h := to_lower hraw in
      let T := getA s t in
      let rec' := match a_pool T with Some p => option_map (fun r => tx_conf r true) (pool_get h p) | None => None end in
      do allowC <- match a_set T with
                   | Some st => if s_en st then
                                  match a_cust T with
                                  | None => Panic "nil custodians"
                                  | Some c => if 0 <? map_len c then
                                                match rec' with
                                                | None => rec_missing
                                                | Some r => Ok (s_mode st <=? Z.quot (t_votes r * 100) (map_len c))
                                                end
                                              else Ok true
                                  end
                                else Ok true
                   | None => Ok true end;
      do allowP <- match a_set T with
                   | Some st => if s_pwd st then match rec' with None => rec_missing | Some r => Ok (t_conf r) end else Ok true
                   | None => Ok true end;
      match rec', a_pool T with
      | Some r, Some p =>
          if allowC && allowP then
            do s1 <- send s t (t_to r) (t_amt r);
            Ok (store_pool s1 t (pool_del h p))
          else Ok (store_pool s t (pool_set h r p))
      | _, _ => rec_missing
      end
  | OBank sg to amt => if amt <=? 0 then Err "invalid coins" else send s sg to amt
  | OMulti sg to amt => if amt <=? 0 then Err "invalid coins" else send s sg to amt
  end.

(* one transaction: ante, then the handler; atomically *)
Definition step (s : state) (o : op) : outcome state := do _ <- ante s o; handle s o.
Definition exec (s : state) (o : op) : state := match step s o with Ok s' => s' | _ => s end.
Definition run (s : state) (ops : list op) : state := fold_left exec ops s.

End Model.

Definition init_state (bals : list Z) : state :=
  mkSt (combine (map Z.of_nat (seq 0 (List.length bals))) (map (fun b => with_bal empty_acct b) bals)) [].
