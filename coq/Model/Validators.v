(* Validator registry, status machine, consensus-update queues and a ghost consensus validator set.
   Shared by C05 and C15.  Definitions only.

   Modelled code (KiraCore/sekai):
     x/staking/keeper/slash.go            Activate / Inactivate / Pause / Unpause / Jail / Unjail /
                                          HandleValidatorSignature / ResetWholeValidatorRank /
                                          PauseProposalNotApprovedValidators (its effect: Pause of each
                                          non-approving voter) and the removing / reactivating queues
     x/staking/keeper/val_state_change.go ApplyAndReturnValidatorSetUpdates (+ BlockValidatorUpdates panic)
     x/staking/keeper/msg_server.go       ClaimValidator
     x/staking/proposal_handler.go        ApplyUnjailValidatorProposalHandler.Apply
     x/slashing/keeper/activate.go        Activate / Pause / Unpause (owner guards)
     x/slashing/keeper/msg_server.go      Pause guard (len(validators) <= MinValidators || <= 1)
     x/slashing/keeper/infractions.go     HandleValidatorSignature
     x/slashing/keeper/jail.go            Jail (status part)
     x/slashing/keeper/rank.go            ResetWholeValidatorRank
     x/slashing/keeper/hooks.go           AfterValidatorCreated / AfterValidatorJoined
     x/evidence/keeper/infraction.go      HandleEquivocationEvidence
     x/recovery/keeper/msg_server.go      RotateRecoveryAddress (its staking part: RemoveValidator / AddValidator)
     x/staking/genesis.go, module.go      ExportGenesis / InitGenesis;  x/slashing/genesis.go
   and CometBFT v0.37.2 types/validator_set.go updateWithChangeSet (as [apply_updates]).

   Keys: validator addresses and consensus keys are small integers chosen by the harness so that
   integer order = byte order of the addresses (store iteration order). Times are unix NANOSECONDS
   (time.Time); the durations among the settings are whole seconds, as in the network properties.
   A message that returns an error leaves the state unchanged (baseapp runs each transaction on a
   cache that is dropped on error). *)
From Sekai Require Import Base.Prelude Base.Dec.

(* time.Second *)
Definition NS : Z := 1000000000.

Inductive status := SActive | SInactive | SPaused | SJailed.
Definition status_eqb (a b : status) : bool :=
  match a, b with
  | SActive, SActive | SInactive, SInactive | SPaused, SPaused | SJailed, SJailed => true
  | _, _ => false end.
Definition is_active (a : status) : bool := status_eqb a SActive.

(* staking Validator record (ValKey is the map key) *)
Record vrec := mkV { v_status : status; v_rank : Z; v_streak : Z; v_cons : Z }.
(* slashing ValidatorSigningInfo (keyed by consensus address) *)
Record sinfo := mkSI { si_start : Z; si_until : Z; si_conf : Z; si_misch : Z; si_last : Z;
                       si_missed : Z; si_produced : Z }.

(* network properties / consensus params as the code sees them after its int64(...) casts *)
Record config := mkCfg {
  c_mc : Z;          (* MischanceConfidence *)
  c_maxm : Z;        (* MaxMischance *)
  c_rankdec : Z;     (* MischanceRankDecreaseAmount *)
  c_inact_pct : Z;   (* InactiveRankDecreasePercent, scaled by 10^18 *)
  c_minvals : Z;     (* MinValidators *)
  c_downtime : Z;    (* DowntimeInactiveDuration, seconds *)
  c_unjail_max : Z;  (* UnjailMaxTime, seconds *)
  c_ev_age_dur : Z;  (* consensus params Evidence.MaxAgeDuration, seconds *)
  c_ev_age_blocks : Z (* Evidence.MaxAgeNumBlocks *)
}.

(* ---------------------------------------------------------------- finite maps and sets
   association lists / lists kept sorted by key (IAVL prefix iteration order) *)
Fixpoint lookup {A} (k : Z) (l : list (Z * A)) : option A :=
  match l with [] => None | (k', a) :: r => if k =? k' then Some a else lookup k r end.
Fixpoint upd {A} (k : Z) (a : A) (l : list (Z * A)) : list (Z * A) :=
  match l with
  | [] => [(k, a)]
  | (k', a') :: r => if k =? k' then (k, a) :: r
                     else if k <? k' then (k, a) :: (k', a') :: r
                     else (k', a') :: upd k a r end.
Definition del {A} (k : Z) (l : list (Z * A)) : list (Z * A) := filter (fun e => negb (fst e =? k)) l.
Fixpoint smem (x : Z) (l : list Z) : bool :=
  match l with [] => false | y :: r => (x =? y) || smem x r end.
Fixpoint sadd (x : Z) (l : list Z) : list Z :=
  match l with
  | [] => [x]
  | y :: r => if x =? y then l else if x <? y then x :: l else y :: sadd x r end.
Definition sdel (x : Z) (l : list Z) : list Z := filter (fun y => negb (y =? x)) l.

(* ---------------------------------------------------------------- state *)
Record state := mkSt {
  st_vals : list (Z * vrec);   (* 0x00 validators, by validator address *)
  st_pend : list (Z * Z);      (* 0x03 pending queue: validator address -> consensus key *)
  st_rm : list Z;              (* 0x04 removing queue *)
  st_re : list Z;              (* 0x05 reactivating queue *)
  st_cidx : list (Z * Z);      (* 0x02 consensus address -> validator address *)
  st_si : list (Z * sinfo);    (* slashing signing infos by consensus key *)
  st_jail : list (Z * Z);      (* 0x06 jail info: validator address -> jail time *)
  st_pk : list Z;              (* slashing address-pubkey relation (AddPubkey) *)
  st_time : Z; st_height : Z;
  st_cset : list Z;            (* GHOST: the consensus engine's validator set (keys, all power 1) *)
  st_halt : bool               (* GHOST: an end-block result the consensus engine could not apply *)
}.

Definition set_vals s x := mkSt x (st_pend s) (st_rm s) (st_re s) (st_cidx s) (st_si s) (st_jail s) (st_pk s) (st_time s) (st_height s) (st_cset s) (st_halt s).
Definition set_pend s x := mkSt (st_vals s) x (st_rm s) (st_re s) (st_cidx s) (st_si s) (st_jail s) (st_pk s) (st_time s) (st_height s) (st_cset s) (st_halt s).
Definition set_queues s rm re := mkSt (st_vals s) (st_pend s) rm re (st_cidx s) (st_si s) (st_jail s) (st_pk s) (st_time s) (st_height s) (st_cset s) (st_halt s).
Definition set_si s x := mkSt (st_vals s) (st_pend s) (st_rm s) (st_re s) (st_cidx s) x (st_jail s) (st_pk s) (st_time s) (st_height s) (st_cset s) (st_halt s).
Definition set_jail s x := mkSt (st_vals s) (st_pend s) (st_rm s) (st_re s) (st_cidx s) (st_si s) x (st_pk s) (st_time s) (st_height s) (st_cset s) (st_halt s).
Definition set_clock s t h := mkSt (st_vals s) (st_pend s) (st_rm s) (st_re s) (st_cidx s) (st_si s) (st_jail s) (st_pk s) t h (st_cset s) (st_halt s).
Definition set_cons s c h := mkSt (st_vals s) (st_pend s) (st_rm s) (st_re s) (st_cidx s) (st_si s) (st_jail s) (st_pk s) (st_time s) (st_height s) c h.

(* keeper.AddValidator: the record and the consensus-address index are both written *)
Definition add_validator (s : state) (v : Z) (r : vrec) : state :=
  mkSt (upd v r (st_vals s)) (st_pend s) (st_rm s) (st_re s) (upd (v_cons r) v (st_cidx s)) (st_si s)
       (st_jail s) (st_pk s) (st_time s) (st_height s) (st_cset s) (st_halt s).
Definition with_status (r : vrec) (st : status) : vrec := mkV st (v_rank r) (v_streak r) (v_cons r).

(* keeper.GetValidatorByConsAddr *)
Definition by_cons (s : state) (k : Z) : option (Z * vrec) :=
  match lookup k (st_cidx s) with
  | None => None
  | Some v => match lookup v (st_vals s) with None => None | Some r => Some (v, r) end
  end.

(* ---------------------------------------------------------------- staking keeper (slash.go) *)
(* Activate / Unpause: status Active, reactivating += v, removing -= v *)
Definition sk_reactivate (s : state) (v : Z) (r : vrec) : state :=
  let s1 := add_validator s v (with_status r SActive) in
  set_queues s1 (sdel v (st_rm s1)) (sadd v (st_re s1)).
(* Pause / Jail: status st, removing += v, reactivating -= v *)
Definition sk_deactivate (s : state) (v : Z) (r : vrec) : state :=
  let s1 := add_validator s v r in
  set_queues s1 (sadd v (st_rm s1)) (sdel v (st_re s1)).

(* keeper.Pause (no guard except "inactive") *)
Definition sk_pause (s : state) (v : Z) : state :=
  match lookup v (st_vals s) with
  | None => s
  | Some r => if status_eqb (v_status r) SInactive then s else sk_deactivate s v (with_status r SPaused)
  end.
(* keeper.Jail *)
Definition sk_jail (s : state) (v : Z) : state :=
  match lookup v (st_vals s) with
  | None => s
  | Some r => set_jail (sk_deactivate s v (with_status r SJailed)) (upd v (st_time s) (st_jail s))
  end.
(* NewDec(rank).Mul(1 - pct).RoundInt64() *)
Definition inact_rank (rank pct : Z) : Z := round_int (chop_round (dec_of_int rank * (PREC - pct))).
(* keeper.Inactivate *)
Definition sk_inactivate (cfg : config) (s : state) (v : Z) : state :=
  match lookup v (st_vals s) with
  | None => s
  | Some r => if status_eqb (v_status r) SPaused then s
              else sk_deactivate s v (mkV SInactive (inact_rank (v_rank r) (c_inact_pct cfg)) 0 (v_cons r))
  end.
(* keeper.HandleValidatorSignature (rank / streak) *)
Definition sk_signature (cfg : config) (s : state) (v : Z) (missed : bool) (mischance : Z) : state :=
  match lookup v (st_vals s) with
  | None => s
  | Some r =>
      let r' := if missed then
                  (if 0 <? mischance then
                     let rk := v_rank r - c_rankdec cfg in
                     mkV (v_status r) (if rk <? 0 then 0 else rk) 0 (v_cons r)
                   else r)
                else let st := v_streak r + 1 in
                     mkV (v_status r) (if v_rank r <? st then st else v_rank r) st (v_cons r) in
      add_validator s v r'
  end.

(* ---------------------------------------------------------------- operations *)
Inductive op :=
| OClaim (v k : Z) (perm : bool)          (* MsgClaimValidator; perm = sender holds PermClaimValidator *)
| OPause (v : Z) | OUnpause (v : Z) | OActivate (v : Z)   (* slashing msg server, signer = v *)
| OVotes (vs : list (Z * bool))           (* slashing BeginBlocker: (consensus key, signed) *)
| OEvidence (es : list (Z * Z * Z))       (* evidence BeginBlocker: (consensus key, infraction height, infraction time) *)
| OUnjail (v : Z)                         (* passed unjail proposal: handler Apply *)
| OReset                                  (* passed rank-reset proposal: handler Apply *)
| OUpPause (vs : list Z)                  (* upgrade plan: PauseProposalNotApprovedValidators, vs = non-approving voters *)
| ONewBlock (dt : Z)                      (* next block: height + 1, time + dt nanoseconds *)
| OEndBlock                               (* staking EndBlocker *)
| ORotate (v v' : Z)                      (* recovery MsgRotateRecoveryAddress (accepted): validator record moves to address v' *)
| OGenesis (over : list (Z * sinfo))      (* staking + slashing ExportGenesis, then InitGenesis into an empty store (InitChain);
                                             over = signing infos edited in the exported genesis file before the import *)
| OUpgrade                                (* second BeginBlock of a due upgrade plan whose non-approving voters were paused in the
                                             block before (ProcessedNoVoteValidators): the plan becomes current; no validator is touched *)
| OSetProp (which value : Z) (accepted : bool).
                                          (* passed SetNetworkProperty proposal (handler Apply) for 0 MischanceConfidence, 1 MaxMischance,
                                             2 MischanceRankDecreaseAmount, 3 DowntimeInactiveDuration, 4 UnjailMaxTime, 5 MinValidators; accepted = what the
                                             gov module's validation (C19) answered.  The settings are not part of [state]: see [next_cfg]. *)

Inductive res := ROk | RRej | RPanic.
Definition res_eqb (a b : res) : bool :=
  match a, b with ROk, ROk | RRej, RRej | RPanic, RPanic => true | _, _ => false end.

(* --- slashing HandleValidatorSignature for one vote; None = panic *)
Definition vote1 (cfg : config) (s : state) (x : Z * bool) : option state :=
  let '(k, signed) := x in
  if negb (smem k (st_pk s)) then None else
  match by_cons s k with
  | None => None
  | Some (v, r) =>
    if negb (is_active (v_status r)) then Some s else
    match lookup k (st_si s) with
    | None => None
    | Some i =>
      let missed := negb signed in
      let i1 := if missed then
                  (if c_mc cfg <=? si_conf i
                   then mkSI (si_start i) (si_until i) (si_conf i) (si_misch i + 1) (si_last i) (si_missed i + 1) (si_produced i)
                   else mkSI (si_start i) (si_until i) (si_conf i + 1) (si_misch i) (si_last i) (si_missed i + 1) (si_produced i))
                else mkSI (si_start i) (si_until i) 0 0 (st_height s) (si_missed i) (si_produced i + 1) in
      let s1 := sk_signature cfg s v missed (si_misch i1) in
      if c_maxm cfg <? si_misch i1 then
        let s2 := sk_inactivate cfg s1 v in
        Some (set_si s2 (upd k (mkSI (si_start i1) (st_time s + c_downtime cfg * NS) (si_conf i1) (si_misch i1) (si_last i1) (si_missed i1) (si_produced i1)) (st_si s2)))
      else Some (set_si s1 (upd k i1 (st_si s1)))
    end
  end.
Fixpoint votes (cfg : config) (s : state) (vs : list (Z * bool)) : option state :=
  match vs with [] => Some s | x :: r => match vote1 cfg s x with None => None | Some s' => votes cfg s' r end end.

(* --- evidence HandleEquivocationEvidence for one piece of evidence; None = panic *)
Definition evid_too_old (cfg : config) (s : state) (ih it : Z) : bool :=
  (c_ev_age_dur cfg * NS <? st_time s - it) && (c_ev_age_blocks cfg <? st_height s - ih).
Definition evid1 (cfg : config) (s : state) (e : Z * Z * Z) : option state :=
  let '(k, ih, it) := e in
  if negb (smem k (st_pk s)) then Some s else
  if evid_too_old cfg s ih it then Some s else
  match by_cons s k with
  | None => Some s
  | Some (v, r) =>
    match lookup k (st_si s) with
    | None => None
    | Some _ =>
      let s1 := if status_eqb (v_status r) SJailed then s else sk_jail s v in
      (* JailUntil(consAddr, blockTime) *)
      match lookup k (st_si s1) with
      | None => None
      | Some i => Some (set_si s1 (upd k (mkSI (si_start i) (st_time s) (si_conf i) (si_misch i) (si_last i) (si_missed i) (si_produced i)) (st_si s1)))
      end
    end
  end.
Fixpoint evidences (cfg : config) (s : state) (es : list (Z * Z * Z)) : option state :=
  match es with [] => Some s | x :: r => match evid1 cfg s x with None => None | Some s' => evidences cfg s' r end end.

(* --- ResetWholeValidatorRank (slashing then staking) *)
Definition reset_si (h : Z) (i : sinfo) : sinfo := mkSI h 0 0 0 (si_last i) 0 0.
Definition reset_all (s : state) : state :=
  let s1 := set_si s (map (fun e => (fst e, reset_si (st_height s) (snd e))) (st_si s)) in
  fold_left (fun a e => add_validator a (fst e) (mkV SActive 0 0 (v_cons (snd e)))) (st_vals s1) s1.

(* --- CometBFT ValidatorSet.UpdateWithChangeSet on a set in which every power is 1 *)
Fixpoint has_dup (l : list Z) : bool :=
  match l with [] => false | x :: r => smem x r || has_dup r end.
Definition apply_updates (cs : list Z) (ups : list (Z * Z)) : option (list Z) :=
  match ups with
  | [] => Some cs
  | _ =>
    if has_dup (map fst ups) then None                              (* duplicate entry *)
    else if existsb (fun u => snd u <? 0) ups then None              (* negative power *)
    else
      let dels := map fst (filter (fun u => snd u =? 0) ups) in
      let upds := map fst (filter (fun u => 0 <? snd u) ups) in
      let num_new := List.length (filter (fun k => negb (smem k cs)) upds) in
      if Nat.eqb num_new 0 && Nat.eqb (List.length cs) (List.length dels) then None      (* would result in empty set *)
      else if negb (forallb (fun k => smem k cs) dels) then None     (* failed to find validator to remove *)
      else Some (fold_left (fun a k => sdel k a) dels (fold_left (fun a k => sadd k a) upds cs))
  end.

(* --- staking EndBlocker: ApplyAndReturnValidatorSetUpdates; None = "validator not found" => panic *)
Definition new_sinfo (h : Z) : sinfo := mkSI h 0 0 0 0 0 0.
Definition join_pending (s : state) (e : Z * Z) : state :=
  let '(v, k) := e in
  let s1 := add_validator s v (mkV SActive 0 0 k) in
  mkSt (st_vals s1) (st_pend s1) (st_rm s1) (st_re s1) (st_cidx s1)
       (match lookup k (st_si s1) with Some _ => st_si s1 | None => upd k (new_sinfo (st_height s1)) (st_si s1) end)
       (st_jail s1) (sadd k (st_pk s1)) (st_time s1) (st_height s1) (st_cset s1) (st_halt s1).
Definition queue_updates (s : state) (q : list Z) (power : Z) : option (list (Z * Z)) :=
  fold_right (fun v acc => match acc, lookup v (st_vals s) with
                           | Some l, Some r => Some ((v_cons r, power) :: l)
                           | _, _ => None end) (Some []) q.
Definition end_block_updates (s : state) : option (list (Z * Z)) :=
  let s1 := fold_left join_pending (st_pend s) s in
  match queue_updates s1 (st_rm s) 0, queue_updates s1 (st_re s) 1 with
  | Some a, Some b => Some (map (fun e => (snd e, 1)) (st_pend s) ++ a ++ b)
  | _, _ => None
  end.
Definition end_block (s : state) : state * res * list (Z * Z) :=
  match end_block_updates s with
  | None => (set_cons s (st_cset s) true, RPanic, [])
  | Some ups =>
    let s1 := fold_left join_pending (st_pend s) s in
    let s2 := set_queues (set_pend s1 []) [] [] in
    match apply_updates (st_cset s) ups with
    | Some c => (set_cons s2 c (st_halt s), ROk, ups)
    | None => (set_cons s2 (st_cset s) true, ROk, ups)
    end
  end.

(* --- export + import: only the validator records (staking) and the signing infos (slashing) survive;
   InitGenesis returns power 1 for every ACTIVE record and that list IS the new consensus set;
   the SDK module manager panics when it is empty *)
Definition genesis_updates (s : state) : list (Z * Z) :=
  map (fun e : Z * vrec => (v_cons (snd e), 1)) (filter (fun e : Z * vrec => is_active (v_status (snd e))) (st_vals s)).
Definition genesis_import (over : list (Z * sinfo)) (s : state) : state * res :=
  let ups := genesis_updates s in
  let base := mkSt (st_vals s) [] [] []
                   (fold_left (fun a (e : Z * vrec) => upd (v_cons (snd e)) (fst e) a) (st_vals s) [])
                   (fold_left (fun a (e : Z * sinfo) => upd (fst e) (snd e) a) over (st_si s)) []
                   (fold_left (fun a (e : Z * vrec) => sadd (v_cons (snd e)) a) (st_vals s) [])
                   (st_time s) (st_height s) [] (st_halt s) in
  match ups with
  | [] => (set_cons s [] true, RPanic)            (* InitChain panics: there is no new chain *)
  | _ => match apply_updates [] ups with
         | Some c => (set_cons base c (st_halt s), ROk)
         | None => (set_cons base [] true, ROk)
         end
  end.

(* ---------------------------------------------------------------- the step function *)
Definition step (cfg : config) (s : state) (o : op) : state * res :=
  match o with
  | OClaim v k perm =>
      if negb perm then (s, RRej) else
      match lookup v (st_vals s) with
      | Some _ => (s, RRej)                                      (* ErrValidatorAlreadyClaimed *)
      | None => (set_pend s (upd v k (st_pend s)), ROk)
      end
  | OPause v =>
      let n := Z.of_nat (List.length (st_vals s)) in
      if (n <=? c_minvals cfg) || (n <=? 1) then (s, RRej) else
      match lookup v (st_vals s) with
      | None => (s, RRej)
      | Some r => if is_active (v_status r) then (sk_pause s v, ROk) else (s, RRej)
      end
  | OUnpause v =>
      match lookup v (st_vals s) with
      | None => (s, RRej)
      | Some r => if status_eqb (v_status r) SPaused then (sk_reactivate s v r, ROk) else (s, RRej)
      end
  | OActivate v =>
      match lookup v (st_vals s) with
      | None => (s, RRej)
      | Some r =>
          if negb (status_eqb (v_status r) SInactive) then (s, RRej) else
          let s1 := sk_reactivate s v r in
          match lookup (v_cons r) (st_si s1) with
          | None => (s1, ROk)
          | Some i => if st_time s <? si_until i then (s, RRej)
                      else (set_si s1 (upd (v_cons r) (mkSI (si_start i) (si_until i) 0 0 (si_last i) (si_missed i) (si_produced i)) (st_si s1)), ROk)
          end
      end
  | OVotes vs => match votes cfg s vs with Some s' => (s', ROk) | None => (s, RPanic) end
  | OEvidence es => match evidences cfg s es with Some s' => (s', ROk) | None => (s, RPanic) end
  | OUnjail v =>
      match lookup v (st_vals s) with
      | None => (s, RRej)
      | Some r =>
          if negb (status_eqb (v_status r) SJailed) then (s, RRej) else
          match lookup v (st_jail s) with
          | None => (s, RRej)
          | Some jt => if jt + c_unjail_max cfg * NS <? st_time s then (s, RRej)
                       else (set_jail (add_validator s v (with_status r SInactive)) (del v (st_jail s)), ROk)
          end
      end
  | OReset => (reset_all s, ROk)
  | OUpPause vs => (fold_left sk_pause vs s, ROk)
  | ONewBlock dt => (set_clock s (st_time s + dt) (st_height s + 1), ROk)
  | OEndBlock => let '(s', r, _) := end_block s in (s', r)
  | ORotate v v' =>
      match lookup v (st_vals s) with
      | None => (s, ROk)
      | Some r => (* RemoveValidator (record and index entry), then AddValidator under the new address;
                     queues, jail info are keyed by the old address and are left alone *)
          (mkSt (upd v' r (del v (st_vals s))) (st_pend s) (st_rm s) (st_re s) (upd (v_cons r) v' (del (v_cons r) (st_cidx s)))
                (st_si s) (st_jail s) (st_pk s) (st_time s) (st_height s) (st_cset s) (st_halt s), ROk)
      end
  | OGenesis over => genesis_import over s
  | OUpgrade => (s, ROk)
  | OSetProp _ _ accepted => (s, if accepted then ROk else RRej)
  end.

(* the settings in force after an operation *)
Definition next_cfg (cfg : config) (o : op) : config :=
  match o with
  | OSetProp w x true =>
      mkCfg (if w =? 0 then x else c_mc cfg) (if w =? 1 then x else c_maxm cfg) (if w =? 2 then x else c_rankdec cfg)
            (c_inact_pct cfg) (if w =? 5 then x else c_minvals cfg) (if w =? 3 then x else c_downtime cfg) (if w =? 4 then x else c_unjail_max cfg)
            (c_ev_age_dur cfg) (c_ev_age_blocks cfg)
  | _ => cfg
  end.

Fixpoint run (cfg : config) (s : state) (ops : list op) : state :=
  match ops with [] => s | o :: r => run (next_cfg cfg o) (fst (step cfg s o)) r end.
Fixpoint cfg_after (cfg : config) (ops : list op) : config :=
  match ops with [] => cfg | o :: r => cfg_after (next_cfg cfg o) r end.

(* validators the application records as active, by consensus key *)
Definition active_keys (s : state) : list Z :=
  fold_left (fun a e => if is_active (v_status (snd e)) then sadd (v_cons (snd e)) a else a) (st_vals s) [].
