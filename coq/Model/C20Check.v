(* C20: (1) observation type, (2) correspondence: the model of Model/Layer2.v against what the real
   msg server / EndBlocker / keeper did, (3) the decidable spec checker, written from the property
   text, applied to the REAL observations (it never calls the model's step functions). *)
From Sekai Require Import Base.Prelude Base.Dec Model.Layer2.

(* what the harness reads back after every operation *)
Record obs := mkObs {
  o_ok : bool;
  o_dapps : list (string * Z * Z);                 (* name, status, TotalBond -- store order *)
  o_bonds : list (string * string * Z);            (* dApp, user, amount *)
  o_mod : Z;                                       (* ukex held by the layer2 module account *)
  o_bals : list Z;                                 (* ukex of every user of the table *)
  o_lp : list (string * Z * Z * Z * list Z) }.     (* LP denom, supply, module, spending module, users *)

Inductive c20_case : Type := CHist (c : config) (init : list Z) (steps : list (op * obs)).

Fixpoint list_eqb {A} (e : A -> A -> bool) (l m : list A) : bool :=
  match l, m with [], [] => true | x :: l', y :: m' => (e x y && list_eqb e l' m')%bool | _, _ => false end.

(* ================================================================ (2) model vs. observation *)
Section Corr.
Variable v : variant.
Variable users : list string.
Variable t0 : Z.          (* unix time of the first block of every history *)

Definition init_state (init : list Z) : state :=
  (* the harness funds every user with the same amount of ukex and of the token "foreign" *)
  mkState t0 [] [] (map (fun p => (fst p, UKEX, snd p)) (combine users init) ++ map (fun p => (fst p, "foreign"%string, snd p)) (combine users init)).

Definition dobs_eqb (a b : string * Z * Z) : bool :=
  (String.eqb (fst (fst a)) (fst (fst b)) && (snd (fst a) =? snd (fst b)) && (snd a =? snd b))%bool.

Definition snap_ok (st : state) (o : obs) : bool :=
  (list_eqb dobs_eqb (map (fun d => (d_name d, d_status d, d_total d)) (dapps st)) (o_dapps o)
   && Nat.eqb (List.length (bonds st)) (List.length (o_bonds o))
   && forallb (fun e => has_bond (fst (fst e)) (snd (fst e)) (bonds st)
                        && (bond_amt (fst (fst e)) (snd (fst e)) (bonds st) =? snd e)) (o_bonds o)
   && (bal MOD UKEX (led st) =? o_mod o)
   && list_eqb Z.eqb (map (fun u => bal u UKEX (led st)) users) (o_bals o)
   && forallb (fun e => match e with (den, sup, m, sp, us) =>
                 (bal SUPPLY den (led st) =? sup) && (bal MOD den (led st) =? m) && (bal SPEND den (led st) =? sp)
                 && list_eqb Z.eqb (map (fun u => bal u den (led st)) users) us end) (o_lp o))%bool.

Fixpoint first_bad (c : config) (st : state) (steps : list (op * obs)) (n : nat) : option nat :=
  match steps with
  | [] => None
  | (o, ob) :: r =>
      let st' := apply v c st o in
      (* an accepted upsert must have stored the pool fee the handler is expected to store *)
      let fee_ok := match o with
                    | OUpsert nm _ _ _ p _ _ _ fa =>
                        match get_dapp nm st with Some d => negb (o_ok ob) || (upsert_fee v d p =? fa) | None => true end
                    | _ => true end in
      if (Bool.eqb (is_ok (step v c st o)) (o_ok ob) && snap_ok st' ob && fee_ok)%bool then first_bad (cfg_after c o) st' r (S n) else Some n
  end.
Definition case_first_bad (cs : c20_case) : option nat :=
  match cs with CHist c init steps => first_bad c (init_state init) steps 0 end.

Fixpoint mismatches_from (n : nat) (cs : list c20_case) : list nat :=
  match cs with
  | [] => []
  | c :: r => match case_first_bad c with None => mismatches_from (S n) r | Some _ => n :: mismatches_from (S n) r end
  end.
Definition c20_mismatches (cs : list c20_case) : list nat := mismatches_from 0 cs.
(* debugging aid: (case, first diverging step) *)
Definition c20_mismatch_steps (cs : list c20_case) : list (option nat) := map case_first_bad cs.
End Corr.

(* ================================================================ (3) the property, on real observations *)
Section Spec.
Variable users : list string.

Fixpoint uidx_from (u : string) (l : list string) (n : nat) : option nat :=
  match l with [] => None | x :: r => if String.eqb u x then Some n else uidx_from u r (S n) end.
Definition uidx (u : string) : option nat := uidx_from u users 0.

Definition obal (o : obs) (i : nat) : Z := nth i (o_bals o) 0.
(* the bond of a PERSON (the account [u], i.e. the decoded address): every record of dApp d whose user field spells u,
   in whatever case *)
Definition obond (o : obs) (d u : string) : Z :=
  zsum (map snd (filter (fun e => (String.eqb (fst (fst e)) d && String.eqb (acct (snd (fst e))) u)%bool) (o_bonds o))).
Definition obonds_of (o : obs) (d : string) : list (string * string * Z) :=
  filter (fun e => String.eqb (fst (fst e)) d) (o_bonds o).
Definition odapp (o : obs) (n : string) : option (Z * Z) :=
  match find (fun e => String.eqb (fst (fst e)) n) (o_dapps o) with Some e => Some (snd (fst e), snd e) | None => None end.

Definition empty_obs (init : list Z) : obs := mkObs true [] [] 0 init [].

Record ghost := mkGhost {
  g_now : Z;
  g_ctime : list (string * Z);        (* creation time of every accepted proposal (latest incarnation first) *)
  g_prev : obs;
  g_net : list (string * Z);          (* per user: ukex received minus paid over the accepted LP messages *)
  g_mx : Z }.                         (* the largest maximum dApp bond in force so far *)

Definition ctime_of (g : ghost) (n : string) : Z :=
  match find (fun e => String.eqb (fst e) n) (g_ctime g) with Some e => snd e | None => 0 end.
Definition net_of (g : ghost) (u : string) : Z :=
  match find (fun e => String.eqb (fst e) u) (g_net g) with Some e => snd e | None => 0 end.

Definition same_state (a b : obs) : bool :=
  (list_eqb (dobs_eqb) (o_dapps a) (o_dapps b)
   && list_eqb (fun x y => (String.eqb (fst (fst x)) (fst (fst y)) && String.eqb (snd (fst x)) (snd (fst y)) && (snd x =? snd y))%bool)
               (o_bonds a) (o_bonds b)
   && (o_mod a =? o_mod b) && list_eqb Z.eqb (o_bals a) (o_bals b))%bool.

Definition cl (name : string) (ok : bool) : list string := if ok then [] else [name].

(* every other user's balance and every other bond record is untouched *)
Definition frame_ok (prev o : obs) (i : nat) (n u : string) : bool :=
  (forallb (fun j => Nat.eqb j i || (obal prev j =? obal o j)) (seq 0 (List.length users))
   && forallb (fun e => (String.eqb (fst (fst e)) n && String.eqb (acct (snd (fst e))) u)
                        || (obond prev (fst (fst e)) (acct (snd (fst e))) =? obond o (fst (fst e)) (acct (snd (fst e)))))
              (o_bonds prev ++ o_bonds o))%bool.

(* clauses that must hold in every observed state:
   total-sum: a bootstrapping dApp's total bond is the sum of its user bonds;
   max:       ... and does not exceed the maximum dApp bond ([mx]: the largest maximum in force so far in the
              history; an accepted create / bond is also compared with the maximum in force at that moment);
   held:      the recorded bonds of all dApps are held by the module account *)
Definition state_clauses (mx : Z) (o : obs) : list string :=
  cl "total-sum" (forallb (fun e => negb (snd (fst e) =? 0) || (snd e =? zsum (map snd (obonds_of o (fst (fst e)))))) (o_dapps o))
  ++ cl "max" (forallb (fun e => negb (snd (fst e) =? 0) || (snd e <=? mx)) (o_dapps o))
  ++ cl "held" (zsum (map snd (o_dapps o)) <=? o_mod o).

(* user message (create / bond / reclaim) of user u on dApp n *)
Definition user_clauses (g : ghost) (o : obs) (u0 n : string) : list string :=
  let prev := g_prev g in
  let u := acct u0 in          (* the person, whatever the spelling of the sender field *)
  if o_ok o then
    match uidx u with
    | None => ["user"%string]
    | Some i =>
        (* escrow: what left the user's account is what was added to the user's recorded bond *)
        cl "escrow" (obal prev i - obal o i =? obond o n u - obond prev n u)
        ++ cl "frame" (frame_ok prev o i n u)
    end
  else cl "reject" (same_state prev o).

(* end of block at time t: every bootstrapping dApp whose period is over and whose total is below the
   minimum must be gone, its records gone, and every bonder paid exactly the recorded bond *)
Definition due (c : config) (g : ghost) (t : Z) : list string :=
  map (fun e => fst (fst e))
      (filter (fun e => (snd (fst e) =? 0) && (ctime_of g (fst (fst e)) + c_duration c <=? t) && (snd e <? min_thr c))%bool
              (o_dapps (g_prev g))).
Definition tick_clauses (c : config) (g : ghost) (o : obs) (t : Z) : list string :=
  let prev := g_prev g in
  let ds := due c g t in
  cl "refund" (forallb (fun n => match odapp o n with None => true | Some _ => false end) ds
               && forallb (fun n => match obonds_of o n with [] => true | _ => false end) ds
               && forallb (fun i => obal o i - obal prev i =? zsum (map (fun n => obond prev n (nth i users ""%string)) ds))
                          (seq 0 (List.length users)))%bool.

Definition z_str (z : Z) : string := z_to_string z.

(* ---- clauses on every accepted step, message level or keeper level *)
Definition otot (o : obs) (n : string) : Z := match odapp o n with Some p => snd p | None => 0 end.
Definition lp_entry := (string * Z * Z * Z * list Z)%type.
Definition lp_den (e : lp_entry) : string := fst (fst (fst (fst e))).
Definition lp_sup (e : lp_entry) : Z := snd (fst (fst (fst e))).
Definition lp_held (e : lp_entry) : Z := snd (fst (fst e)) + snd (fst e) + zsum (snd e).
Definition lp_user (e : lp_entry) (i : nat) : Z := nth i (snd e) 0.
Definition olp (o : obs) (den : string) : lp_entry :=
  match find (fun e => String.eqb (lp_den e) den) (o_lp o) with Some e => e | None => (den, 0, 0, 0, []) end.
(* pool-native: the recorded pool bonds of all dApps move exactly by the ukex that entered / left the module;
   lp-supply:  the LP supply moves exactly by what was minted into / burnt out of the holders' balances *)
(* lp-mint: LP tokens come into existence only when the end-of-block job launches a dApp ([mints] = the step is a
   block); whoever redeems can then only redeem LP that a launch issued or a swap handed out of the module's stock.
   [gift]: the step may pay a fee INTO the module (mint-issue of a fee-bearing token without owner) *)
Definition flow_clauses (mints gift : bool) (prev o : obs) : list string :=
  cl "pool-native" (if gift then zsum (map snd (o_dapps o)) - zsum (map snd (o_dapps prev)) <=? o_mod o - o_mod prev
                    else zsum (map snd (o_dapps o)) - zsum (map snd (o_dapps prev)) =? o_mod o - o_mod prev)
  ++ cl "lp-mint" (mints || forallb (fun e => negb (String.prefix "lp/" (lp_den e)) || (lp_sup e <=? lp_sup (olp prev (lp_den e)))) (o_lp o))
  ++ cl "lp-supply" (forallb (fun e => lp_sup e - lp_sup (olp prev (lp_den e)) =? lp_held e - lp_held (olp prev (lp_den e))) (o_lp o)).

(* keeper-level swap / redeem / convert of user u on dApps n (and n2) *)
Definition kframe_ok (prev o : obs) (i : nat) (n n2 : string) : bool :=
  (forallb (fun j => Nat.eqb j i || (obal prev j =? obal o j)) (seq 0 (List.length users))
   && list_eqb (fun x y => (String.eqb (fst (fst x)) (fst (fst y)) && String.eqb (snd (fst x)) (snd (fst y)) && (snd x =? snd y))%bool)
               (o_bonds prev) (o_bonds o)
   && Nat.eqb (List.length (o_dapps prev)) (List.length (o_dapps o))
   && forallb (fun e => String.eqb (fst (fst e)) n || String.eqb (fst (fst e)) n2
                        || match odapp prev (fst (fst e)) with Some p => (fst p =? snd (fst e)) && (snd p =? snd e) | None => false end)
              (o_dapps o))%bool.
Definition keeper_clauses (c : config) (prev ob : obs) (o : op) : list string :=
  match o with
  | KSwap u n _ b _ =>
      if o_ok ob then
        match uidx (acct u) with None => ["user"%string] | Some i =>
          cl "frame" (kframe_ok prev ob i n n)
          (* the pool bond grows by exactly what the user paid *)
          ++ cl "pool-native" ((otot ob n - otot prev n =? b) && (obal prev i - obal ob i =? b))
          (* the LP handed out is the exact amount S*b/(T+b) rounded up: less than one unit above it; supply only shrinks *)
          ++ cl "nofree-step" (forallb (fun e => let out := lp_user e i - lp_user (olp prev (lp_den e)) i in
                                          (out <=? 0) || (out * (otot prev n + b) <? lp_sup (olp prev (lp_den e)) * b + (otot prev n + b))) (o_lp ob)
                               && forallb (fun e => lp_sup e <=? lp_sup (olp prev (lp_den e))) (o_lp ob))
        end
      else cl "reject" (same_state prev ob)
  | KRedeem u n den x _ =>
      if o_ok ob then
        match uidx (acct u) with None => ["user"%string] | Some i =>
          let r := obal ob i - obal prev i in
          cl "frame" (kframe_ok prev ob i n n)
          (* the pool bond falls by at least what the user received, the user returned exactly x LP *)
          ++ cl "pool-native" ((r <=? otot prev n - otot ob n) && (0 <=? r) && (lp_user (olp prev den) i - lp_user (olp ob den) i =? x))
          (* the payout is the exact amount T*x/(S+x) rounded up: less than one unit above it *)
          ++ cl "nofree-step" ((r * (lp_sup (olp prev den) + x) <? otot prev n * x + (lp_sup (olp prev den) + x))
                               && forallb (fun e => lp_sup e <=? lp_sup (olp prev (lp_den e))) (o_lp ob))
        end
      else cl "reject" (same_state prev ob)
  | KConvert u n n2 den x =>
      if o_ok ob then
        match uidx (acct u) with None => ["user"%string] | Some i =>
          cl "frame" (kframe_ok prev ob i n n2)
          (* a conversion neither pays ukex to the user nor takes any; it consumes exactly x LP of the source *)
          ++ cl "pool-native" ((obal ob i =? obal prev i) && (String.eqb n n2 || (lp_user (olp prev den) i - lp_user (olp ob den) i =? x)))
          ++ cl "nofree-step" (forallb (fun e => lp_sup e <=? lp_sup (olp prev (lp_den e))) (o_lp ob))
        end
      else cl "reject" (same_state prev ob)
  | _ => []
  end.

(* messages that must not touch bonds, user ukex (except the sender's own payment) or the module's ukex *)
Definition same_money (a b : obs) (except : option nat) : bool :=
  (list_eqb (fun x y => (String.eqb (fst (fst x)) (fst (fst y)) && String.eqb (snd (fst x)) (snd (fst y)) && (snd x =? snd y))%bool)
            (o_bonds a) (o_bonds b)
   && (o_mod a =? o_mod b)
   && forallb (fun j => match except with Some i => Nat.eqb j i | None => false end || (obal a j =? obal b j)) (seq 0 (List.length users)))%bool.
Definition other_clauses (prev ob : obs) (o : op) : list string :=
  if negb (o_ok ob) then cl "reject" (same_state prev ob) else
  match o with
  | OSetCfg _ => cl "frame" (same_state prev ob)
  | OBurnTx u den amt _ =>
      match uidx (acct u) with None => ["user"%string] | Some i =>
        cl "frame" (same_money prev ob (Some i) && list_eqb dobs_eqb (o_dapps prev) (o_dapps ob))
        (* the sender loses exactly what is burnt, of that denomination *)
        ++ cl "burn" (if String.eqb den UKEX then obal prev i - obal ob i =? amt
                      else (obal prev i =? obal ob i) && (lp_user (olp prev den) i - lp_user (olp ob den) i =? amt)
                           && (lp_sup (olp prev den) - lp_sup (olp ob den) =? amt)) end
  | OMintFt u _ =>
      match uidx (acct u) with None => ["user"%string] | Some i =>
        cl "frame" (same_money prev ob (Some i) && list_eqb dobs_eqb (o_dapps prev) (o_dapps ob))
        ++ cl "burn" (0 <=? obal prev i - obal ob i) end
  | OJoinVerifier _ _ _ => cl "frame" (same_state prev ob)
  (* a passed upsert proposal changes the description of a dApp, never bonds or balances; what it may do to
     TotalBond is judged by total-sum / held / pool-native *)
  | OUpsert _ _ _ _ _ _ _ _ _ => cl "frame" (same_money prev ob None)
  (* minting a token never touches dApps or bonds; ukex only leaves the sender (the fee) *)
  | OMintIssue u _ _ _ _ _ _ _ =>
      match uidx (acct u) with None => ["user"%string] | Some i =>
        cl "frame" (list_eqb dobs_eqb (o_dapps prev) (o_dapps ob)
                    && list_eqb (fun x y => (String.eqb (fst (fst x)) (fst (fst y)) && String.eqb (snd (fst x)) (snd (fst y)) && (snd x =? snd y))%bool)
                                (o_bonds prev) (o_bonds ob)
                    && (o_mod prev <=? o_mod ob) && (obal ob i <=? obal prev i)) end
  (* a transfer between accounts: dApps, bonds and the module untouched, ukex of the users conserved *)
  | OBankSend _ _ _ _ =>
      cl "frame" (list_eqb dobs_eqb (o_dapps prev) (o_dapps ob)
                  && list_eqb (fun x y => (String.eqb (fst (fst x)) (fst (fst y)) && String.eqb (snd (fst x)) (snd (fst y)) && (snd x =? snd y))%bool)
                              (o_bonds prev) (o_bonds ob)
                  && (o_mod prev =? o_mod ob) && (zsum (o_bals prev) =? zsum (o_bals ob)))
  | _ => []
  end.

Fixpoint check_steps (c : config) (g : ghost) (steps : list (op * obs)) (n : Z) : list string :=
  match steps with
  | [] => []
  | (o, ob) :: r =>
      let t := match o with OTick dt => if o_ok ob then g_now g + dt else g_now g | _ => g_now g end in
      let msg := is_msg_op o in
      let here :=
        if negb msg then keeper_clauses c (g_prev g) ob o ++ state_clauses (g_mx g) ob ++ flow_clauses false false (g_prev g) ob else
        (match o with
         | OCreate u _ _ n _ _ | OBond u n _ _ =>
             user_clauses g ob u n ++ (if o_ok ob then cl "max" (otot ob n <=? max_thr c) else [])
         | OReclaim u n _ _ => user_clauses g ob u n
         | OTick _ => if o_ok ob then tick_clauses c g ob t else cl "reject" (same_state (g_prev g) ob)
         | OLpMsg _ u _ _ _ _ =>
             if o_ok ob then
               match uidx (acct u) with
               | None => ["user"%string]
               | Some i => cl "nofree" (net_of g (acct u) + (obal ob i - obal (g_prev g) i) <=? 0)
               end
             else cl "reject" (same_state (g_prev g) ob)
         | _ => other_clauses (g_prev g) ob o end) ++ state_clauses (g_mx g) ob
          ++ flow_clauses (match o with OTick _ => true | _ => false end) (match o with OMintIssue _ _ _ _ _ _ _ _ => true | _ => false end) (g_prev g) ob in
      match here with
      | [] =>
          let ct := match o with OCreate _ _ _ nm _ _ => if o_ok ob then (nm, g_now g) :: g_ctime g else g_ctime g | _ => g_ctime g end in
          let nt := match o with
                    | OLpMsg _ u _ _ _ _ =>
                        if o_ok ob then match uidx (acct u) with
                                        | Some i => (acct u, net_of g (acct u) + (obal ob i - obal (g_prev g) i)) :: g_net g
                                        | None => g_net g end
                        else g_net g
                    | _ => g_net g end in
          let c' := cfg_after c o in
          check_steps c' (mkGhost t ct ob nt (Z.max (g_mx g) (max_thr c'))) r (n + 1)
      | _ => map (fun s => (s ++ "@" ++ z_str n)%string) here
      end
  end.

Definition case_clauses (cs : c20_case) : list string :=
  match cs with CHist c init steps => check_steps c (mkGhost 0 [] (empty_obs init) [] (max_thr c)) steps 0 end.

Fixpoint violations_from (n : nat) (cs : list c20_case) : list (nat * list string) :=
  match cs with
  | [] => []
  | c :: r => match case_clauses c with [] => violations_from (S n) r | l => (n, l) :: violations_from (S n) r end
  end.
Definition c20_violations (cs : list c20_case) : list (nat * list string) := violations_from 0 cs.
End Spec.
