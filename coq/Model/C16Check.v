(* C16: (1) observation type, (2) model vs. real code, (3) the decidable spec checker applied to
   the REAL observations.  The checker is written from the property text over snapshots
   (records, address index, requests, balances) and never calls the model's step functions. *)
From Sekai Require Import Base.Prelude Model.NetPropsLib Model.Identity.

(* ---------------------------------------------------------------- observations *)
Record snap : Type := mkSnap
  { o_recs : list record;                  (* GetAllIdentityRecords (id order) *)
    o_idx : list ((addr * string) * Z);    (* raw address+key index of every watched address *)
    o_reqs : list request;                 (* GetAllIdRecordsVerifyRequests (id order) *)
    o_ukeys : string;                      (* UniqueIdentityKeys *)
    o_bal : list ((acct * string) * Z) }.  (* balances of the watched accounts incl. the gov module *)

Inductive res : Type := ROk | RRej | RPanic.
Record cfg : Type := mkCfg
  { c_min_tip : Z; c_pc : list addr; c_pv : list addr; c_pn : list addr; c_ac : list addr; c_se : list addr; c_fix : bool; c_mg : bool; c_rr : list addr; c_rc : bool; c_ak : bool }.
(* a whole history: starting snapshot, then (operation, result, snapshot after; None = unchanged) *)
Inductive c16_case : Type := CHist (c : nat) (start : snap) (steps : list (op * res * option snap)).

Fixpoint list_eqb {A} (e : A -> A -> bool) (l m : list A) : bool :=
  match l, m with [], [] => true | x :: l', y :: m' => e x y && list_eqb e l' m' | _, _ => false end.
Definition rec_eqb (x y : record) : bool :=
  (r_id x =? r_id y) && (r_owner x =? r_owner y) && String.eqb (r_key x) (r_key y) && String.eqb (r_val x) (r_val y)
  && (r_date x =? r_date y) && list_eqb Z.eqb (r_ver x) (r_ver y).
Definition req_eqb (x y : request) : bool :=
  (q_id x =? q_id y) && (q_addr x =? q_addr y) && (q_ver x =? q_ver y) && list_eqb Z.eqb (q_rids x) (q_rids y)
  && String.eqb (q_denom x) (q_denom y) && (q_amt x =? q_amt y) && (q_date x =? q_date y).
Definition ent_eqb (x y : (addr * string) * Z) : bool := ik_eqb (fst x) (fst y) && (snd x =? snd y).
Definition set_eqb {A} (e : A -> A -> bool) (l m : list A) : bool :=
  (List.length l =? List.length m)%nat && forallb (fun x => existsb (e x) m) l && forallb (fun y => existsb (e y) l) m.

Fixpoint lookup_bal (l : list ((acct * string) * Z)) (x : acct) (d : string) : Z :=
  match l with [] => 0 | ((y, e), n) :: r => if acct_eqb x y && String.eqb d e then n else lookup_bal r x d end.

(* ---------------------------------------------------------------- model vs observation *)
Definition state_of (c : cfg) (sn : snap) : state :=
  mkState (o_recs sn) (o_idx sn) (o_reqs sn)
          (fold_left Z.max (map r_id (o_recs sn)) 0) (fold_left Z.max (map q_id (o_reqs sn)) 0)
          (o_ukeys sn) (c_min_tip c) (c_pc c) (c_pc c) (c_pv c) (c_pn c) (c_ac c) (c_se c) [] (lookup_bal (o_bal sn)) (c_fix c) (c_mg c) (c_rr c) (c_rc c) (c_ak c).

Definition snap_matches (s : state) (sn : snap) : bool :=
  list_eqb rec_eqb (recs s) (o_recs sn) && set_eqb ent_eqb (idx s) (o_idx sn) && list_eqb req_eqb (reqs s) (o_reqs sn)
  && String.eqb (ukeys s) (o_ukeys sn)
  && forallb (fun e => bal s (fst (fst e)) (snd (fst e)) =? snd e) (o_bal sn).

Definition res_matches {A} (o : outcome A) (r : res) : bool :=
  match o, r with Ok _, ROk => true | Err _, RRej => true | Panic _, RPanic => true | _, _ => false end.

Fixpoint steps_match (s : state) (prev : snap) (l : list (op * res * option snap)) : bool :=
  match l with
  | [] => true
  | (o, r, osn) :: rest =>
      let out := step s o in
      let s' := match out with Ok x => x | _ => s end in     (* = step_tx s o *)
      let sn := match osn with Some x => x | None => prev end in
      res_matches out r && snap_matches s' sn && steps_match s' sn rest
  end.

Section Run.
Variable cfgs : list cfg.
Definition case_matches (c : c16_case) : bool :=
  match c with CHist ci start steps =>
    match nth_error cfgs ci with
    | None => false
    | Some cf => let s := state_of cf start in snap_matches s start && steps_match s start steps
    end end.
Fixpoint mismatches_from (n : nat) (cs : list c16_case) : list nat :=
  match cs with [] => [] | c :: r => if case_matches c then mismatches_from (S n) r else n :: mismatches_from (S n) r end.
Definition c16_mismatches (cs : list c16_case) : list nat := mismatches_from 0 cs.
End Run.

(* ---------------------------------------------------------------- the property, on real snapshots *)
Definition find_rec (l : list record) (id : Z) : option record := find (fun r => r_id r =? id) l.
Definition find_req (l : list request) (id : Z) : option request := find (fun q => q_id q =? id) l.
Definition core_eqb (x y : record) : bool :=
  (r_id x =? r_id y) && (r_owner x =? r_owner y) && String.eqb (r_key x) (r_key y) && String.eqb (r_val x) (r_val y) && (r_date x =? r_date y).

Definition kind (o : op) : string :=
  match o with
  | ORegister _ _ _ => "register" | ODelete _ _ => "delete" | ORequest _ _ _ _ _ => "request"
  | OHandle _ _ _ => "handle" | OCancel _ _ => "cancel" | OClaimCouncilor _ _ _ => "claimcouncilor"
  | OClaimValidator _ _ _ => "claimvalidator" | OSetKeysProp _ => "setkeysprop" | OSetKeysMsg _ _ => "setkeysmsg"
  | ORotate _ _ _ => "rotate" | ORotateRR _ _ _ => "rotaterr" | OGenesis => "genesis" end.

(* clause "unique": no two addresses hold the same value under a key declared unique; keys are
   compared after case folding *)
Definition is_unique_key (uk k : string) : bool := str_in (to_lower k) (split_on ","%char (to_lower uk)).
Definition conflict (uk : string) (x y : record) : bool :=
  (r_id x <? r_id y) && negb (r_owner x =? r_owner y) && String.eqb (to_lower (r_key x)) (to_lower (r_key y))
  && String.eqb (r_val x) (r_val y) && is_unique_key uk (r_key x).
Definition conflicts (sn : snap) : list (Z * Z) :=
  flat_map (fun x => map (fun y => (r_id x, r_id y)) (filter (conflict (o_ukeys sn) x) (o_recs sn))) (o_recs sn).
Definition pair_in (p : Z * Z) (l : list (Z * Z)) : bool := existsb (fun q => (fst p =? fst q) && (snd p =? snd q)) l.
Definition unique_ok (pre post : snap) : bool :=
  let old := conflicts pre in forallb (fun p => pair_in p old) (conflicts post).

(* who may write records in this operation: the signer; property changes write none *)
Definition writer (o : op) : option addr :=
  match o with OSetKeysProp _ | OSetKeysMsg _ _ | OGenesis => None | _ => Some (signer o) end.
Definition is_writer (o : op) (a : addr) : bool := match writer o with Some w => w =? a | None => false end.

(* clause "owner": records of other addresses are neither created, changed nor deleted; a rotation
   a -> b moves a's records unchanged to b *)
Definition owner_ok (o : op) (pre post : snap) : bool :=
  match o with
  | ORotate a b _ | ORotateRR a b _ =>
      forallb (fun r => match find_rec (o_recs post) (r_id r) with
                        | Some r' => if r_owner r =? a
                                     then rec_eqb r' (mkRec (r_id r) b (r_key r) (r_val r) (r_date r) (r_ver r))
                                     else rec_eqb r' r
                        | None => false end) (o_recs pre)
      && forallb (fun r' => match find_rec (o_recs pre) (r_id r') with Some _ => true | None => false end) (o_recs post)
  | _ =>
      forallb (fun r => is_writer o (r_owner r) ||
                        match find_rec (o_recs post) (r_id r) with Some r' => core_eqb r r' | None => false end) (o_recs pre)
      && forallb (fun r' => is_writer o (r_owner r') ||
                        match find_rec (o_recs pre) (r_id r') with Some r => core_eqb r r' | None => false end) (o_recs post)
  end.
(* the footprint of the rotation defect: the signer's index names a record it does not own *)
Definition stale_index (o : op) (pre : snap) : bool :=
  existsb (fun e => (fst (fst e) =? signer o) &&
                    match find_rec (o_recs pre) (snd e) with Some r => negb (r_owner r =? signer o) | None => true end) (o_idx pre).

(* clause "verifier": a verifier appears only through that verifier's approval of a pending
   request covering the record *)
Definition verifier_ok (o : op) (r : res) (pre post : snap) : bool :=
  forallb (fun r' => forallb (fun w =>
      match find_rec (o_recs pre) (r_id r') with Some x => mem w (r_ver x) | None => false end
      || match o, r with
         | OHandle v qid true, ROk =>
             (v =? w) && match find_req (o_reqs pre) qid with
                         | Some q => (q_ver q =? w) && mem (r_id r') (q_rids q) | None => false end
         | _, _ => false end) (r_ver r')) (o_recs post).

(* clause "editdrop": changing (or deleting) a record drops its verifications and leaves no
   pending request covering it *)
Definition changed (pre post : snap) (r : record) : bool :=
  match find_rec (o_recs post) (r_id r) with
  | Some r' => negb (String.eqb (r_val r) (r_val r') && String.eqb (r_key r) (r_key r'))
  | None => true end.
Definition editdrop_bad (pre post : snap) : list (record * list request) :=
  flat_map (fun r =>
    if changed pre post r then
      let cov := filter (fun q => mem (r_id r) (q_rids q)) (o_reqs post) in
      let verbad := match find_rec (o_recs post) (r_id r) with Some r' => match r_ver r' with [] => false | _ => true end | None => false end in
      match cov, verbad with [], false => [] | _, _ => [(r, cov)] end
    else []) (o_recs pre).
(* every offending request was made by somebody who is not the record's owner *)
Definition all_foreign (bad : list (record * list request)) : bool :=
  forallb (fun p => match snd p with [] => false | l => forallb (fun q => negb (q_addr q =? r_owner (fst p))) l end) bad.

(* clause "escrow": module balance = base + sum of pending tips, per denomination *)
Definition tips (l : list request) (d : string) : Z := zsum (map q_amt (filter (fun q => String.eqb (q_denom q) d) l)).
Definition escrow_ok (start sn : snap) : bool :=
  forallb (fun d => lookup_bal (o_bal sn) Gov d - tips (o_reqs sn) d =? lookup_bal (o_bal start) Gov d - tips (o_reqs start) d) denoms.

(* clause "authority": a request leaves the pending set only through its verifier's handling or
   its requester's cancellation (explicit, or implied by the requester's own edit/delete) *)
Definition removed (pre post : snap) : list request := filter (fun q => match find_req (o_reqs post) (q_id q) with Some _ => false | None => true end) (o_reqs pre).
Definition created (pre post : snap) : list request := filter (fun q => match find_req (o_reqs pre) (q_id q) with Some _ => false | None => true end) (o_reqs post).
Definition paid_to (o : op) (q : request) : addr :=
  match o with OHandle v qid _ => if qid =? q_id q then q_ver q else q_addr q | _ => q_addr q end.
Definition authority_ok (o : op) (pre post : snap) : bool :=
  forallb (fun q => match o with
                    | OHandle v qid _ => (qid =? q_id q) && (v =? q_ver q)
                    | OCancel a qid => (qid =? q_id q) && (a =? q_addr q)
                    | ORegister _ a _ | ODelete a _ | OClaimCouncilor _ a _ | OClaimValidator _ a _ => a =? q_addr q
                    | _ => false end) (removed pre post)
  && forallb (fun q => match o with ORequest a v rids d n => (a =? q_addr q) && (v =? q_ver q) && (n =? q_amt q) && String.eqb d (q_denom q) && list_eqb Z.eqb rids (q_rids q)
                                  | _ => false end) (created pre post)
  (* requests that stay pending are unchanged *)
  && forallb (fun q => match find_req (o_reqs post) (q_id q) with Some q' => req_eqb q q' | None => true end) (o_reqs pre).

(* clause "payout": every watched balance moves exactly by the tips escrowed (-) and paid out (+)
   in this step: to the verifier when handled, back to the requester when cancelled *)
Definition delta (o : op) (pre post : snap) (x : acct) (d : string) : Z :=
  let out := removed pre post in let inn := created pre post in
  match x with
  | User a => zsum (map q_amt (filter (fun q => String.eqb (q_denom q) d && (paid_to o q =? a)) out))
              - zsum (map q_amt (filter (fun q => String.eqb (q_denom q) d && (q_addr q =? a)) inn))
  | Gov => tips inn d - tips out d
  end.
Definition payout_ok (o : op) (pre post : snap) : bool :=
  forallb (fun e => let '((x, d), n) := e in n - lookup_bal (o_bal pre) x d =? delta o pre post x d) (o_bal post).

(* clause "rotate": balances and requests follow the rotation, nothing else moves *)
Definition rotate_ok (a b : addr) (pre post : snap) : bool :=
  forallb (fun e => let '((x, d), n) := e in
             match x with
             | User y => if y =? b then n =? lookup_bal (o_bal pre) (User b) d + (if a =? b then 0 else lookup_bal (o_bal pre) (User a) d)
                         else if y =? a then n =? 0 else n =? lookup_bal (o_bal pre) x d
             | Gov => n =? lookup_bal (o_bal pre) Gov d end) (o_bal post)
  && list_eqb req_eqb (o_reqs post)
       (map (fun q => mkReq (q_id q) (ren a b (q_addr q)) (ren a b (q_ver q)) (q_rids q) (q_denom q) (q_amt q) (q_date q)) (o_reqs pre)).

(* the token-holder rotation moves no balance *)
Definition rotate_rr_ok (a b : addr) (pre post : snap) : bool :=
  forallb (fun e => let '((x, d), n) := e in n =? lookup_bal (o_bal pre) x d) (o_bal post)
  && list_eqb req_eqb (o_reqs post)
       (map (fun q => mkReq (q_id q) (ren a b (q_addr q)) (ren a b (q_ver q)) (q_rids q) (q_denom q) (q_amt q) (q_date q)) (o_reqs pre)).

(* a stored record whose (owner, key) index entry is missing or names another record *)
Definition unindexed (sn : snap) : bool :=
  existsb (fun r => negb (existsb (ent_eqb ((r_owner r, r_key r), r_id r)) (o_idx sn))) (o_recs sn).

(* clause "reuse": request ids are never used twice *)
Definition maxq (sn : snap) (m : Z) : Z := fold_left Z.max (map q_id (o_reqs sn)) m.

Definition tag (c : string) (o : op) (t : string) : string :=
  match t with EmptyString => (c ++ "@" ++ kind o)%string | _ => (c ++ ":" ++ t)%string end.

Definition maxr (sn : snap) (m : Z) : Z := fold_left Z.max (map r_id (o_recs sn)) m.
Definition new_recs (pre post : snap) : list record :=
  filter (fun r => match find_rec (o_recs pre) (r_id r) with Some _ => false | None => true end) (o_recs post).

Definition step_clauses (start pre : snap) (o : op) (r : res) (osn : option snap) (seen seenr : Z) : list string :=
  match osn with
  | None => []                                    (* nothing observable changed *)
  | Some post =>
      (match r with ROk => [] | _ => [tag "reject" o ""] end) ++
      (if unique_ok pre post then [] else [tag "unique" o ""]) ++
      (if owner_ok o pre post then [] else [tag "owner" o (if stale_index o pre then "stale-index" else "")]) ++
      (if verifier_ok o r pre post then [] else [tag "verifier" o ""]) ++
      (match editdrop_bad pre post with [] => [] | bad => [tag "editdrop" o (if stale_index o pre then "stale-index" else if all_foreign bad then "foreign-request" else "")] end) ++
      (if escrow_ok start post then [] else [tag "escrow" o ""]) ++
      (match o with
       | ORotate a b _ => if rotate_ok a b pre post then [] else [tag "rotate" o ""]
       | ORotateRR a b _ => if rotate_rr_ok a b pre post then [] else [tag "rotate" o ""]
       | OGenesis => [tag "genesis" o (if unindexed pre then "unindexed-record" else "")]   (* export + import must change nothing observable *)
       | _ => (if authority_ok o pre post then [] else [tag "authority" o ""]) ++
              (if payout_ok o pre post then [] else [tag "payout" o ""]) end) ++
      (if forallb (fun q => seen <? q_id q) (created pre post) then [] else [tag "reuse" o ""]) ++
      (* record ids are never used twice either (also not after a delete or a genesis round trip) *)
      (if forallb (fun x => seenr <? r_id x) (new_recs pre post) then [] else [tag "reuse-record" o ""])
  end.

Fixpoint dedup (l : list string) : list string :=
  match l with [] => [] | x :: r => if str_in x r then dedup r else x :: dedup r end.
Fixpoint hist_clauses (start pre : snap) (seen seenr : Z) (l : list (op * res * option snap)) : list string :=
  match l with
  | [] => []
  | (o, r, osn) :: rest =>
      let post := match osn with Some x => x | None => pre end in
      step_clauses start pre o r osn seen seenr ++ hist_clauses start post (maxq post seen) (maxr post seenr) rest
  end.
Definition case_clauses (c : c16_case) : list string :=
  match c with CHist _ start steps =>
    (match conflicts start with [] => [] | _ => ["unique@init"%string] end) ++
    dedup (hist_clauses start start (maxq start 0) (maxr start 0) steps) end.

Fixpoint violations_from (n : nat) (cs : list c16_case) : list (nat * list string) :=
  match cs with [] => [] | c :: r =>
    match case_clauses c with [] => violations_from (S n) r | cl => (n, cl) :: violations_from (S n) r end end.
Definition c16_violations (cs : list c16_case) : list (nat * list string) := violations_from 0 cs.
