(* C18: observation/case types, correspondence (model vs. what the real msg servers / proposal
   handlers / end blockers did) and the decidable spec checker applied to the REAL observations.
   The spec checker is written from the property text: it recomputes entitlement from the pool
   terms and its own record of registrations / claims / contributions / locks; it does not call the
   step functions of the models. *)
From Sekai Require Import Base.Prelude Base.Dec Model.Spending Model.Ubi Model.Collectives.

(* ================================================================ observations *)
Record opool := mkOP { op_terms : terms; op_bal : lcoins; op_lastcalc : Z }.
Record sobs := mkSO {
  so_res : Z;                          (* 0 ok, 1 rejected, 2 panic *)
  so_pools : list (Z * opool);         (* pools whose stored record changed (new value) *)
  so_mod : lcoins;                     (* module account balance after *)
  so_deltas : list (Z * lcoins);       (* account -> signed balance change *)
  so_claims : list (pkey * Z) }.       (* claim infos that changed (new LastClaim) *)

Record uobs := mkUO {
  uo_res : Z;
  uo_recs : list (Z * urec);           (* all records after *)
  uo_books : list (Z * Z);             (* all pool books after *)
  uo_minted : Z }.                     (* supply increase since the start of the history *)

Record occ := mkOCC { oc_bonds : lcoins; oc_lock : Z; oc_don : Z; oc_dlock : bool }.
Record ocoll := mkOC { oc_cbonds : lcoins; oc_donations : lcoins; oc_caddr : lcoins; oc_daddr : lcoins;
                       oc_contribs : list (Z * occ) }.
Record cobs := mkCO {
  co_res : Z;
  co_colls : list (Z * ocoll);         (* all collectives after *)
  co_mod : lcoins;                     (* collectives module account balance after *)
  co_deltas : list (Z * lcoins) }.

Inductive c18_case : Type :=
| CSpend (bank0 : list (Z * lcoins)) (mod0 : lcoins) (h : list (Z * sp_op * sobs))
| CUbi (hardcap : Z) (recs0 : list (Z * urec)) (books0 : list (Z * Z)) (h : list (Z * ubi_op * uobs))
| CColl (bank0 : list (Z * lcoins)) (mod0 : lcoins) (h : list (Z * co_op * cobs)).

(* ================================================================ helpers *)
Fixpoint list_eqb {A} (e : A -> A -> bool) (l m : list A) : bool :=
  match l, m with [], [] => true | x :: l', y :: m' => e x y && list_eqb e l' m' | _, _ => false end.
Fixpoint list_all2 {A B} (e : A -> B -> bool) (l : list A) (m : list B) : bool :=
  match l, m with [], [] => true | x :: l', y :: m' => e x y && list_all2 e l' m' | _, _ => false end.
Definition zz_eqb (a b : Z * Z) : bool := (fst a =? fst b) && (snd a =? snd b).
Definition terms_eqb (a b : terms) : bool :=
  (t_start a =? t_start b) && (t_end a =? t_end b) && (t_expiry a =? t_expiry b)
  && list_eqb zz_eqb (t_rates a) (t_rates b) && list_eqb zz_eqb (t_broles a) (t_broles b)
  && list_eqb zz_eqb (t_baccts a) (t_baccts b) && Bool.eqb (t_dyn a) (t_dyn b) && (t_dynp a =? t_dynp b).
Definition urec_eqb (a b : urec) : bool :=
  (u_start a =? u_start b) && (u_end a =? u_end b) && (u_last a =? u_last b) && (u_amount a =? u_amount b)
  && (u_period a =? u_period b) && (u_pool a =? u_pool b) && Bool.eqb (u_dyn a) (u_dyn b).
Definition res_of {A} (o : outcome A) : Z := match o with Ok _ => 0 | Err _ => 1 | Panic _ => 2 end.
Definition lget (a : Z) (l : list (Z * lcoins)) : fcoins := match zget a l with Some c => cof c | None => czero end.
Definition bank_of (l : list (Z * lcoins)) (m : Z) (mod0 : lcoins) : bank :=
  fun a => if a =? m then cof mod0 else lget a l.

Section Run.
(* model variants selected by the harness probes (used by the correspondence only) *)
Variable dynguard : bool.
Variable payout_safe : bool.
Variable quorum_checked : bool.
Variable gate_exact : bool.
Variable ubi_bigint : bool.
Variable remove_atomic : bool.
Variable actors : list (Z * list Z).     (* the gov actors (roles) at the start of every history *)
Variable order : list Z.                 (* all addresses in store (byte) order: role index iteration *)
Variable U : list Z.
Definition ceq (a b : fcoins) : bool := forallb (fun d => a d =? b d) U.

(* ================================================================ spending: model vs observation *)
Definition pool_matches (P : pool) (ob : opool) : bool :=
  terms_eqb (p_terms P) (op_terms ob) && ceq (p_bal P) (cof (op_bal ob)) && (p_lastcalc P =? op_lastcalc ob).
Definition pool_same (P Q : pool) : bool :=
  terms_eqb (p_terms P) (p_terms Q) && ceq (p_bal P) (p_bal Q) && (p_lastcalc P =? p_lastcalc Q).

Definition sp_obs_matches (accts : list Z) (s s' : sstate) (r : Z) (o : sobs) : bool :=
  (r =? so_res o)
  && ceq (s_bank s' MODULE) (cof (so_mod o))
  && forallb (fun a => ceq (csub (s_bank s' a) (s_bank s a)) (lget a (so_deltas o))) accts
  && forallb (fun e => match zget (fst e) (so_pools o) with
                       | Some ob => pool_matches (snd e) ob
                       | None => match zget (fst e) (s_pools s) with Some Q => pool_same (snd e) Q | None => false end
                       end) (s_pools s')
  && forallb (fun e => zhas (fst e) (s_pools s')) (so_pools o)
  (* changed claim records; a deleted record is reported with LastClaim -1 *)
  && forallb (fun e => match pget (fst e) (s_claims s') with Some t => t =? snd e | None => snd e =? -1 end) (so_claims o)
  && forallb (fun e => match pget (fst e) (so_claims o) with
                       | Some _ => true
                       | None => match pget (fst e) (s_claims s) with Some t => t =? snd e | None => false end
                       end) (s_claims s')
  && forallb (fun e => match pget (fst e) (s_claims s') with
                       | Some _ => true
                       | None => match pget (fst e) (so_claims o) with Some t => t =? -1 | None => false end
                       end) (s_claims s).

Fixpoint sp_corr (accts : list Z) (acts : list (Z * list Z)) (s : sstate) (h : list (Z * sp_op * sobs)) : bool :=
  match h with
  | [] => true
  | (now, op, o) :: r =>
      let res := sp_apply dynguard payout_safe quorum_checked acts U now op s in
      let s' := match res with Ok s' => s' | _ => s end in
      let acts' := match res with Ok _ => next_actors order acts op | _ => acts end in
      sp_obs_matches accts s s' (res_of res) o && sp_corr accts acts' s' r
  end.

(* ================================================================ ubi: model vs observation *)
Definition ubi_obs_matches (s' : ustate) (r : Z) (o : uobs) : bool :=
  (r =? uo_res o)
  && list_eqb (fun a b => (fst a =? fst b) && urec_eqb (snd a) (snd b)) (us_recs s') (uo_recs o)
  && list_eqb zz_eqb (us_books s') (uo_books o)
  && (us_minted s' =? uo_minted o).
Fixpoint ubi_corr (hardcap : Z) (s : ustate) (h : list (Z * ubi_op * uobs)) : bool :=
  match h with
  | [] => true
  | (now, op, o) :: r =>
      let res := ubi_apply gate_exact ubi_bigint hardcap now op s in
      let s' := match res with Ok (s', _) => s' | _ => s end in
      ubi_obs_matches s' (res_of res) o && ubi_corr hardcap s' r
  end.

(* ================================================================ collectives: model vs observation *)
Definition cc_matches (c : contrib) (o : occ) : bool :=
  ceq (cc_bonds c) (cof (oc_bonds o)) && (cc_lock c =? oc_lock o) && (cc_don c =? oc_don o) && Bool.eqb (cc_dlock c) (oc_dlock o).
Definition coll_matches (b : bank) (c : Z) (C : coll) (ob : ocoll) : bool :=
  ceq (co_bonds C) (cof (oc_cbonds ob)) && ceq (co_donations C) (cof (oc_donations ob))
  && ceq (b (caddr c)) (cof (oc_caddr ob)) && ceq (b (daddr c)) (cof (oc_daddr ob))
  && list_all2 (fun x y => (fst x =? fst y) && cc_matches (snd x) (snd y)) (co_contribs C) (oc_contribs ob).
Definition co_obs_matches (accts : list Z) (s s' : cstate) (r : Z) (o : cobs) : bool :=
  (r =? co_res o)
  && ceq (cs_bank s' CMODULE) (cof (co_mod o))
  && forallb (fun a => ceq (csub (cs_bank s' a) (cs_bank s a)) (lget a (co_deltas o))) accts
  && forallb (fun e => match zget (fst e) (co_colls o) with Some ob => coll_matches (cs_bank s') (fst e) (snd e) ob | None => false end) (cs_colls s')
  && forallb (fun e => zhas (fst e) (cs_colls s')) (co_colls o).
Definition co_next_actors (acts : list (Z * list Z)) (o : co_op) : list (Z * list Z) :=
  match o with CRotate a a' _ => actors_rotate order a a' acts | _ => acts end.
Fixpoint co_corr (accts : list Z) (acts : list (Z * list Z)) (s : cstate) (h : list (Z * co_op * cobs)) : bool :=
  match h with
  | [] => true
  | (now, op, o) :: r =>
      let res := co_apply remove_atomic acts U now op s in
      let s' := match res with Ok s' => s' | _ => s end in
      let acts' := match res with Ok _ => co_next_actors acts op | _ => acts end in
      co_obs_matches accts s s' (res_of res) o && co_corr accts acts' s' r
  end.

Definition case_matches (c : c18_case) : bool :=
  match c with
  | CSpend bank0 mod0 h => sp_corr (map fst bank0) actors (mkS [] [] (bank_of bank0 MODULE mod0)) h
  | CUbi hardcap recs0 books0 h => ubi_corr hardcap (mkUS recs0 books0 0) h
  | CColl bank0 mod0 h => co_corr (map fst bank0) actors (mkCS [] (bank_of bank0 CMODULE mod0)) h
  end.
Fixpoint mismatches_from (n : nat) (cs : list c18_case) : list nat :=
  match cs with [] => [] | c :: r => if case_matches c then mismatches_from (S n) r else n :: mismatches_from (S n) r end.
Definition c18_mismatches (cs : list c18_case) : list nat := mismatches_from 0 cs.

(* ================================================================ THE PROPERTY, on real observations
   The checker keeps its OWN (ghost) record of what the property speaks about -- pool terms as set by
   accepted create / passed update, pool books as deposits minus payments, each beneficiary's last
   accepted registration / claim, each contributor's bonds put in and the latest unlock time it ever
   committed to, each UBI record as upserted and its last distribution, the donation book as seeded
   minus sent -- and judges every payment against that record, never against the store fields the
   operation under test may have rewritten.  After every operation the stored records are also
   compared with the ghost record. *)
Definition flag (b : bool) (name : string) : list string := if b then [] else [name].
Definition cnonneg (a : fcoins) : bool := forallb (fun d => 0 <=? a d) U.
Definition cle (a b : fcoins) : bool := forallb (fun d => a d <=? b d) U.
Definition cscale (n : Z) (a : fcoins) : fcoins := fun d => n * a d.
Definition count_z (a : Z) (l : list Z) : Z := Z.of_nat (List.length (filter (Z.eqb a) l)).
Definition fget (k : Z) (l : list (Z * fcoins)) : fcoins := match zget k l with Some c => c | None => czero end.

(* ---------------- spending *)
Record sspec := mkSS {
  ss_pools : list (Z * opool);     (* the stored pool records as last observed (to rebuild the store) *)
  ss_terms : list (Z * terms);     (* ghost: terms set by accepted create / passed update (+ dynamic rates) *)
  ss_book : list (Z * fcoins);     (* ghost: deposits minus payments per pool *)
  ss_mod : fcoins;                 (* module account balance as last observed (bank) *)
  ss_last : list (pkey * Z);       (* ghost: last accepted registration / claim per (pool, account) *)
  ss_actors : list (Z * list Z) }. (* ghost: who holds which roles (follows accepted address rotations) *)

(* an accepted address rotation renames the person in the ghost record *)
Definition prot {A} (a a' : Z) (l : list (pkey * A)) : list (pkey * A) :=
  map (fun e => if snd (fst e) =? a then ((fst (fst e), a'), snd e) else e)
      (filter (fun e => negb ((snd (fst e) =? a') && match pget (fst (fst e), a) l with Some _ => true | None => false end)) l).

(* every weight the pool terms grant to account a (by account entry or by a role it holds) *)
Definition granted_weights (acts : list (Z * list Z)) (T : terms) (a : Z) : list Z :=
  map snd (filter (fun e => fst e =? a) (t_baccts T))
  ++ map snd (filter (fun e => existsb (Z.eqb (fst e)) (roles_of acts a)) (t_broles T)).
Definition max_list (l : list Z) : Z := fold_right Z.max 0 l.
Definition rate_of (T : terms) (d : Z) : Z := zsum (map snd (filter (fun e => fst e =? d) (t_rates T))).
(* elapsed time since the last claim inside the claim window, clipped to the expiry *)
Definition entitled_seconds (T : terms) (last now : Z) : Z :=
  let upto := if (t_end T =? 0) then now else Z.min now (t_end T) in
  Z.max 0 (Z.min (t_expiry T) (upto - Z.max (t_start T) last)).
(* paid <= rate * seconds * weight rounded to the nearest unit (plus one 10^-18 rounding of sdk.Dec) *)
Definition within_entitlement (acts : list (Z * list Z)) (T : terms) (a last now : Z) (paid : fcoins) : bool :=
  let w := max_list (granted_weights acts T a) in
  let secs := entitled_seconds T last now in
  forallb (fun d => 2 * paid d * PREC * PREC <=? 2 * Z.max 0 (rate_of T d * secs * w) + PREC * PREC + PREC) U.

Definition check_payment (S : sspec) (now p a : Z) (paid : fcoins) : list string :=
  if ceq paid czero then [] else
  match zget p (ss_terms S) with
  | None => ["paid_from_unknown_pool"%string]
  | Some T =>
      flag (cnonneg paid) "negative_payment"
      ++ match pget (p, a) (ss_last S) with
         | None => ["paid_unregistered"%string]
         | Some last => flag (within_entitlement (ss_actors S) T a last now paid) "over_entitlement"
         end
      ++ flag (negb (match granted_weights (ss_actors S) T a with [] => true | _ => false end)) "paid_non_beneficiary"
      ++ flag (cle paid (fget p (ss_book S))) "over_book"
  end.

Definition patch_pools (l : list (Z * opool)) (d : list (Z * opool)) : list (Z * opool) :=
  fold_left (fun acc e => zset (fst e) (snd e) acc) d l.
Definition books_sum (l : list (Z * fcoins)) : fcoins := fun d => zsum (map (fun e => snd e d) l).
Definition delta_of (o : sobs) (a : Z) : fcoins := lget a (so_deltas o).
Definition sum_deltas (o : sobs) : fcoins := fun d => zsum (map (fun e => cof (snd e) d) (so_deltas o)).
Definition allowed_by_terms (acts : list (Z * list Z)) (T : terms) (a : Z) : bool :=
  existsb (fun e => fst e =? a) (t_baccts T) || existsb (fun e => existsb (Z.eqb (fst e)) (roles_of acts a)) (t_broles T).
(* the stored terms agree with the ghost terms; the stored expiry may only be stricter (the update
   proposal carries no expiry: the checker keeps the one the pool was created with) *)
Definition terms_agree (stored ghost : terms) : bool :=
  (t_start stored =? t_start ghost) && (t_end stored =? t_end ghost) && (t_expiry stored <=? t_expiry ghost)
  && list_eqb zz_eqb (t_rates stored) (t_rates ghost) && list_eqb zz_eqb (t_broles stored) (t_broles ghost)
  && list_eqb zz_eqb (t_baccts stored) (t_baccts ghost) && Bool.eqb (t_dyn stored) (t_dyn ghost) && (t_dynp stored =? t_dynp ghost).
Definition with_rates (T : terms) (r : list (Z * Z)) : terms :=
  mkTerms (t_start T) (t_end T) (t_expiry T) r (t_broles T) (t_baccts T) (t_dyn T) (t_dynp T).
Definition with_expiry (T : terms) (x : Z) : terms :=
  mkTerms (t_start T) (t_end T) x (t_rates T) (t_broles T) (t_baccts T) (t_dyn T) (t_dynp T).

(* ghost record after an accepted operation *)
Definition sp_ghost_terms (S : sspec) (post : list (Z * opool)) (op : sp_op) : list (Z * terms) :=
  match op with
  | OCreate p T | OBadQuorum false p T => zset p T (ss_terms S)
  | OUpdate p T | OBadQuorum true p T => zset p (with_expiry T (match zget p (ss_terms S) with Some T0 => t_expiry T0 | None => 0 end)) (ss_terms S)
  | OEndBlock =>     (* dynamic pools: the end blocker recalculates the rates; nothing else *)
      map (fun e => if t_dyn (snd e) then
                      match zget (fst e) post with Some ob => (fst e, with_rates (snd e) (t_rates (op_terms ob))) | None => e end
                    else e) (ss_terms S)
  | _ => ss_terms S
  end.
Definition sp_ghost_book (accts : list Z) (S : sspec) (op : sp_op) (o : sobs) : list (Z * fcoins) :=
  match op with
  | OCreate p _ | OBadQuorum false p _ => if zhas p (ss_book S) then ss_book S else zset p czero (ss_book S)
  | ODeposit _ p amt | OModuleDeposit p amt => zset p (cadd (fget p (ss_book S)) (cof amt)) (ss_book S)
  | OClaim a p => zset p (csub (fget p (ss_book S)) (delta_of o a)) (ss_book S)
  | ODistribute p | OWithdraw p _ _ => zset p (csub (fget p (ss_book S)) (sum_deltas o)) (ss_book S)
  | _ => ss_book S
  end.

Definition sp_ghost_last (accts : list Z) (S : sspec) (now : Z) (op : sp_op) (o : sobs) : list (pkey * Z) :=
  match op with
  | ORegister a p => pset (p, a) now (ss_last S)
  | OClaim a p => pset (p, a) now (ss_last S)
  | ODistribute p =>     (* a passed distribution is a claim by every beneficiary of the pool *)
      match zget p (ss_terms S) with
      | Some T => fold_left (fun acc a => if allowed_by_terms (ss_actors S) T a then pset (p, a) now acc else acc) accts (ss_last S)
      | None => ss_last S
      end
  | ORotate a a' _ => prot a a' (ss_last S)
  | _ => ss_last S
  end.

Definition sp_step_clauses (accts : list Z) (S : sspec) (now : Z) (op : sp_op) (o : sobs) : list string :=
  let post := patch_pools (ss_pools S) (so_pools o) in
  let mod' := cof (so_mod o) in
  let out := csub (ss_mod S) mod' in         (* what left the module account *)
  if negb (so_res o =? 0) then
    flag (ceq out czero && forallb (fun a => ceq (delta_of o a) czero) accts
          && match so_pools o with [] => true | _ => false end
          && match so_claims o with [] => true | _ => false end) "rejected_but_changed"
  else
  let terms' := sp_ghost_terms S post op in
  let book' := sp_ghost_book accts S op o in
  (* funds leave the module only by a claim or a passed distribution / withdraw proposal *)
  flag (cle out czero || match op with OClaim _ _ | ODistribute _ | OWithdraw _ _ _ => true | _ => false end) "funds_left_without_claim_or_proposal"
  ++ flag (cle (books_sum book') mod') "books_exceed_module_balance"
  (* the stored records are what the ghost record says *)
  ++ flag (forallb (fun e => match zget (fst e) terms' with Some T => terms_agree (op_terms (snd e)) T | None => false end) post
           && forallb (fun e => zhas (fst e) post) terms') "terms_changed_without_create_or_update"
  (* ... including every claim record the operation wrote or deleted (deleted = -1) *)
  ++ flag (let last' := sp_ghost_last accts S now op o in
           forallb (fun e => match pget (fst e) last' with Some t => t =? snd e | None => snd e =? -1 end) (so_claims o))
          "claim_record_not_as_registered_or_claimed"
  ++ flag (forallb (fun e => ceq (cof (op_bal (snd e))) (fget (fst e) book')) post)
          (match op with
           | OClaim _ _ | ODistribute _ | OWithdraw _ _ _ => "book_not_reduced_by_payment"
           | ODeposit _ _ _ | OModuleDeposit _ _ => "deposit_not_booked"
           | _ => "book_changed_without_funds" end)
  ++ match op with
     | OClaim a p =>
         check_payment S now p a (delta_of o a)
         ++ flag (forallb (fun b => (b =? a) || ceq (delta_of o b) czero) accts) "paid_someone_else"
         ++ flag (ceq out (delta_of o a)) "payment_not_from_module"
     | ODistribute p =>
         flat_map (fun a => check_payment S now p a (delta_of o a)) accts
         ++ flag (ceq out (sum_deltas o)) "payment_not_from_module"
     | OWithdraw p bens amt =>
         match zget p (ss_terms S) with
         | None => ["paid_from_unknown_pool"%string]
         | Some T =>
             flag (forallb (fun a => ceq (delta_of o a) (cscale (count_z a bens) (cof amt))) accts) "withdraw_not_as_proposed"
             ++ flag (forallb (fun a => allowed_by_terms (ss_actors S) T a) bens) "paid_non_beneficiary"
             ++ flag (cle (cscale (Z.of_nat (List.length bens)) (cof amt)) (fget p (ss_book S))) "over_book"
         end
     | ODeposit a p amt =>
         flag (ceq (delta_of o a) (cscale (-1) (cof amt)) && ceq mod' (cadd (ss_mod S) (cof amt))) "deposit_not_booked"
     | OBankSend a amt => []
     | OModuleDeposit p amt =>
         flag (forallb (fun a => ceq (delta_of o a) czero) accts && ceq mod' (cadd (ss_mod S) (cof amt))) "deposit_not_booked"
     | ORotate a a' _ =>    (* the person's funds move to its new address, nothing else moves *)
         flag (forallb (fun b => (b =? a) || (b =? a') || ceq (delta_of o b) czero) accts
               && ceq (cadd (delta_of o a) (delta_of o a')) czero && ceq out czero) "rotation_moved_funds_elsewhere"
     | _ => flag (forallb (fun a => ceq (delta_of o a) czero) accts && ceq out czero) "funds_moved_by_non_payment_op"
     end.

Definition sp_next (accts : list Z) (S : sspec) (now : Z) (op : sp_op) (o : sobs) : sspec :=
  let post := patch_pools (ss_pools S) (so_pools o) in
  if negb (so_res o =? 0) then mkSS post (ss_terms S) (ss_book S) (cof (so_mod o)) (ss_last S) (ss_actors S) else
  mkSS post (sp_ghost_terms S post op) (sp_ghost_book accts S op o) (cof (so_mod o)) (sp_ghost_last accts S now op o)
       (next_actors order (ss_actors S) op).

Fixpoint sp_clauses (accts : list Z) (S : sspec) (h : list (Z * sp_op * sobs)) : list string :=
  match h with
  | [] => []
  | (now, op, o) :: r => sp_step_clauses accts S now op o ++ sp_clauses accts (sp_next accts S now op o) r
  end.

(* ---------------- ubi *)
Record uspec := mkUSp {
  up_g : list (Z * urec);          (* ghost: records as upserted, u_last = the checker's own last distribution *)
  up_recs : list (Z * urec);       (* stored records as last observed *)
  up_books : list (Z * Z);
  up_minted : Z }.
Definition pay_of (r : urec) : Z := Z.max 0 (u_amount r * 1000000).
(* the end blocker stamped the stored record *)
Definition processed (pre : list (Z * urec)) (post : list (Z * urec)) (id : Z) : bool :=
  match uget id pre, uget id post with
  | Some a, Some b => negb (u_last a =? u_last b)
  | _, _ => false
  end.
Definition due_by_text (now : Z) (r : urec) : bool :=
  (u_last r + u_period r <? now) && ((u_end r =? 0) || (u_last r <? u_end r)).
Definition books_delta (pre post : list (Z * Z)) (p : Z) : Z :=
  match uget p post, uget p pre with Some a, Some b => a - b | Some a, None => a | _, _ => 0 end.
Definition ubi_ghost (S : uspec) (now : Z) (op : ubi_op) (o : uobs) : list (Z * urec) :=
  match op with
  | UEndBlock => map (fun e => if processed (up_recs S) (uo_recs o) (fst e) then (fst e, touch now (snd e)) else e) (up_g S)
  | UUpsert id r => uins id (mkU (u_start r) (u_end r) (u_start r) (u_amount r) (u_period r) (u_pool r) false) (up_g S)
  | URemove id => udel id (up_g S)
  end.
Definition recs_eqb (a b : list (Z * urec)) : bool := list_eqb (fun x y => (fst x =? fst y) && urec_eqb (snd x) (snd y)) a b.

Definition ubi_step_clauses (S : uspec) (now : Z) (op : ubi_op) (o : uobs) : list string :=
  let minted := uo_minted o - up_minted S in
  let booked := zsum (map (fun e => books_delta (up_books S) (uo_books o) (fst e)) (uo_books o)) in
  if negb (uo_res o =? 0) then
    flag ((minted =? 0) && recs_eqb (up_recs S) (uo_recs o)) "rejected_but_changed"
  else
  flag (recs_eqb (uo_recs o) (ubi_ghost S now op o)) "stored_record_not_as_upserted_and_distributed"
  ++ match op with
  | UEndBlock =>
      let done := filter (fun e => processed (up_recs S) (uo_recs o) (fst e)) (up_g S) in
      (* each distribution happens only when a full period has passed since the previous one,
         while the record is active *)
      flag (forallb (fun e => due_by_text now (snd e)) done) "paid_before_period_elapsed"
      (* and pays at most the record's amount, into the record's pool *)
      ++ flag ((0 <=? minted) && (minted <=? zsum (map (fun e => pay_of (snd e)) done))) "paid_more_than_amount"
      ++ flag (forallb (fun e => books_delta (up_books S) (uo_books o) (fst e)
                                 <=? zsum (map (fun x => pay_of (snd x)) (filter (fun x => u_pool (snd x) =? fst e) done))) (uo_books o))
              "paid_more_than_amount_into_pool"
      ++ flag (booked =? minted) "minted_not_booked"
  | _ => flag ((minted =? 0) && (booked =? 0)) "funds_moved_by_non_payment_op"
  end.
Definition ubi_next (S : uspec) (now : Z) (op : ubi_op) (o : uobs) : uspec :=
  mkUSp (if uo_res o =? 0 then ubi_ghost S now op o else up_g S) (uo_recs o) (uo_books o) (uo_minted o).
Fixpoint ubi_clauses (S : uspec) (h : list (Z * ubi_op * uobs)) : list string :=
  match h with
  | [] => []
  | (now, op, o) :: r => ubi_step_clauses S now op o ++ ubi_clauses (ubi_next S now op o) r
  end.

(* ---------------- collectives *)
Record cspec := mkCSp {
  cp_putin : list (pkey * fcoins);  (* ghost: (collective, account) -> bonds put in since the last return *)
  cp_lock : list (pkey * Z);        (* ghost: the latest unlock time the contributor ever committed to *)
  cp_book : list (Z * fcoins);      (* ghost: donations seeded minus donations sent, per collective *)
  cp_don : list (pkey * Z);         (* ghost: the donation share the contributor last set (sdk.Dec) *)
  cp_ops : list (Z * Z);            (* ghost: accepted operations that may have moved coins of the collective's two
                                       accounts (each rounds once: at most half a unit per token) *)
  cp_mod : fcoins;                  (* module account balance as last observed (bank) *)
  cp_colls : list (Z * ocoll) }.    (* stored records as last observed *)
Definition putin_of (S : cspec) (c a : Z) : fcoins := match pget (c, a) (cp_putin S) with Some b => b | None => czero end.
Definition lock_of (S : cspec) (c a : Z) : Z := match pget (c, a) (cp_lock S) with Some l => l | None => 0 end.
Definition member (S : cspec) (c a : Z) : bool := negb (ceq (putin_of S c a) czero).
Definition near (a b : fcoins) : bool := forallb (fun d => (b d - 1 <=? a d) && (a d <=? b d + 1)) U.
Definition cdelta (o : cobs) (a : Z) : fcoins := lget a (co_deltas o).
Definition has_contrib (l : list (Z * ocoll)) (c a : Z) : bool :=
  match zget c l with Some ob => zhas a (oc_contribs ob) | None => false end.
Definition stored_cc (l : list (Z * ocoll)) (c a : Z) : option occ :=
  match zget c l with Some ob => zget a (oc_contribs ob) | None => None end.

Definition don_of (S : cspec) (c a : Z) : Z := match pget (c, a) (cp_don S) with Some x => x | None => 0 end.
Definition ops_of (S : cspec) (c : Z) : Z := match zget c (cp_ops S) with Some n => n | None => 0 end.
Definition bump (S : cspec) (c n : Z) : list (Z * Z) := zset c (ops_of S c + n) (cp_ops S).
Definition co_ghost (accts : list Z) (S : cspec) (now : Z) (op : co_op) (o : cobs) : cspec :=
  match op with
  | CCreate a c bonds _ _ _ =>
      mkCSp (pset (c, a) (cof bonds) (cp_putin S)) (cp_lock S) (zset c czero (cp_book S)) (pset (c, a) 0 (cp_don S)) (zset c 1 (cp_ops S)) (cp_mod S) (cp_colls S)
  | CContribute a c bonds => mkCSp (pset (c, a) (cadd (putin_of S c a) (cof bonds)) (cp_putin S)) (cp_lock S) (cp_book S) (cp_don S) (bump S c 1) (cp_mod S) (cp_colls S)
  | CDonate a c lock don _ => mkCSp (cp_putin S) (pset (c, a) (Z.max lock (lock_of S c a)) (cp_lock S)) (cp_book S) (pset (c, a) don (cp_don S)) (bump S c 1) (cp_mod S) (cp_colls S)
  | CWithdraw a c => mkCSp (pset (c, a) czero (cp_putin S)) (pset (c, a) 0 (cp_lock S)) (cp_book S) (pset (c, a) 0 (cp_don S)) (bump S c 2) (cp_mod S) (cp_colls S)
  | CRemove c =>
      let gone := filter (fun a => member S c a && negb (has_contrib (co_colls o) c a)) accts in
      mkCSp (fold_left (fun acc a => pset (c, a) czero acc) gone (cp_putin S))
            (fold_left (fun acc a => pset (c, a) 0 acc) gone (cp_lock S))
            (if zhas c (co_colls o) then cp_book S else zset c czero (cp_book S))
            (fold_left (fun acc a => pset (c, a) 0 acc) gone (cp_don S)) (bump S c (2 * Z.of_nat (List.length accts))) (cp_mod S) (cp_colls S)
  | CSendDonation c _ amt => mkCSp (cp_putin S) (cp_lock S) (zset c (csub (fget c (cp_book S)) (cof amt)) (cp_book S)) (cp_don S) (cp_ops S) (cp_mod S) (cp_colls S)
  | CSeed c amt => mkCSp (cp_putin S) (cp_lock S) (zset c (cadd (fget c (cp_book S)) (cof amt)) (cp_book S)) (cp_don S) (cp_ops S) (cp_mod S) (cp_colls S)
  | CRotate a a' _ => mkCSp (prot a a' (cp_putin S)) (prot a a' (cp_lock S)) (cp_book S) (prot a a' (cp_don S)) (cp_ops S) (cp_mod S) (cp_colls S)
  end.

(* the two accounts of a collective against the ghost record.  Exact (rational) shares, scaled by 10^18:
   the bond account should hold sum (1-d_a) b_a, the donation account sum d_a b_a; every accepted operation
   rounds once, so the holdings may be off by half a unit per token and operation *)
Definition exp_parts (accts : list Z) (G : cspec) (c d : Z) : Z * Z :=
  fold_left (fun acc a => let b := putin_of G c a d in let dn := don_of G c a in
                          (fst acc + b * (PREC - dn), snd acc + b * dn)) accts (0, 0).
Definition accounts_clauses (accts : list Z) (G : cspec) (colls : list (Z * ocoll)) : list string :=
  flat_map (fun e =>
    let c := fst e in let tol := (ops_of G c + 1) * PREC in
    flat_map (fun d =>
      let '(ec, ed) := exp_parts accts G c d in
      let hc := cof (oc_caddr (snd e)) d * PREC in let hd := cof (oc_daddr (snd e)) d * PREC in
      flag (2 * (ec - hc) <=? tol) "collective_account_short_of_contributors_bonds"
      ++ (if tol <? 2 * Z.abs (hd - ed) then ["donation_account_not_sum_of_donated_parts"%string]
          else flag (Z.abs (hd - ed) <? PREC) "donation_account_off:rounding")) U) colls.
(* a refused withdrawal: how many units the two accounts are short of round((1-d)b) / round(d b) *)
Definition withdraw_shortage (S : cspec) (c a : Z) : Z :=
  match zget c (cp_colls S) with
  | None => 0
  | Some ob =>
      fold_left (fun acc d => let b := putin_of S c a d in let dn := don_of S c a in
                              Z.max acc (Z.max (chop_round (b * (PREC - dn)) - cof (oc_caddr ob) d) (chop_round (b * dn) - cof (oc_daddr ob) d))) U 0
  end.
Definition co_step_clauses (accts : list Z) (S : cspec) (now : Z) (op : co_op) (o : cobs) : list string :=
  let mod' := cof (co_mod o) in
  let out := csub (cp_mod S) mod' in
  if negb (co_res o =? 0) then
    flag (ceq out czero && forallb (fun a => ceq (cdelta o a) czero) accts) "rejected_but_changed"
    (* once the lock has expired a contributor can withdraw *)
    ++ match op with
       | CWithdraw a c =>
           if member S c a && (lock_of S c a <=? now) then
             (* short by more than the rounding of the operations so far: somebody else's bonds are missing *)
             if ops_of S c + 1 <? 2 * withdraw_shortage S c a then ["withdraw_refused_accounts_short"%string]
             else ["withdraw_refused_after_lock"%string]
           else []
       | _ => []
       end
  else
  let G := co_ghost accts S now op o in
  (* donations leave the module account only by a passed send-donation proposal *)
  flag (cle out czero || match op with CSendDonation _ _ _ => true | _ => false end) "donations_left_without_proposal"
  ++ flag (cle (books_sum (cp_book G)) mod') "donation_book_exceeds_module_balance"
  (* the stored records are what the ghost record says: donation book, bonds, locks never lowered *)
  ++ flag (forallb (fun e => ceq (cof (oc_donations (snd e))) (fget (fst e) (cp_book G))) (co_colls o))
          (match op with CSendDonation _ _ _ => "donation_book_not_reduced" | _ => "donation_book_changed_without_proposal" end)
  ++ flag (forallb (fun e => forallb (fun x => ceq (cof (oc_bonds (snd x))) (putin_of G (fst e) (fst x))) (oc_contribs (snd e))) (co_colls o))
          "bond_record_not_what_was_put_in"
  ++ flag (forallb (fun e => forallb (fun x => lock_of G (fst e) (fst x) <=? oc_lock (snd x)) (oc_contribs (snd e))) (co_colls o))
          "lock_lowered"
  ++ accounts_clauses accts G (co_colls o)
  ++ match op with
     | CWithdraw a c =>
         flag (lock_of S c a <=? now) "withdrawn_while_locked"
         ++ flag (near (cdelta o a) (putin_of S c a)) "withdrawn_not_what_was_put_in"
         ++ flag (forallb (fun b => (b =? a) || ceq (cdelta o b) czero) accts) "paid_someone_else"
         ++ flag (ceq out czero) "donations_touched_by_withdraw"
         (* the bonds are returned once: the contributor's record is gone afterwards *)
         ++ flag (negb (has_contrib (co_colls o) c a)) "withdrawn_but_record_kept"
     | CRemove c =>
         flag (forallb (fun a => negb (member S c a && negb (has_contrib (co_colls o) c a))
                                 || near (cdelta o a) (putin_of S c a)) accts) "removal_not_what_was_put_in"
         ++ flag (forallb (fun a => (member S c a && negb (has_contrib (co_colls o) c a))
                                    || ceq (cdelta o a) czero) accts) "removal_paid_but_record_kept"
     | CSendDonation c to amt =>
         flag (cle (cof amt) (fget c (cp_book S))) "donation_over_book"
         ++ flag (ceq out (cof amt)) "donation_not_from_module"
         ++ flag (forallb (fun a => ceq (cdelta o a) (if a =? to then cof amt else czero)) accts) "donation_not_as_proposed"
     | CCreate a c bonds _ _ _ | CContribute a c bonds =>
         flag (forallb (fun b => ceq (cdelta o b) (if b =? a then cscale (-1) (cof bonds) else czero)) accts) "contribution_not_debited_exactly"
     | CDonate _ _ _ _ _ => flag (forallb (fun a => ceq (cdelta o a) czero) accts) "funds_moved_by_non_payment_op"
     | CSeed _ _ => []
     | CRotate a a' _ =>
         flag (forallb (fun b => (b =? a) || (b =? a') || ceq (cdelta o b) czero) accts
               && ceq (cadd (cdelta o a) (cdelta o a')) czero && ceq out czero) "rotation_moved_funds_elsewhere"
     end.
Definition co_next (accts : list Z) (S : cspec) (now : Z) (op : co_op) (o : cobs) : cspec :=
  let G := if co_res o =? 0 then co_ghost accts S now op o else S in
  mkCSp (cp_putin G) (cp_lock G) (cp_book G) (cp_don G) (cp_ops G) (cof (co_mod o)) (co_colls o).
Fixpoint co_clauses (accts : list Z) (S : cspec) (h : list (Z * co_op * cobs)) : list string :=
  match h with
  | [] => []
  | (now, op, o) :: r => co_step_clauses accts S now op o ++ co_clauses accts (co_next accts S now op o) r
  end.

Fixpoint dedup_str (l : list string) : list string :=
  match l with [] => [] | x :: r => if str_in x r then dedup_str r else x :: dedup_str r end.
Definition case_clauses (c : c18_case) : list string :=
  dedup_str
  match c with
  | CSpend bank0 mod0 h => sp_clauses (map fst bank0) (mkSS [] [] [] (cof mod0) [] actors) h
  | CUbi hardcap recs0 books0 h => ubi_clauses (mkUSp recs0 recs0 books0 0) h
  | CColl bank0 mod0 h => co_clauses (map fst bank0) (mkCSp [] [] [] [] [] (cof mod0) []) h
  end.
Fixpoint violations_from (n : nat) (cs : list c18_case) : list (nat * list string) :=
  match cs with [] => [] | c :: r =>
    match case_clauses c with [] => violations_from (S n) r | cl => (n, cl) :: violations_from (S n) r end end.
Definition c18_violations (cs : list c18_case) : list (nat * list string) := violations_from 0 cs.
End Run.
