(* C07: (1) observation / case type, (2) model vs. observed behaviour of the real keeper / msg
   servers / proposal handlers / genesis / rotation, (3) the decidable spec checker applied to the
   REAL observations.  The spec checker is written from the property text: it uses the records
   the harness dumped (actor and role records) and never calls the model's step functions. *)
From Sekai Require Import Base.Prelude Model.Perm.

Record obs := mkObs {
  o_actors : list (Z * actor);               (* every NetworkActor record in the store *)
  o_roles : list (Z * perms);                (* every role permission record *)
  o_rinfo : list (Z * Z);                    (* role id -> sid *)
  o_next : Z;                                (* GetNextRoleId *)
  o_allowed : list (Z * list Z);             (* address -> permissions of the universe with CheckIfAllowedPermission = true *)
  o_voters : list (Z * option (list Z));     (* permission -> GetNetworkActorsByAbsoluteWhitelistPermission, the LIST as returned (order and multiplicity; None = panic) *)
  o_ipa : list (Z * Z); o_ira : list (Z * Z); o_ipr : list (Z * Z) }.   (* the three index prefixes *)

Definition step_obs : Type := op * bool * option obs.      (* None: observation identical to the previous one *)
Inductive c07_case : Type := CHist (init : obs) (steps : list step_obs).

Fixpoint zlist_eqb (l m : list Z) : bool :=
  match l, m with [], [] => true | x :: l', y :: m' => (x =? y) && zlist_eqb l' m' | _, _ => false end.
Definition perms_eqb (x y : perms) : bool := zlist_eqb (wl x) (wl y) && zlist_eqb (bl x) (bl y).
Definition actor_eqb (x y : actor) : bool := zlist_eqb (a_roles x) (a_roles y) && perms_eqb (a_perms x) (a_perms y).
Definition opt_eqb {A} (e : A -> A -> bool) (x y : option A) : bool :=
  match x, y with Some a, Some b => e a b | None, None => true | _, _ => false end.
Definition map_eqb {V} (e : V -> V -> bool) (l m : list (Z * V)) : bool :=
  forallb (fun k => opt_eqb e (lookup k l) (lookup k m)) (map fst l ++ map fst m).
Definition subset (l m : list Z) : bool := forallb (fun x => mem x m) l.
Definition set_eqb (l m : list Z) : bool := subset l m && subset m l.
Definition psubset (l m : list (Z * Z)) : bool := forallb (fun x => pmem x m) l.
Definition pset_eqb (l m : list (Z * Z)) : bool := psubset l m && psubset m l.
Definition pdiff (l m : list (Z * Z)) : list (Z * Z) := filter (fun x => negb (pmem x m)) l.

Definition op_name (o : op) : string :=
  (let v := fun (x : via) => match x with ByMsg _ => ".msg" | ByProp => ".prop" end in
   match o with
   | OWlAcc x _ _ => "wl_acc" ++ v x | OBlAcc x _ _ => "bl_acc" ++ v x
   | ORmWlAcc x _ _ => "rm_wl_acc" ++ v x | ORmBlAcc x _ _ => "rm_bl_acc" ++ v x
   | OWlRole x _ _ => "wl_role" ++ v x | OBlRole x _ _ => "bl_role" ++ v x
   | ORmWlRole x _ _ => "rm_wl_role" ++ v x | ORmBlRole x _ _ => "rm_bl_role" ++ v x
   | OCreateRole x _ _ _ => "create_role" ++ v x | ORemoveRole _ => "remove_role.prop"
   | OAssign x _ _ => "assign" ++ v x | OUnassign x _ _ => "unassign" ++ v x
   | OClaimCouncilor _ => "claim_councilor" | OGate GPoll _ => "poll_create" | OGate GSubmit _ => "submit_proposal"
   | OGate GVote _ => "vote_proposal" | OGate GDapp _ => "dapp_nobond" | OGate (GOther _ _) _ => "probe"
   | OExportImport => "export_import" | ORotate _ _ => "rotate" end)%string.

Section Run.
Variable c : cfg.              (* variation points of the working tree, from Gen/Gates.v *)
Variable uperms : list Z.      (* permission universe of the harness *)

(* ======================= model vs observation *)
Definition invert (l : list (Z * Z)) : list (Z * Z) := map (fun e => (snd e, fst e)) l.
Definition state_of_obs (o : obs) : state :=
  mkState (o_actors o) (o_roles o) (o_rinfo o) (invert (o_rinfo o)) (Some (o_next o)) (o_ipa o) (o_ira o) (o_ipr o).

Definition state_matches (s : state) (o : obs) : bool :=
  map_eqb actor_eqb (actors s) (o_actors o) && map_eqb perms_eqb (rperms s) (o_roles o)
  && map_eqb Z.eqb (rinfo s) (o_rinfo o) && (get_next_role s =? o_next o)
  && pset_eqb (idx_pa s) (o_ipa o) && pset_eqb (idx_ra s) (o_ira o) && pset_eqb (idx_pr s) (o_ipr o)
  && forallb (fun e => forallb (fun p => Bool.eqb (check_allowed s (fst e) p) (mem p (snd e))) uperms) (o_allowed o)
  && forallb (fun e => match voters s (fst e), snd e with
                       | Ok l, Some l' => Nat.eqb (List.length l) (List.length l') && set_eqb l l'   (* the model's list has no repetition: same multiset *)
                       | Panic _, None => true
                       | _, _ => false end) (o_voters o).

(* the outcome of a rotation depends on accounts, fees and recovery secrets, which are outside the
   permission model: the observed outcome decides whether the gov part ran *)
Definition exec (s : state) (o : op) (ok : bool) : option state :=
  match o with
  | ORotate _ _ => if ok then Some (step_total c s o) else Some s
  (* a probe whose message may be refused for other reasons: only an acceptance is compared *)
  | OGate (GOther _ false) _ => if ok then (match step c s o with Ok s' => Some s' | _ => None end) else Some s
  | _ => match step c s o with
         | Ok s' => if ok then Some s' else None
         | _ => if ok then None else Some s end
  end.

Fixpoint hist_matches (s : state) (cur : obs) (l : list step_obs) : bool :=
  match l with
  | [] => true
  | (o, ok, ob) :: r =>
      match exec s o ok with
      | None => false
      | Some s' => let cur' := match ob with Some x => x | None => cur end in
                   state_matches s' cur' && hist_matches s' cur' r
      end
  end.
Definition case_matches (c : c07_case) : bool :=
  match c with CHist i l => let s := state_of_obs i in state_matches s i && hist_matches s i l end.

Fixpoint mismatches_from (n : nat) (cs : list c07_case) : list nat :=
  match cs with [] => [] | c :: r => if case_matches c then mismatches_from (S n) r else n :: mismatches_from (S n) r end.
Definition c07_mismatches (cs : list c07_case) : list nat := mismatches_from 0 cs.

(* ======================= the property, on the records the real code reports *)
(* An actor holds a permission exactly when it is whitelisted for the actor directly or through an
   assigned role and is blacklisted neither directly nor through an assigned role. *)
Definition via_role (o : obs) (act : actor) (sel : perms -> list Z) (p : Z) : bool :=
  existsb (fun r => match lookup r (o_roles o) with Some rp => mem p (sel rp) | None => false end) (a_roles act).
Definition spec_whitelisted (o : obs) (a p : Z) : bool :=
  match lookup a (o_actors o) with None => false | Some act => mem p (wl (a_perms act)) || via_role o act wl p end.
Definition spec_own_bl (o : obs) (a p : Z) : bool :=
  match lookup a (o_actors o) with None => false | Some act => mem p (bl (a_perms act)) end.
Definition spec_role_bl (o : obs) (a p : Z) : bool :=
  match lookup a (o_actors o) with None => false | Some act => via_role o act bl p end.
Definition spec_holds (o : obs) (a p : Z) : bool :=
  spec_whitelisted o a p && negb (spec_own_bl o a p) && negb (spec_role_bl o a p).

Definition obs_allowed (o : obs) (a p : Z) : bool := match lookup a (o_allowed o) with Some l => mem p l | None => false end.

(* discrepancies are (x, y, kind) triples; a step is blamed for the discrepancies that were not
   there in the previous observation *)
Definition disc := (Z * Z * string)%type.
Definition disc_eqb (x y : disc) : bool := pair_eqb (fst x) (fst y) && String.eqb (snd x) (snd y).
Definition dmem (x : disc) (l : list disc) : bool := existsb (disc_eqb x) l.
Definition dnew (now before : list disc) : list disc := filter (fun x => negb (dmem x before)) now.
Fixpoint sdedup (l : list string) : list string :=
  match l with [] => [] | x :: r => if str_in x r then sdedup r else x :: sdedup r end.
Definition kinds (l : list disc) : list string := sdedup (map snd l).

Definition all_pairs (xs ys : list Z) : list (Z * Z) := flat_map (fun x => map (fun y => (x, y)) ys) xs.

Definition allow_disc (o : obs) : list disc :=
  flat_map (fun ap => let '(a, p) := ap in
    match obs_allowed o a p, spec_holds o a p with
    | true, false => [(a, p, if spec_own_bl o a p then "allow-granted-despite-own-blacklist"
                             else if spec_role_bl o a p then "allow-granted-despite-role-blacklist"
                             else "allow-granted-without-whitelist")]
    | false, true => [(a, p, "allow-denied-despite-whitelist")]
    | _, _ => [] end)%string (all_pairs (map fst (o_allowed o)) uperms).

(* the lookup indexes equal the sets recomputed from the actor and role records ([canon]: each key of a
   dumped record list once -- the store yields every key once) *)
Definition spec_ipa (o : obs) : list (Z * Z) := flat_map (fun e => map (fun p => (p, fst e)) (wl (a_perms (snd e)))) (canon [] (o_actors o)).
Definition spec_ira (o : obs) : list (Z * Z) := flat_map (fun e => map (fun r => (r, fst e)) (a_roles (snd e))) (canon [] (o_actors o)).
Definition spec_ipr (o : obs) : list (Z * Z) := flat_map (fun e => map (fun p => (p, fst e)) (wl (snd e))) (canon [] (o_roles o)).
Definition tag (k : string) (l : list (Z * Z)) : list disc := map (fun x => (x, k)) l.
Definition index_disc (o : obs) : list disc :=
  tag "index-perm-addr-missing"%string (pdiff (spec_ipa o) (o_ipa o)) ++ tag "index-perm-addr-stale"%string (pdiff (o_ipa o) (spec_ipa o))
  ++ tag "index-role-addr-missing"%string (pdiff (spec_ira o) (o_ira o)) ++ tag "index-role-addr-stale"%string (pdiff (o_ira o) (spec_ira o))
  ++ tag "index-perm-role-missing"%string (pdiff (spec_ipr o) (o_ipr o)) ++ tag "index-perm-role-stale"%string (pdiff (o_ipr o) (spec_ipr o)).

(* the eligible voters of a permission are exactly the actors whose own or role whitelist carries it,
   each listed exactly once (the list is what the tally counts) *)
Fixpoint dup_elems (l : list Z) : list Z :=
  match l with [] => [] | x :: r => if mem x r then x :: dup_elems r else dup_elems r end.
Definition spec_voters (o : obs) (p : Z) : list Z := filter (fun a => spec_whitelisted o a p) (map fst (canon [] (o_actors o))).
Definition voters_disc (o : obs) : list disc :=
  flat_map (fun e => let p := fst e in
    match snd e with
    | None => [(p, 0, "voters-panic"%string)]
    | Some l => map (fun a => (p, a, "voters-missing"%string)) (filter (fun a => negb (mem a l)) (spec_voters o p))
                ++ map (fun a => (p, a, "voters-extra"%string)) (filter (fun a => negb (mem a (spec_voters o p))) l)
                ++ map (fun a => (p, a, "voters-duplicate"%string)) (dup_elems l)
    end) (o_voters o).

(* the dumped records list every role / permission once *)
Definition record_disc (o : obs) : list disc :=
  flat_map (fun e => map (fun r => (fst e, r, "record-duplicate-role"%string)) (dup_elems (a_roles (snd e)))
                     ++ map (fun p => (fst e, p, "record-duplicate-actor-whitelist"%string)) (dup_elems (wl (a_perms (snd e)))))
           (canon [] (o_actors o))
  ++ flat_map (fun e => map (fun p => (fst e, p, "record-duplicate-role-whitelist"%string)) (dup_elems (wl (snd e)))
                        ++ map (fun p => (fst e, p, "record-duplicate-role-blacklist"%string)) (dup_elems (bl (snd e))))
              (canon [] (o_roles o)).

(* every gated message succeeds only for an actor holding the required permission at that moment *)
Definition acc_gate_spec (o : obs) (x p : Z) : bool :=
  spec_holds o x PermSetPermissions || ((p =? PermClaimValidator) && spec_holds o x PermSetClaimValidatorPermission).
Definition via_spec (v : via) (g : Z -> bool) : bool := match v with ByMsg x => g x | ByProp => true end.
Definition gate_spec (before : obs) (o : op) : bool :=
  match o with
  | OWlAcc v _ p | OBlAcc v _ p | ORmWlAcc v _ p | ORmBlAcc v _ p => via_spec v (fun x => acc_gate_spec before x p)
  | OWlRole v _ _ | OBlRole v _ _ | ORmWlRole v _ _ | ORmBlRole v _ _ | OCreateRole v _ _ _ | OAssign v _ _ | OUnassign v _ _ =>
      via_spec v (fun x => spec_holds before x PermUpsertRole)
  | OClaimCouncilor a => spec_holds before a PermClaimCouncilor
  | OGate GPoll x => spec_holds before x PermCreatePollProposal
  | OGate GSubmit x => spec_holds before x PermCreateSetPoorNetworkMessagesProposal
  | OGate GVote x => spec_holds before x PermVoteSetPoorNetworkMessagesProposal
  | OGate GDapp x => spec_holds before x PermCreateDappProposalWithoutBond      (* waiver of the bond *)
  | OGate (GOther p _) x => spec_holds before x p
  | ORemoveRole _ | OExportImport | ORotate _ _ => true
  end.

(* a genesis export / import reproduces who holds what *)
Definition import_disc (before after : obs) : list string :=
  sdedup (flat_map (fun ap => let '(a, p) := ap in
    match obs_allowed before a p, obs_allowed after a p with
    | false, true => [if spec_role_bl before a p then "import-grants-role-blacklisted"
                      else if spec_own_bl before a p then "import-grants-own-blacklisted" else "import-grants-not-whitelisted"]
    | true, false => ["import-revokes"]
    | _, _ => [] end)%string (all_pairs (map fst (o_allowed before)) uperms)).

(* after a rotation the old address holds nothing; when the new address had no record of its own it
   holds exactly what the old one held *)
Definition has_actor (o : obs) (a : Z) : bool := match lookup a (o_actors o) with Some _ => true | None => false end.
Definition rotate_disc (before after : obs) (a b : Z) : list string :=
  let fresh := has_actor before a && negb (has_actor before b) in
  (if existsb (fun p => obs_allowed after a p) uperms then ["rotate-old-address-keeps-permissions"%string] else [])
  ++ (if fresh && existsb (fun p => obs_allowed before a p && negb (obs_allowed after b p)) uperms then ["rotate-new-address-lost-permissions"%string] else [])
  ++ (if fresh && existsb (fun p => negb (obs_allowed before a p) && obs_allowed after b p) uperms then ["rotate-new-address-gained-permissions"%string] else [])
  ++ (if has_actor before a && has_actor after a then ["rotate-old-actor-record-remains"%string] else []).

(* ---- ghost record (the checker's own book-keeping): what each accepted operation is MEANT to do to
   the records, written from the meaning of the message at set level; compared with the records the
   code left behind.  A rejected operation must leave the records as they were. *)
Definition sadd (x : Z) (l : list Z) : list Z := if mem x l then l else l ++ [x].
Definition srem (x : Z) (l : list Z) : list Z := filter (fun y => negb (y =? x)) l.
Fixpoint sset (l : list Z) : list Z := match l with [] => [] | x :: r => sadd x (sset r) end.
Definition g_actor (o : obs) (a : Z) : actor := match lookup a (o_actors o) with Some x => x | None => default_actor end.
Definition g_edit_actor (o : obs) (a : Z) (f : actor -> actor) : list (Z * actor) * list (Z * perms) :=
  (upd a (f (g_actor o a)) (o_actors o), o_roles o).
Definition g_edit_role (o : obs) (r : Z) (f : perms -> perms) : list (Z * actor) * list (Z * perms) :=
  match lookup r (o_roles o) with Some rp => (o_actors o, upd r (f rp) (o_roles o)) | None => (o_actors o, o_roles o) end.
Definition on_wl (f : list Z -> list Z) (x : actor) : actor := mkActor (a_roles x) (mkPerms (f (wl (a_perms x))) (bl (a_perms x))).
Definition on_bl (f : list Z -> list Z) (x : actor) : actor := mkActor (a_roles x) (mkPerms (wl (a_perms x)) (f (bl (a_perms x)))).
Definition on_roles (f : list Z -> list Z) (x : actor) : actor := mkActor (f (a_roles x)) (a_perms x).
Definition expected_records (o : obs) (e : op) : option (list (Z * actor) * list (Z * perms)) :=
  match e with
  | OWlAcc _ a p => Some (g_edit_actor o a (on_wl (sadd p)))
  | OBlAcc _ a p => Some (g_edit_actor o a (on_bl (sadd p)))
  | ORmWlAcc _ a p => Some (g_edit_actor o a (on_wl (srem p)))
  | ORmBlAcc _ a p => Some (g_edit_actor o a (on_bl (srem p)))
  | OWlRole _ r p => Some (g_edit_role o r (fun rp => mkPerms (sadd p (wl rp)) (bl rp)))
  | OBlRole _ r p => Some (g_edit_role o r (fun rp => mkPerms (wl rp) (sadd p (bl rp))))
  | ORmWlRole _ r p => Some (g_edit_role o r (fun rp => mkPerms (srem p (wl rp)) (bl rp)))
  | ORmBlRole _ r p => Some (g_edit_role o r (fun rp => mkPerms (wl rp) (srem p (bl rp))))
  | OCreateRole _ _ w b => Some (o_actors o, upd (o_next o) (mkPerms (sset w) (sset b)) (o_roles o))
  | ORemoveRole _ => None
  | OAssign _ a r => Some (g_edit_actor o a (on_roles (sadd r)))
  | OUnassign _ a r => Some (g_edit_actor o a (on_roles (srem r)))
  | OClaimCouncilor a => Some (g_edit_actor o a (fun x => if mem PermCreatePollProposal (bl (a_perms x)) then x else on_wl (sadd PermCreatePollProposal) x))
  | OGate _ _ | OExportImport => Some (o_actors o, o_roles o)
  | ORotate a b =>
      match lookup a (o_actors o), lookup b (o_actors o) with
      | None, _ => Some (o_actors o, o_roles o)
      | Some act, None => if a =? b then None else Some (upd b act (del a (o_actors o)), o_roles o)
      | Some _, Some _ => None          (* a target with a record of its own: no expectation (known finding) *)
      end
  end.
Definition perms_seteq (x y : perms) : bool := set_eqb (wl x) (wl y) && set_eqb (bl x) (bl y).
Definition actor_seteq (x y : actor) : bool := set_eqb (a_roles x) (a_roles y) && perms_seteq (a_perms x) (a_perms y).
Definition ghost_disc (before : obs) (e : op) (ok : bool) (now : obs) : list string :=
  if ok then
    match expected_records before e with
    | None => []
    | Some (ea, er) => if map_eqb actor_seteq ea (o_actors now) && map_eqb perms_seteq er (o_roles now) then [] else ["edit-effect"%string]
    end
  else if map_eqb actor_eqb (o_actors before) (o_actors now) && map_eqb perms_eqb (o_roles before) (o_roles now) then []
       else ["rejected-operation-changed-records"%string].

Definition with_op (o : op) (l : list string) : list string := map (fun k => (k ++ ":" ++ op_name o)%string) l.

Definition state_clauses (who : string) (before : option obs) (now : obs) : list string :=
  let prev := fun (f : obs -> list disc) => match before with Some b => f b | None => [] end in
  let a := dnew (allow_disc now) (prev allow_disc) in
  let i := dnew (index_disc now) (prev index_disc) in
  let v0 := dnew (voters_disc now) (prev voters_disc) in
  let is_dup := fun (d : disc) => String.eqb (snd d) "voters-duplicate" in
  let v := filter (fun d => negb (is_dup d)) v0 in
  (* an actor listed twice is never explained by an index defect: always reported *)
  let vd := map (fun k => (k ++ ":enumeration")%string) (kinds (filter is_dup v0)) in
  let rd := dnew (record_disc now) (prev record_disc) in
  let vk := match index_disc now, i with
            | [], _ => map (fun k => (k ++ ":enumeration")%string) (kinds v)     (* indexes right, enumeration wrong *)
            | _, [] => []                                                        (* consequence of an older index defect *)
            | _, _ => map (fun k => (k ++ ":" ++ who)%string) (kinds v) end in
  map (fun k => (k ++ ":" ++ who)%string) (kinds a ++ kinds i ++ kinds rd) ++ vk ++ vd.

Definition step_clauses (before : obs) (o : op) (ok : bool) (now : obs) : list string :=
  state_clauses (op_name o) (Some before) now
  ++ (if ok && negb (gate_spec before o) then with_op o ["gate"%string] else [])
  ++ with_op o (ghost_disc before o ok now)
  ++ match o with
     | OExportImport => if ok then with_op o (import_disc before now) else []
     | ORotate a b => if ok then with_op o (rotate_disc before now a b) else []
     | _ => [] end.

(* a rotation that went wrong leaves corrupted records (re-saved old actor, duplicated roles); what
   follows in that history is a consequence and is not attributed to later operations *)
Fixpoint hist_clauses (cur : obs) (l : list step_obs) : list string :=
  match l with
  | [] => []
  | (o, ok, ob) :: r => let now := match ob with Some x => x | None => cur end in
                        let cl := step_clauses cur o ok now in
                        match o, cl with
                        | ORotate _ _, _ :: _ => cl
                        | _, _ => cl ++ hist_clauses now r end
  end.
Definition case_clauses (c : c07_case) : list string :=
  match c with CHist i l => sdedup (state_clauses "init" None i ++ hist_clauses i l) end.

Fixpoint violations_from (n : nat) (cs : list c07_case) : list (nat * list string) :=
  match cs with [] => [] | c :: r =>
    match case_clauses c with [] => violations_from (S n) r | cl => (n, cl) :: violations_from (S n) r end end.
Definition c07_violations (cs : list c07_case) : list (nat * list string) := violations_from 0 cs.
End Run.
