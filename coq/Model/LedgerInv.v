(* C04 -- the bank ledger, the books of the modules that hold other people's coins, and the
   operations that move coins.  Definitions only (lemmas: Proofs/LedgerInv.v).

   Accounts, denominations and record identifiers are integers.  Finite maps (balances, supply,
   module records) are DELTA JOURNALS: the value stored under a key is the sum of the deltas
   journalled for that key; an update conses one delta.  Every operation of a module is compiled
   ([compile]) into guards plus a list of primitive effects ([eff]) which is applied atomically
   ([apply_effs]): one failing primitive (insufficient funds, missing mint/burn permission,
   a record driven below zero = the Coins.Sub panic) fails the whole operation, and a failed
   operation leaves the state unchanged (message cache of baseapp / CacheContext of ApplyProposal).

   Code modelled (as it is):
     bank (cosmos-sdk v0.47.6)               SendCoins*, MintCoins, BurnCoins + app/app.go maccPerms
     x/tokens/keeper/{mint,burn}.go          funnel to bank Mint/Burn
     x/multistaking/keeper/delegation.go     Delegate, Undelegate, IncreasePoolRewards (credit), ClaimRewards
     x/multistaking/keeper/msg_server.go     ClaimUndelegation
     x/multistaking/keeper/slash.go          SlashStakingPool;  types GetPoolCoins
     x/basket/keeper/mint_burn_swap.go       MintBasketToken, BurnBasketToken, BasketSwap, BasketWithdrawSurplus
     x/spending/keeper/spending_pool.go      Deposit*, ClaimSpendingPool;  proposal_handler.go SpendingPoolWithdraw
     x/ubi/keeper/ubi.go                     ProcessUBIRecord
     x/gov/keeper/identity_registrar.go      Request/Handle/Cancel IdentityRecordsVerify (tips)
     x/distributor/keeper/distributor.go     inflation mint, validator pay-out (out of unallocated fees)
     layer2 dapp bonds, collectives bonds/donations, recovery-token backing: the generic escrow book
     layer2 MintCreate*Tx fee burn, MintIssueTx / MintBurnTx *)
From Sekai Require Import Base.Prelude Base.Dec Gen.MintBurnSites.

(* ---------------------------------------------------------------- accounts *)
Definition FC : Z := 1.      (* fee_collector *)
Definition GOV : Z := 2.     (* customgov *)
Definition MINT : Z := 3.    (* mint *)
Definition SPEND : Z := 4.   (* spending *)
Definition DISTR : Z := 5.   (* distributor *)
Definition BASKET : Z := 6.  (* basket *)
Definition MS : Z := 7.      (* multistaking *)
Definition COLLM : Z := 8.   (* collectives *)
Definition L2 : Z := 9.      (* layer2 *)
Definition REC : Z := 10.    (* recovery *)
(* module accounts are 1..10, user accounts 100..999, per-collective escrow addresses >= 1000 *)
Definition is_macc (m : Z) : bool := (1 <=? m) && (m <=? 10).
Definition is_user (u : Z) : bool := (100 <=? u) && (u <? 1000).
Definition is_escrow (m : Z) : bool := is_macc m || (1000 <=? m).
(* app/app.go maccPerms (compared with the generated table in Properties/C04.v) *)
Definition minter (m : Z) : bool := (m =? MINT) || (m =? BASKET) || (m =? L2) || (m =? REC).
Definition burner (m : Z) : bool := (m =? BASKET) || (m =? MS) || (m =? L2) || (m =? REC).

(* ---------------------------------------------------------------- denominations *)
(* native 0..99 (0 = ukex); share token of pool p>=1 for native d: p*100+d; basket token of
   basket b: 100000+b; layer2-issued tokens >= 200000 *)
Definition is_native (d : Z) : bool := (0 <=? d) && (d <? 100).
Definition share (p d : Z) : Z := p * 100 + d.
Definition basket_denom (b : Z) : Z := 100000 + b.
Definition is_share (d : Z) : bool := (100 <=? d) && (d <? 100000).

(* ---------------------------------------------------------------- journals *)
Definition lentry := (Z * Z * Z)%type.                 (* account, denom, delta *)
Definition sentry := (Z * Z)%type.                     (* denom, delta *)
Definition bentry := (Z * Z * Z * Z * Z)%type.         (* owing account, record kind, record id, denom, delta *)
Definition aentry := (Z * Z * Z * Z)%type.             (* kind, id, denom, delta : records that are not liabilities *)

Fixpoint jbal (j : list lentry) (a d : Z) : Z :=
  match j with [] => 0 | (a', d', x) :: r => (if (a' =? a) && (d' =? d) then x else 0) + jbal r a d end.
Fixpoint jtot (j : list lentry) (d : Z) : Z :=
  match j with [] => 0 | (_, d', x) :: r => (if d' =? d then x else 0) + jtot r d end.
Fixpoint ssum (j : list sentry) (d : Z) : Z :=
  match j with [] => 0 | (d', x) :: r => (if d' =? d then x else 0) + ssum r d end.
Fixpoint brec (j : list bentry) (m k i d : Z) : Z :=
  match j with [] => 0 | (m', k', i', d', x) :: r =>
    (if (m' =? m) && (k' =? k) && (i' =? i) && (d' =? d) then x else 0) + brec r m k i d end.
Fixpoint bliab (j : list bentry) (m d : Z) : Z :=
  match j with [] => 0 | (m', _, _, d', x) :: r => (if (m' =? m) && (d' =? d) then x else 0) + bliab r m d end.
Fixpoint arec (j : list aentry) (k i d : Z) : Z :=
  match j with [] => 0 | (k', i', d', x) :: r =>
    (if (k' =? k) && (i' =? i) && (d' =? d) then x else 0) + arec r k i d end.

Record state := mkState { led : list lentry; sup : list sentry; bk : list bentry; aux : list aentry }.
Definition bal (s : state) (a d : Z) : Z := jbal (led s) a d.
Definition supply (s : state) (d : Z) : Z := ssum (sup s) d.
Definition total (s : state) (d : Z) : Z := jtot (led s) d.        (* sum of ALL balances, see sum_over_accounts *)
Definition book (s : state) (m k i d : Z) : Z := brec (bk s) m k i d.
Definition liab (s : state) (m d : Z) : Z := bliab (bk s) m d.     (* everything account m owes in denom d *)
Definition auxv (s : state) (k i d : Z) : Z := arec (aux s) k i d.

(* sum of the balances of a list of accounts *)
Definition sum_bal (s : state) (U : list Z) (d : Z) : Z := zsum (map (fun a => bal s a d) U).
Definition accounts_of (s : state) : list Z := map (fun e => fst (fst e)) (led s).

(* record kinds *)
Definition K_STAKED : Z := 1.    (* (MS, pool) TotalStakingTokens *)
Definition K_UNDEL : Z := 2.     (* (MS, undelegation id) Amount *)
Definition K_REWARD : Z := 3.    (* (FC, delegator) unclaimed rewards *)
Definition K_BTOKEN : Z := 4.    (* (BASKET, basket) token reserves *)
Definition K_SURPLUS : Z := 5.   (* (BASKET, basket) surplus *)
Definition K_SPOOL : Z := 6.     (* (SPEND, pool) Balances *)
Definition K_TIP : Z := 7.       (* (GOV, request id) Tip *)
(* aux kinds *)
Definition A_SLASHED : Z := 1.   (* pool.Slashed, a Dec, under denom 0 *)
Definition A_TREASURY : Z := 2.  (* distributor FeesTreasury record *)
Definition A_BAMOUNT : Z := 3.   (* basket.Amount *)

(* ---------------------------------------------------------------- primitive effects *)
Inductive eff : Type :=
| ESend (a b d x : Z)          (* bank SendCoins: 0 <= x <= balance of a *)
| EMint (m d x : Z)            (* bank MintCoins to module m: needs Minter *)
| EBurn (m d x : Z)            (* bank BurnCoins from module m: needs Burner, 0 <= x <= balance *)
| EBook (m k i d x : Z)        (* record (m,k,i).d += x; a negative result is the Coins.Sub panic *)
| EAux (k i d x : Z).

Definition apply_eff (e : eff) (s : state) : option state :=
  match e with
  | ESend a b d x =>
      if (0 <=? x) && (x <=? bal s a d)
      then Some (mkState ((b, d, x) :: (a, d, - x) :: led s) (sup s) (bk s) (aux s)) else None
  | EMint m d x =>
      if minter m && (0 <=? x)
      then Some (mkState ((m, d, x) :: led s) ((d, x) :: sup s) (bk s) (aux s)) else None
  | EBurn m d x =>
      if burner m && (0 <=? x) && (x <=? bal s m d)
      then Some (mkState ((m, d, - x) :: led s) ((d, - x) :: sup s) (bk s) (aux s)) else None
  | EBook m k i d x =>
      if 0 <=? book s m k i d + x
      then Some (mkState (led s) (sup s) ((m, k, i, d, x) :: bk s) (aux s)) else None
  | EAux k i d x => Some (mkState (led s) (sup s) (bk s) ((k, i, d, x) :: aux s))
  end.

Fixpoint apply_effs (es : list eff) (s : state) : option state :=
  match es with
  | [] => Some s
  | e :: r => match apply_eff e s with Some s1 => apply_effs r s1 | None => None end
  end.

(* what an effect does to a balance / the supply / the liabilities of an account *)
Definition eff_bal (e : eff) (a d : Z) : Z :=
  match e with
  | ESend f t d' x => (if (t =? a) && (d' =? d) then x else 0) + ((if (f =? a) && (d' =? d) then - x else 0) + 0)
  | EMint m d' x => (if (m =? a) && (d' =? d) then x else 0) + 0
  | EBurn m d' x => (if (m =? a) && (d' =? d) then - x else 0) + 0
  | _ => 0
  end.
Definition eff_sup (e : eff) (d : Z) : Z :=
  match e with
  | EMint _ d' x => (if d' =? d then x else 0) + 0
  | EBurn _ d' x => (if d' =? d then - x else 0) + 0
  | _ => 0
  end.
Definition eff_liab (e : eff) (m d : Z) : Z :=
  match e with
  | EBook m' _ _ d' x => (if (m' =? m) && (d' =? d) then x else 0) + 0
  | _ => 0
  end.
Fixpoint effs_bal (es : list eff) (a d : Z) : Z := match es with [] => 0 | e :: r => eff_bal e a d + effs_bal r a d end.
Fixpoint effs_sup (es : list eff) (d : Z) : Z := match es with [] => 0 | e :: r => eff_sup e d + effs_sup r d end.
Fixpoint effs_liab (es : list eff) (m d : Z) : Z := match es with [] => 0 | e :: r => eff_liab e m d + effs_liab r m d end.

(* ---------------------------------------------------------------- operations *)
Inductive bop : Type :=
| BankSend (u v d x : Z)                    (* MsgSend between user accounts (module accounts are blocked receivers) *)
| PayFee (u d x : Z)                        (* ante handler: fee to the fee collector *)
| Inflate (d x : Z)                         (* AllocateTokens: mint to "mint", move to the fee collector *)
| FcPayout (v d x : Z)                      (* validator reward / execution-fee refund out of UNALLOCATED fees *)
| MsDelegate (u p d x : Z)
| MsUndelegate (u p d x id : Z)
| MsClaimUndel (v id d : Z)                 (* pays whoever sends the message (no owner check in the code) *)
| MsSlash (p frac : Z) (ds : list Z)        (* ds: the denominations staked in the pool *)
| MsAllocate (u d r : Z) (caps : list Z)    (* IncreasePoolRewards for a sole delegator u: reward r of denom d *)
| MsClaimRewards (u d : Z)
| BkMint (u b d x t : Z)                    (* deposit x of d, t basket tokens minted *)
| BkBurn (u b t : Z) (outs : list (Z * Z))  (* burn t basket tokens, withdraw outs *)
| BkSwap (u b din x fee dout out slip : Z)
| BkWithdrawSurplus (b v d : Z)
| SpDeposit (u pool d x : Z)
| SpClaim (v pool d x : Z)
| SpWithdraw (pool v d x : Z)               (* SpendingPoolWithdraw proposal: sends, then reduces the book *)
| UbiPayout (pool d x : Z)
| TipRequest (u id d x : Z)
| TipHandle (v id d : Z)
| TipCancel (u id d : Z)
| EscDeposit (m k i u d x : Z)              (* generic escrow book: dapp bonds, collective bonds/donations, recovery backing *)
| EscWithdraw (m k i v d x : Z)
| L2FeeBurn (u d x : Z)                     (* MintCreateFtTx/NftTx fee: to layer2, burnt *)
| L2MintIssue (u d x : Z)                   (* MintIssueTx *)
| L2MintBurn (u d x : Z)                    (* MintBurnTx *)
(* round 2: concrete arithmetic and proposal paths *)
| SpWithdrawProp (pool : Z) (vs : list Z) (amts : list (Z * Z))
     (* SpendingPoolWithdraw proposal: EVERY listed beneficiary is paid amts, the pool record drops by amts per beneficiary *)
| SpClaims (pool : Z) (rates : list (Z * Z)) (cl : list (Z * Z * Z))
     (* ClaimSpendingPool for each (beneficiary, duration, weight): one claim message, or the
        SpendingPoolDistribution proposal (all beneficiaries, atomically); rates: denom -> Dec per second *)
| BkMintC (u b : Z) (deps : list (Z * Z * Z))   (* MintBasketToken: deposits (denom, amount, weight of the denom in the basket) *)
| BkBurnC (u b t : Z) (ds : list Z)             (* BurnBasketToken: ds = the basket's tokens with withdraws enabled *)
(* round 3: Undelegate with the repaired redemption (GetRedeemPoolCoins: shares burnt pro rata to the pool's books,
   rounded up), and "Undelegate as the tree implements it" -- the shape is read from the source by the translator
   (Gen.MintBurnSites.undelegate_pro_rata).  MsUndelegate above stays the old shape (amount*(1-slashed)). *)
| MsUndelegateR (u p d x id : Z)
| MsUndelegateT (u p d x id : Z).

(* GetPoolCoins: RoundInt(amount * (1 - Slashed)) *)
Definition pool_coin (sl x : Z) : Z := round_int (chop_round (dec_of_int x * (dec_one - sl))).
Definition slashed_of (s : state) (p : Z) : Z := auxv s A_SLASHED p 0.
(* GetRedeemPoolCoins: ceil(amount * shares / stake); pool.TotalShareTokens moves with the bank supply of the share
   token in Delegate/Undelegate (the harness checks record = supply at every observation) *)
Definition redeem_burn (S K x : Z) : Z := (x * S + (K - 1)) / K.
Definition undel_effs (u p d x id sh : Z) : list eff :=
  [ESend u MS (share p d) sh; EBurn MS (share p d) sh; EBook MS K_STAKED p d (- x); EBook MS K_UNDEL id d x].
Definition undel_guard (s : state) (u p d x id : Z) : bool :=
  is_user u && is_native d && (1 <=? p) && (p <? 1000) && (0 <? x) && (book s MS K_UNDEL id d =? 0).

Fixpoint nodupb (l : list Z) : bool := match l with [] => true | x :: r => negb (existsb (Z.eqb x) r) && nodupb r end.

(* SlashStakingPool, one staked denomination: new = RoundInt(old * (1-frac)); the cut of denom 0 is
   burnt, the cut of any other denom goes to the fee collector and is added to the treasury record *)
Definition slash_cut (s : state) (p frac d : Z) : Z :=
  let old := book s MS K_STAKED p d in old - round_int (chop_round (dec_of_int old * (dec_one - frac))).
Definition slash_one (s : state) (p frac d : Z) : list eff :=
  let cut := slash_cut s p frac d in
  if d =? 0 then [EBook MS K_STAKED p d (- cut); EBurn MS d cut]
  else [EBook MS K_STAKED p d (- cut); ESend MS FC d cut; EAux A_TREASURY 0 d cut].

(* IncreasePoolRewards: per staked denom the allocation is RoundInt(reward * StakeCap); a sole
   delegator holding all shares is credited all of it *)
Definition credited (r : Z) (caps : list Z) : Z := zsum (map (fun c => round_int (chop_round (dec_of_int r * c))) caps).

Definition withdraw_effs (m k i v : Z) (outs : list (Z * Z)) : list eff :=
  flat_map (fun o => [EBook m k i (fst o) (- snd o); ESend m v (fst o) (snd o)]) outs.

Definition guard (b : bool) (es : list eff) : option (list eff) := if b then Some es else None.

(* several payees, several denominations each: record down and coins out, per payee *)
Definition pay_effs (m k i : Z) (pays : list (Z * list (Z * Z))) : list eff :=
  flat_map (fun p => withdraw_effs m k i (fst p) (snd p)) pays.
Definition pays_ok (pays : list (Z * list (Z * Z))) : bool :=
  forallb (fun p => is_user (fst p) && forallb (fun o => 0 <=? snd o) (snd p)) pays.
Definition deposit_effs (u m k i : Z) (deps : list (Z * Z)) : list eff :=
  flat_map (fun o => [ESend u m (fst o) (snd o); EBook m k i (fst o) (snd o)]) deps.

(* ClaimSpendingPool: rate.Amount.Mul(NewDec(duration)).Mul(weight).RoundInt() *)
Definition claim_amt (rate dur w : Z) : Z := round_int (chop_round (chop_round (rate * dec_of_int dur) * w)).
Definition claim_outs (rates : list (Z * Z)) (dur w : Z) : list (Z * Z) :=
  map (fun r => (fst r, claim_amt (snd r) dur w)) rates.

(* MintBasketToken: TruncateInt(sum NewDecFromInt(amount).Mul(rate)) *)
Definition basket_mint_amt (deps : list (Z * Z * Z)) : Z :=
  trunc_int (zsum (map (fun e => chop_round (dec_of_int (snd (fst e)) * snd e)) deps)).
(* BurnBasketToken: portion = Dec(burn).Quo(Dec(supply AFTER the burn)); per token TruncateInt(Dec(amount).Mul(portion)),
   only positive amounts are withdrawn *)
Definition burn_portion (t supAfter : Z) : Z := chop_round (Z.quot (dec_of_int t * PREC * PREC) (dec_of_int supAfter)).
Definition burn_outs (amount : Z -> Z) (portion : Z) (ds : list Z) : list (Z * Z) :=
  flat_map (fun d => let w := trunc_int (chop_round (dec_of_int (amount d) * portion)) in if 0 <? w then [(d, w)] else []) ds.
Definition bkburn_effs (u b t : Z) (outs : list (Z * Z)) : list eff :=
  ESend u BASKET (basket_denom b) t :: EBurn BASKET (basket_denom b) t ::
  withdraw_effs BASKET K_BTOKEN b u outs ++ [EAux A_BAMOUNT b 0 (- t)].

Definition compile (o : bop) (s : state) : option (list eff) :=
  match o with
  | BankSend u v d x => guard (is_user u && is_user v) [ESend u v d x]
  | PayFee u d x => guard (is_user u && (0 <=? x)) [ESend u FC d x]
  | Inflate d x => guard (is_native d && (0 <=? x)) [EMint MINT d x; ESend MINT FC d x]
  | FcPayout v d x => guard (is_user v && (liab s FC d + x <=? bal s FC d)) [ESend FC v d x]
  | MsDelegate u p d x =>
      guard (is_user u && is_native d && (1 <=? p) && (p <? 1000) && (slashed_of s p =? 0) && (0 <? x))
        [ESend u MS d x; EBook MS K_STAKED p d x; EMint MINT (share p d) x; ESend MINT u (share p d) x]
  | MsUndelegate u p d x id =>
      guard (undel_guard s u p d x id) (undel_effs u p d x id (pool_coin (slashed_of s p) x))
  | MsUndelegateR u p d x id =>
      let K := book s MS K_STAKED p d in
      guard (undel_guard s u p d x id && (0 <? K)) (undel_effs u p d x id (redeem_burn (supply s (share p d)) K x))
  | MsUndelegateT u p d x id =>
      let K := book s MS K_STAKED p d in
      if undelegate_pro_rata
      then guard (undel_guard s u p d x id && (0 <? K)) (undel_effs u p d x id (redeem_burn (supply s (share p d)) K x))
      else guard (undel_guard s u p d x id) (undel_effs u p d x id (pool_coin (slashed_of s p) x))
  | MsClaimUndel v id d =>
      let x := book s MS K_UNDEL id d in
      guard (is_user v) [ESend MS v d x; EBook MS K_UNDEL id d (- x)]
  | MsSlash p frac ds =>
      (* Coins.Sub(old, new) panics when a new amount exceeds the old one *)
      guard ((0 <=? frac) && (frac <=? dec_one) && nodupb ds && (1 <=? p) && forallb (fun d => 0 <=? slash_cut s p frac d) ds)
        (EAux A_SLASHED p 0 (frac - slashed_of s p) :: flat_map (slash_one s p frac) ds)
  | MsAllocate u d r caps =>
      (* AllocateTokens hands out only fees collected since the last allocation (balance - treasury) *)
      guard (is_user u && (0 <=? r) && (liab s FC d + r <=? bal s FC d)) [EBook FC K_REWARD u d (credited r caps)]
  | MsClaimRewards u d =>
      let x := book s FC K_REWARD u d in
      guard (is_user u) [ESend FC u d x; EBook FC K_REWARD u d (- x)]
  | BkMint u b d x t =>
      guard (is_user u && (0 <=? b) && (0 <? x) && (0 <=? t))
        [ESend u BASKET d x; EMint BASKET (basket_denom b) t; ESend BASKET u (basket_denom b) t;
         EBook BASKET K_BTOKEN b d x; EAux A_BAMOUNT b 0 t]
  | BkBurn u b t outs =>
      guard (is_user u && (0 <=? b) && (0 <? t) && forallb (fun o => 0 <=? snd o) outs)
        (bkburn_effs u b t outs)
  | BkSwap u b din x fee dout out slip =>
      guard (is_user u && (0 <=? fee) && (fee <=? x) && (0 <=? slip) && (slip <=? out) && negb (din =? dout))
        [ESend u BASKET din x; EBook BASKET K_BTOKEN b din (x - fee); EBook BASKET K_SURPLUS b din fee;
         EBook BASKET K_BTOKEN b dout (- out); ESend BASKET u dout (out - slip); EBook BASKET K_SURPLUS b dout slip]
  | BkWithdrawSurplus b v d =>
      let x := book s BASKET K_SURPLUS b d in
      guard (is_user v) [ESend BASKET v d x; EBook BASKET K_SURPLUS b d (- x)]
  | SpDeposit u pool d x => guard (is_user u) [ESend u SPEND d x; EBook SPEND K_SPOOL pool d x]
  | SpClaim v pool d x => guard (is_user v && (0 <=? x)) [EBook SPEND K_SPOOL pool d (- x); ESend SPEND v d x]
  | SpWithdraw pool v d x => guard (is_user v && (0 <=? x)) [ESend SPEND v d x; EBook SPEND K_SPOOL pool d (- x)]
  | UbiPayout pool d x =>
      guard (is_native d) [EMint MINT d x; ESend MINT SPEND d x; EBook SPEND K_SPOOL pool d x]
  | TipRequest u id d x =>
      guard (is_user u && (book s GOV K_TIP id d =? 0) && (0 <=? x)) [EBook GOV K_TIP id d x; ESend u GOV d x]
  | TipHandle v id d =>
      let x := book s GOV K_TIP id d in guard (is_user v) [ESend GOV v d x; EBook GOV K_TIP id d (- x)]
  | TipCancel u id d =>
      let x := book s GOV K_TIP id d in guard (is_user u) [ESend GOV u d x; EBook GOV K_TIP id d (- x)]
  | EscDeposit m k i u d x =>
      guard (is_user u && is_escrow m && (10 <=? k)) [ESend u m d x; EBook m k i d x]
  | EscWithdraw m k i v d x =>
      guard (is_user v && is_escrow m && (10 <=? k) && (0 <=? x)) [EBook m k i d (- x); ESend m v d x]
  | L2FeeBurn u d x => guard (is_user u && is_native d) [ESend u L2 d x; EBurn L2 d x]
  | L2MintIssue u d x =>
      guard (is_user u && (is_native d || (200000 <=? d))) [EMint L2 d x; ESend L2 u d x]
  | L2MintBurn u d x =>
      guard (is_user u && (is_native d || (200000 <=? d))) [ESend u L2 d x; EBurn L2 d x]
  | SpWithdrawProp pool vs amts =>
      let pays := map (fun v => (v, amts)) vs in
      guard (pays_ok pays) (pay_effs SPEND K_SPOOL pool pays)
  | SpClaims pool rates cl =>
      let pays := map (fun c => (fst (fst c), claim_outs rates (snd (fst c)) (snd c))) cl in
      guard (pays_ok pays) (pay_effs SPEND K_SPOOL pool pays)
  | BkMintC u b deps =>
      let t := basket_mint_amt deps in
      guard (is_user u && (0 <=? b) && (0 <=? t))
        (deposit_effs u BASKET K_BTOKEN b (map fst deps)
         ++ [EMint BASKET (basket_denom b) t; ESend BASKET u (basket_denom b) t; EAux A_BAMOUNT b 0 t])
  | BkBurnC u b t ds =>
      let supAfter := supply s (basket_denom b) - t in
      let outs := burn_outs (fun d => book s BASKET K_BTOKEN b d) (burn_portion t supAfter) ds in
      (* Quo by a zero supply panics; nothing withdrawable is an error; Coins built by Add: one entry per denom *)
      guard (is_user u && (0 <=? b) && (0 <? t) && negb (supAfter =? 0) && nodupb ds
             && negb (match outs with [] => true | _ => false end) && forallb (fun o => 0 <=? snd o) outs)
        (bkburn_effs u b t outs)
  end.

Definition exec (o : bop) (s : state) : option state :=
  match compile o s with Some es => apply_effs es s | None => None end.

(* a list of operations executed atomically (one transaction's messages, one proposal) *)
Fixpoint exec_all (os : list bop) (s : state) : option state :=
  match os with [] => Some s | o :: r => match exec o s with Some s1 => exec_all r s1 | None => None end end.

(* history items: a transaction (fee taken by the ante handler and kept even when the messages
   fail; messages atomic), or a block-level action / proposal (atomic, skipped when it fails) *)
Inductive item : Type :=
| ITx (payer fd fx : Z) (msgs : list bop)
| IAct (ops : list bop).

Definition step (s : state) (it : item) : state :=
  match it with
  | ITx u fd fx msgs =>
      match exec (PayFee u fd fx) s with
      | None => s                                           (* rejected by the ante handler *)
      | Some s1 => match exec_all msgs s1 with Some s2 => s2 | None => s1 end
      end
  | IAct ops => match exec_all ops s with Some s2 => s2 | None => s end
  end.
Definition run (h : list item) (s : state) : state := fold_left step h s.

(* genesis: funded accounts, supply = what was funded, no records *)
Definition genesis (g : list lentry) : state := mkState g (map (fun e => (snd (fst e), snd e)) g) [] [].
Definition good_genesis (g : list lentry) : Prop := forall a d x, In (a, d, x) g -> 0 <= x.

(* ---------------------------------------------------------------- invariants (statements) *)
Definition supply_ok (s : state) : Prop := forall d, supply s d = total s d.
Definition nonneg (s : state) : Prop := forall a d, 0 <= bal s a d.
Definition solvent (m : Z) (s : state) : Prop := forall d, liab s m d <= bal s m d.
Definition all_solvent (s : state) : Prop := forall m, is_escrow m = true -> solvent m s.

(* the one operation whose books are not tied to a transfer: the reward credit.  It is safe when
   what is credited does not exceed what was allocated *)
Definition op_safe (o : bop) : bool :=
  match o with MsAllocate _ _ r caps => credited r caps <=? r | _ => true end.
Definition item_safe (it : item) : bool :=
  match it with ITx _ _ _ msgs => forallb op_safe msgs | IAct ops => forallb op_safe ops end.

(* share tokens: while a pool is unslashed its share supply equals its staked tokens *)
Definition unslashed (s : state) : Prop := forall p, slashed_of s p = 0.
Definition shares_match (s : state) : Prop :=
  forall p d, 1 <= p < 1000 -> 0 <= d < 100 -> supply s (share p d) = book s MS K_STAKED p d.
(* what the holders of all share tokens of (p,d) can ask for under the code's own redemption
   rule (Undelegate burns pool_coin(amount) shares for `amount` native): everything that is
   redeemable must be staked *)
Definition shares_redeemable (s : state) : Prop :=
  forall p d x, 1 <= p < 1000 -> 0 <= d < 100 -> 0 <= x -> pool_coin (slashed_of s p) x <= supply s (share p d) ->
                x <= book s MS K_STAKED p d.
(* repaired redemption: whatever holdings hs the share supply is split into, and whatever each holder redeems
   within his holding (burn <= holding), the redemptions together never exceed the stake -- slashed or not *)
Definition shares_redeemable_pro_rata (s : state) : Prop :=
  forall p d (rs : list (Z * Z)), let S := supply s (share p d) in let K := book s MS K_STAKED p d in
    0 < K -> 0 < S ->
    Forall (fun r => 0 <= snd r /\ redeem_burn S K (snd r) <= fst r) rs ->     (* (holding, redeemed) *)
    zsum (map fst rs) <= S -> zsum (map snd rs) <= K.
Definition is_slash (o : bop) : bool := match o with MsSlash _ _ _ => true | _ => false end.
Definition item_no_slash (it : item) : bool :=
  match it with ITx _ _ _ msgs => forallb (fun o => negb (is_slash o)) msgs | IAct ops => forallb (fun o => negb (is_slash o)) ops end.
