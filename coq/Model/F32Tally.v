(* CalculatedVotes.ProcessResult (x/gov/types/vote.go) bit-exactly: float32(x)/float32(y)*100
   compared with 50, on Flocq's binary32 (round to nearest even, as Go).  Importing Flocq brings
   four standard-library axioms (Reals); this file is therefore used only by the float32 theorems
   of Properties/C08.v -- every other C08 theorem is closed under the global context. *)
From Coq Require Import ZArith List Bool.
From Flocq Require Import IEEE754.Binary IEEE754.Bits Core.
From Sekai Require Import Base.Prelude Model.Gov.
Open Scope Z_scope.

Definition f32_of_Z (z : Z) : binary32 :=
  Binary.binary_normalize 24 128 eq_refl eq_refl BinarySingleNaN.mode_NE z 0 false.
Definition f32_hundred : binary32 := f32_of_Z 100.
Definition f32_fifty : binary32 := f32_of_Z 50.
(* (float32(x) / float32(y)) * 100 *)
Definition pct (x y : Z) : binary32 :=
  b32_mult BinarySingleNaN.mode_NE (b32_div BinarySingleNaN.mode_NE (f32_of_Z x) (f32_of_Z y)) f32_hundred.
Definition f32_gtb (a b : binary32) : bool := match Binary.Bcompare 24 128 a b with Some Gt => true | _ => false end.
Definition f32_geb (a b : binary32) : bool :=
  match Binary.Bcompare 24 128 a b with Some Gt => true | Some Eq => true | _ => false end.

Definition decide_f32 (t : tally) : vresult :=
  if negb (t_vcap t =? 0) && f32_geb (pct (t_veto t) (t_vcap t)) f32_fifty then RejectedWithVeto
  else if f32_gtb (pct (t_yes t) (t_total t)) f32_fifty then Passed
  else if f32_geb (pct (t_no t + t_abstain t + t_veto t) (t_total t)) f32_fifty then Rejected
  else Unknown.

(* both comparisons of one percentage agree with the exact rational comparisons *)
Definition pct_exact (x y : Z) : bool :=
  let p := pct x y in
  Bool.eqb (f32_gtb p f32_fifty) (y <? 2 * x) && Bool.eqb (f32_geb p f32_fifty) (y <=? 2 * x).
Definition zrange (lo n : nat) : list Z := map Z.of_nat (seq lo n).
Definition SWEEP : nat := 256.
Definition sweep_with (f : Z -> Z -> bool) (n : nat) : bool :=
  forallb (fun y => forallb (fun x => f x y) (zrange 0 n)) (zrange 1 (n - 1)).
(* the two numerators around one half, for the 2000 largest totals below 2^24 *)
Definition boundary_ok : bool :=
  forallb (fun k => let y := 16777216 - k in pct_exact (y / 2) y && pct_exact (y / 2 + 1) y) (zrange 1 2000).
