(* C13 -- monetary policy: block inflation (x/distributor), UBI (x/ubi), the token registry
   (x/tokens) and the layer2 mint/burn messages, as total functions.  Definitions only.

   Identifiers: denominations, accounts, UBI record names and spending pools are small integers
   (the harness keeps the name tables); denomination 0 is the native token ("ukex"), account 0 is
   the empty owner string.  Decimal values ([sdk.Dec]) are raw integers scaled by 10^18. *)
From Sekai Require Import Base.Prelude Base.Dec.

Record params := mkParams { p_rate : Z; p_period : Z; p_maxann : Z; p_hardcap : Z }.
(* distributor SupplySnapshot; the amount is a nil Int until the first snapshot is stored *)
Record snap := mkSnap { sn_time : Z; sn_amt : option Z }.
Record tok := mkTok { t_supply : Z; t_cap : Z; t_owner : Z; t_noedit : bool; t_fee : Z; t_stakecap : Z }.
Record ubi := mkUbi { u_name : Z; u_amount : Z; u_period : Z; u_last : Z; u_end : Z; u_dynamic : bool; u_pool : Z }.

Record st := mkSt {
  s_now : Z; s_height : Z; s_params : params; s_psnap : snap; s_ysnap : snap;
  s_bank : list (Z * Z);          (* denomination -> bank supply *)
  s_bals : list (Z * Z);          (* account * 1000 + denomination -> balance (user accounts only) *)
  s_reg : list (Z * tok);         (* token registry *)
  s_ubis : list ubi;              (* sorted by name = store iteration order *)
  s_pools : list (Z * Z) }.       (* existing spending pools -> native balance *)

Definition native : Z := 0.

(* Shapes of five guards, read from the source tree on every run by gen_mintburn (Gen/MintBurn.v
   tree_config); [false] is the code as first found, [true] the repaired shape. *)
Record config := mkConfig {
  cf_cap_strict : bool;          (* tokens msg server: msg.SupplyCap.IsZero()  |  !msg.SupplyCap.IsPositive() *)
  cf_ubi_exact : bool;           (* ubi proposal handler: uint64 sum  |  sdk.Int sum, zero period refused *)
  cf_ubi_amount_exact : bool;    (* ProcessUBIRecord: sdk.NewInt(int64(Amount))  |  sdk.NewIntFromUint64(Amount) *)
  cf_ubi_due_exact : bool;       (* ubi EndBlocker: now > last+period (wraps)  |  now > last && now-last > period *)
  cf_mint_native_refused : bool  (* layer2 MintIssueTx: any registered denom  |  the bond denom is refused *)
}.

(* ---------------------------------------------------------------- association lists *)
Fixpoint aget {A} (k : Z) (l : list (Z * A)) : option A :=
  match l with [] => None | (k', v) :: r => if k' =? k then Some v else aget k r end.
Fixpoint aset {A} (k : Z) (v : A) (l : list (Z * A)) : list (Z * A) :=
  match l with [] => [(k, v)] | (k', v') :: r => if k' =? k then (k, v) :: r else (k', v') :: aset k v r end.
Definition zget (k : Z) (l : list (Z * Z)) : Z := match aget k l with Some v => v | None => 0 end.
Definition zadd (k d : Z) (l : list (Z * Z)) : list (Z * Z) := aset k (zget k l + d) l.
Definition bkey (acct d : Z) : Z := acct * 1000 + d.

Definition supply_of (s : st) (d : Z) : Z := zget d (s_bank s).
Definition nat_supply (s : st) : Z := supply_of s native.

Definition set_time (s : st) (now h : Z) : st :=
  mkSt now h (s_params s) (s_psnap s) (s_ysnap s) (s_bank s) (s_bals s) (s_reg s) (s_ubis s) (s_pools s).
Definition set_params (s : st) (p : params) : st :=
  mkSt (s_now s) (s_height s) p (s_psnap s) (s_ysnap s) (s_bank s) (s_bals s) (s_reg s) (s_ubis s) (s_pools s).
Definition set_snaps (s : st) (ps ys : snap) : st :=
  mkSt (s_now s) (s_height s) (s_params s) ps ys (s_bank s) (s_bals s) (s_reg s) (s_ubis s) (s_pools s).
Definition set_bank (s : st) (b : list (Z * Z)) : st :=
  mkSt (s_now s) (s_height s) (s_params s) (s_psnap s) (s_ysnap s) b (s_bals s) (s_reg s) (s_ubis s) (s_pools s).
Definition set_bals (s : st) (b : list (Z * Z)) : st :=
  mkSt (s_now s) (s_height s) (s_params s) (s_psnap s) (s_ysnap s) (s_bank s) b (s_reg s) (s_ubis s) (s_pools s).
Definition set_reg (s : st) (r : list (Z * tok)) : st :=
  mkSt (s_now s) (s_height s) (s_params s) (s_psnap s) (s_ysnap s) (s_bank s) (s_bals s) r (s_ubis s) (s_pools s).
Definition set_ubis (s : st) (u : list ubi) : st :=
  mkSt (s_now s) (s_height s) (s_params s) (s_psnap s) (s_ysnap s) (s_bank s) (s_bals s) (s_reg s) u (s_pools s).
Definition set_pools (s : st) (p : list (Z * Z)) : st :=
  mkSt (s_now s) (s_height s) (s_params s) (s_psnap s) (s_ysnap s) (s_bank s) (s_bals s) (s_reg s) (s_ubis s) p.

(* Dec.Sub / Dec.Add panic beyond 315 bits like Mul and Quo *)
Definition dsub (a b : dec) : outcome dec := let r := a - b in if dec_in_range r then Ok r else Panic "Int overflow".

(* ---------------------------------------------------------------- x/distributor
   annual_inflation.go InflationPossible *)
Definition month : Z := 2592000.
Definition year : Z := 31104000.
Definition month_index (ys_time now : Z) : Z := Z.quot (now - ys_time + month - 1) month.

Definition inflation_possible (ys : snap) (maxann supply now : Z) : outcome bool :=
  match sn_amt ys with
  | None => Ok true
  | Some a =>
      if a =? 0 then Ok true else
      do q <- dquo (dec_of_int supply) (dec_of_int a);
      do cur <- dsub q dec_one;
      do m <- dmul maxann (dec_of_int (month_index (sn_time ys) now));
      do thr <- dquo m (dec_of_int 12);
      Ok (negb (thr <=? cur))
  end.

(* distributor.go AllocateTokens: targetTotalSupply *)
Definition target_supply (ps : snap) (rate period now : Z) : outcome Z :=
  match sn_amt ps with
  | None => Panic "nil pointer dereference"          (* SnapshotAmount is a nil Int *)
  | Some a =>
      do x <- dmul (dec_of_int a) rate;
      do y <- dmul x (dec_of_int (now - sn_time ps));
      do z <- dquo y (dec_of_int (as_int64 period));
      Ok (a + trunc_int z)
  end.

(* ---------------------------------------------------------------- x/tokens registry
   token_info.go UpsertTokenInfo (keeper): cap check on every write, then the stake-cap total *)
Definition stake_sum (reg : list (Z * tok)) : Z := zsum (map (fun e => t_stakecap (snd e)) reg).
Definition reg_upsert (reg : list (Z * tok)) (d : Z) (t : tok) : outcome (list (Z * tok)) :=
  if (0 <? t_cap t) && (t_cap t <? t_supply t) then Err "cannot exceed token cap"
  else let reg' := aset d t reg in
       if PREC <? stake_sum reg' then Err "total rewards cap exceeds 100%" else Ok reg'.

Definition with_supply (t : tok) (x : Z) : tok := mkTok x (t_cap t) (t_owner t) (t_noedit t) (t_fee t) (t_stakecap t).
Definition default_tok : tok := mkTok 0 0 0 false 0 0.

(* mint.go MintCoins for one coin: registry record first (auto-registered when missing), then the
   bank, which rejects a non-positive amount *)
Definition reg_mint (s : st) (d amt : Z) : outcome st :=
  let t := match aget d (s_reg s) with Some t => t | None => default_tok end in
  do reg' <- reg_upsert (s_reg s) d (with_supply t (t_supply t + amt));
  if amt <=? 0 then Err "invalid coins"
  else Ok (set_bank (set_reg s reg') (zadd d amt (s_bank s))).

(* burn.go BurnCoins for one coin *)
Definition reg_burn (s : st) (d amt : Z) : outcome st :=
  match aget d (s_reg s) with
  | None => Err "token not registered"
  | Some t =>
      do reg' <- reg_upsert (s_reg s) d (with_supply t (t_supply t - amt));
      if amt <=? 0 then Err "invalid coins"
      else Ok (set_bank (set_reg s reg') (zadd d (- amt) (s_bank s)))
  end.

(* AllocateTokens: the part that touches supply.  A failing mint is [panic(err)]. *)
Definition allocate (s : st) : outcome st :=
  let p := s_params s in
  do ip <- inflation_possible (s_ysnap s) (p_maxann p) (nat_supply s) (s_now s);
  if negb ip then Ok s else
  do tgt <- target_supply (s_psnap s) (p_rate p) (p_period p) (s_now s);
  let sup := nat_supply s in
  let rewards := if sup <? tgt then tgt - sup else 0 in
  if 0 <? rewards then
    match reg_mint s native rewards with
    | Ok s' => Ok s'
    | Err e => Panic e
    | Panic e => Panic e
    end
  else Ok s.

(* abci.go EndBlocker: periodic and year-start snapshots *)
Definition distr_end (s : st) : st :=
  let now := s_now s in
  let sup := nat_supply s in
  let ps := s_psnap s in
  let ys := s_ysnap s in
  let ps' := if (sn_time ps =? 0) || (sn_time ps + as_int64 (p_period (s_params s)) <? now) then mkSnap now (Some sup) else ps in
  let ys' := if (sn_time ys =? 0) || (sn_time ys + year <? now) then mkSnap now (Some sup) else ys in
  set_snaps s ps' ys'.

(* ---------------------------------------------------------------- x/ubi *)
Definition year_seconds : Z := 31556952.
Fixpoint ubi_insert (u : ubi) (l : list ubi) : list ubi :=
  match l with
  | [] => [u]
  | v :: r => if u_name v =? u_name u then u :: r
              else if u_name u <? u_name v then u :: v :: r else v :: ubi_insert u r
  end.
Fixpoint ubi_remove (name : Z) (l : list ubi) : option (list ubi) :=
  match l with
  | [] => None
  | v :: r => if u_name v =? name then Some r else option_map (cons v) (ubi_remove name r)
  end.

(* uint64 arithmetic of the hard-cap check: amount * 31556952 / period, wrapping *)
Definition ubi_term (amount period : Z) : outcome Z :=
  if period =? 0 then Panic "integer divide by zero" else Ok (wrap64 (amount * year_seconds) / period).
Fixpoint ubi_sum (us : list ubi) (acc : Z) : outcome Z :=
  match us with
  | [] => Ok acc
  | u :: r => do t <- ubi_term (u_amount u) (u_period u); ubi_sum r (wrap64 (acc + t))
  end.

(* the same sum in sdk.Int (repaired shape): no wrap; Int.Quo by a zero stored period still panics *)
Fixpoint ubi_sum_exact (us : list ubi) (acc : Z) : outcome Z :=
  match us with
  | [] => Ok acc
  | u :: r => if u_period u =? 0 then Panic "division by zero"
              else ubi_sum_exact r (acc + u_amount u * year_seconds / u_period u)
  end.

(* proposal_handler.go ApplyUpsertUBIProposalHandler.Apply *)
Definition ubi_upsert (cf : config) (s : st) (name amount period start end_ pool : Z) : outcome st :=
  match aget pool (s_pools s) with
  | None => Err "spending pool does not exist"
  | Some _ =>
      let accept := Ok (set_ubis s (ubi_insert (mkUbi name amount period start end_ false pool) (s_ubis s))) in
      if cf_ubi_exact cf then
        if period =? 0 then Err "ubi sum overflows hardcap" else
        do sum <- ubi_sum_exact (s_ubis s) 0;
        if p_hardcap (s_params s) <? sum + amount * year_seconds / period then Err "ubi sum overflows hardcap"
        else accept
      else
        do sum <- ubi_sum (s_ubis s) 0;
        do t <- ubi_term amount period;
        if p_hardcap (s_params s) <? wrap64 (sum + t) then Err "ubi sum overflows hardcap"
        else accept
  end.

Definition ubi_delete (s : st) (name : Z) : outcome st :=
  match ubi_remove name (s_ubis s) with
  | None => Err "ubi record does not exist"
  | Some l => Ok (set_ubis s l)
  end.

(* abci.go EndBlocker condition *)
Definition ubi_due (cf : config) (now : Z) (u : ubi) : bool :=
  (if cf_ubi_due_exact cf then (u_last u <? now) && (u_period u <? now - u_last u)
   else wrap64 (u_last u + u_period u) <? now)
  && ((u_end u =? 0) || (u_last u <? u_end u)).

Definition with_last (u : ubi) (t : Z) : ubi := mkUbi (u_name u) (u_amount u) (u_period u) t (u_end u) (u_dynamic u) (u_pool u).

(* keeper/ubi.go ProcessUBIRecord, run on a cache that is written only when it returns nil *)
Definition process_ubi (cf : config) (s : st) (u : ubi) : outcome st :=
  do ip <- inflation_possible (s_ysnap s) (p_maxann (s_params s)) (nat_supply s) (s_now s);
  if negb ip then Ok s else
  let s1 := set_ubis s (ubi_insert (with_last u (s_now s)) (s_ubis s)) in
  let amount := (if cf_ubi_amount_exact cf then u_amount u else as_int64 (u_amount u)) * 1000000 in
  do todo <- (if u_dynamic u then
                match aget (u_pool u) (s_pools s) with
                | None => Err "spending pool does not exist"
                | Some bal => if amount <=? bal then Ok None else Ok (Some (amount - bal))
                end
              else Ok (Some amount));
  match todo with
  | None => Ok s1
  | Some amt =>
      if amt <? 0 then Panic "negative coin amount"
      else if amt =? 0 then Err "invalid coins"        (* empty mint succeeds, the zero deposit fails *)
      else do s2 <- reg_mint s1 native amt;
           match aget (u_pool u) (s_pools s2) with
           | None => Err "pool does not exist"
           | Some bal => Ok (set_pools s2 (aset (u_pool u) (bal + amt) (s_pools s2)))
           end
  end.

Fixpoint ubi_end (cf : config) (us : list ubi) (s : st) : outcome st :=
  match us with
  | [] => Ok s
  | u :: r =>
      if ubi_due cf (s_now s) u then
        match process_ubi cf s u with
        | Ok s' => ubi_end cf r s'
        | Err _ => ubi_end cf r s
        | Panic e => Panic e
        end
      else ubi_end cf r s
  end.

(* the native amounts minted by the ubi EndBlocker, one entry per paying record, in processing order
   (what the bank's coinbase events of that end blocker show) *)
Fixpoint ubi_mints (cf : config) (us : list ubi) (s : st) : list Z :=
  match us with
  | [] => []
  | u :: r =>
      if ubi_due cf (s_now s) u then
        match process_ubi cf s u with
        | Ok s' => (if nat_supply s' =? nat_supply s then [] else [nat_supply s' - nat_supply s]) ++ ubi_mints cf r s'
        | Err _ => ubi_mints cf r s
        | Panic _ => []
        end
      else ubi_mints cf r s
  end.

(* one block: distributor BeginBlocker (allocation from height 2 on), ubi EndBlocker, distributor
   EndBlocker.  Returns the states after each of the three. *)
Definition block_parts (cf : config) (s : st) (dt : Z) : outcome (st * st * st) :=
  let s0 := set_time s (s_now s + dt) (s_height s + 1) in
  do s1 <- (if 1 <? s_height s0 then allocate s0 else Ok s0);
  do s2 <- ubi_end cf (s_ubis s1) s1;
  Ok (s1, s2, distr_end s2).

(* ---------------------------------------------------------------- x/tokens msg server / proposal *)
Definition upsert_msg (cf : config) (s : st) (actor : Z) (perm : bool) (d supply cap owner : Z) (noedit : bool) (fee stakecap : Z) : outcome st :=
  if d =? native then Err "bond denom rate is read-only" else
  if fee <=? 0 then Err "rate should be positive" else
  if stakecap <? 0 then Err "reward cap should be positive" else
  if PREC <? stakecap then Err "reward cap not be more than 100%" else
  match aget d (s_reg s) with
  | Some t =>
      if negb (t_owner t =? actor) || t_noedit t then Err "not enough permissions" else
      if negb (t_cap t =? 0) && ((t_cap t <? cap) || (if cf_cap_strict cf then cap <=? 0 else cap =? 0)) then Err "supply cap should not be increased" else
      do reg' <- reg_upsert (s_reg s) d (mkTok (t_supply t) cap owner noedit (t_fee t) (t_stakecap t));
      Ok (set_reg s reg')
  | None =>
      if negb perm then Err "not enough permissions" else
      do reg' <- reg_upsert (s_reg s) d (mkTok supply cap owner noedit fee stakecap);
      Ok (set_reg s reg')
  end.

Definition prop_upsert (s : st) (d supply cap owner : Z) (noedit : bool) (fee stakecap : Z) : outcome st :=
  let t' := match aget d (s_reg s) with
            | Some t => mkTok (t_supply t) (t_cap t) (t_owner t) (t_noedit t) fee stakecap
            | None => mkTok supply cap owner noedit fee stakecap end in
  do reg' <- reg_upsert (s_reg s) d t';
  Ok (set_reg s reg').

(* bank transfer out of a user account *)
Definition debit (s : st) (acct d amt : Z) : outcome st :=
  if zget (bkey acct d) (s_bals s) <? amt then Err "insufficient funds"
  else Ok (set_bals s (zadd (bkey acct d) (- amt) (s_bals s))).
Definition credit (s : st) (acct d amt : Z) : st :=
  if acct =? 0 then s else set_bals s (zadd (bkey acct d) amt (s_bals s)).

(* ---------------------------------------------------------------- x/layer2 MintIssueTx / MintBurnTx *)
Definition mint_issue (cf : config) (s : st) (actor d amt : Z) : outcome st :=
  if cf_mint_native_refused cf && (d =? native) then Err "bond denom cannot be minted by a message" else
  match aget d (s_reg s) with
  | None => Panic "nil pointer dereference"
  | Some t =>
      do s1 <- (if t_owner t =? actor then Ok s else
                do f <- dmul_int (t_fee t) amt;
                let fee := trunc_int f in
                if fee <? 0 then Panic "negative coin amount" else
                if 0 <? fee then (do s' <- debit s actor native fee; Ok (credit s' (t_owner t) native fee))
                else Err "not able to mint coins without fee");
      if amt <? 0 then Panic "negative coin amount" else
      do s2 <- reg_mint s1 d amt;
      Ok (credit s2 actor d amt)
  end.

Definition mint_burn (s : st) (actor d amt : Z) : outcome st :=
  match aget d (s_reg s) with
  | None => Panic "nil pointer dereference"
  | Some _ =>
      if amt <? 0 then Panic "negative coin amount" else
      if amt =? 0 then Err "invalid coins" else
      do s1 <- debit s actor d amt;
      reg_burn s1 d amt
  end.

(* ---------------------------------------------------------------- operations *)
Inductive op : Type :=
| OBlock (dt : Z)
| OParams (rate period maxann : Z)
| OHardcap (v : Z)
| OUbiUpsert (name amount period start end_ pool : Z)
| OUbiRemove (name : Z)
| OUpsertMsg (actor : Z) (perm : bool) (d supply cap owner : Z) (noedit : bool) (fee stakecap : Z)
| OPropUpsert (d supply cap owner : Z) (noedit : bool) (fee stakecap : Z)
| OMintIssue (actor d amt : Z)
| OMintIssue2 (actor d amt1 amt2 : Z)      (* two MsgMintIssueTx in ONE transaction: all or nothing *)
| OBurn (actor d amt : Z)
| OFee (actor amt : Z)
| OGenesis.                                  (* genesis export, stores wiped, genesis import: the history continues *)

(* A genesis round trip is the identity on everything modelled here, except that a snapshot amount
   that was never stored (nil Int) is exported as 0 and comes back as a stored 0. *)
Definition snap_norm (p : snap) : snap := mkSnap (sn_time p) (Some (match sn_amt p with Some a => a | None => 0 end)).
Definition genesis_roundtrip (s : st) : st := set_snaps s (snap_norm (s_psnap s)) (snap_norm (s_ysnap s)).

Definition step (cf : config) (s : st) (o : op) : outcome st :=
  match o with
  | OBlock dt => do r <- block_parts cf s dt; Ok (snd r)
  | OParams rate period maxann => Ok (set_params s (mkParams rate period maxann (p_hardcap (s_params s))))
  | OHardcap v => let p := s_params s in Ok (set_params s (mkParams (p_rate p) (p_period p) (p_maxann p) v))
  | OUbiUpsert name amount period start end_ pool => ubi_upsert cf s name amount period start end_ pool
  | OUbiRemove name => ubi_delete s name
  | OUpsertMsg actor perm d supply cap owner noedit fee stakecap => upsert_msg cf s actor perm d supply cap owner noedit fee stakecap
  | OPropUpsert d supply cap owner noedit fee stakecap => prop_upsert s d supply cap owner noedit fee stakecap
  | OMintIssue actor d amt => mint_issue cf s actor d amt
  | OMintIssue2 actor d amt1 amt2 => do s1 <- mint_issue cf s actor d amt1; mint_issue cf s1 actor d amt2
  | OBurn actor d amt => mint_burn s actor d amt
  | OFee actor amt => debit s actor native amt
  | OGenesis => Ok (genesis_roundtrip s)
  end.

(* a rejected or panicking operation leaves the state unchanged (transaction / proposal cache;
   a panicking block is discarded by the harness) *)
Definition step_total (cf : config) (s : st) (o : op) : st := match step cf s o with Ok s' => s' | _ => s end.
Definition run (cf : config) (s : st) (ops : list op) : st := fold_left (step_total cf) ops s.

(* ---------------------------------------------------------------- mint / burn call sites
   (the table itself is regenerated from the source tree: Gen/MintBurn.v) *)
Inductive mb_kind : Type := MBMint | MBBurn.
Record mb_site := mkSite { ms_pkg : string; ms_func : string; ms_kind : mb_kind; ms_via : string; ms_module : string; ms_coins : string }.
