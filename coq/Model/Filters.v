(* C14 / C09 -- the message filters of /repo/app/ante/ante.go as total functions.
   Definitions only.  Sources:
     x/tokens/types/freeze.go                 IsFrozen, FindTokenIndex
     app/ante/ante.go                         BlackWhiteTokensCheckDecorator, PoorNetworkManagementDecorator
     x/staking/keeper/keeper.go               IsNetworkActive   ( len(vals) >= int(MinValidators) )
     types/Msg.go                             MsgType
   The loop shape of the two decorators (does `return next(...)` sit inside the message loop;
   which message types does the freeze filter look at) is a parameter [shape]; the value for the
   current tree is regenerated into Gen/AnteChain.v by harness/cmd/gen_ante. *)
From Sekai Require Import Base.Prelude.

Definition coin := (string * Z)%type.          (* denom, amount *)
Definition coins := list coin.

(* ---------------------------------------------------------------- messages *)
(* Transfer-capable messages are modelled structurally; every other message is [MOther] with its
   type string, signer list, and -- used only by the runTx model of C09 -- whether its handler
   fails and the key it writes when it succeeds. *)
Inductive msg : Type :=
| MSend (from to : string) (amt : coins)                           (* bank MsgSend,      type "send" *)
| MMulti (from : string) (inp : coins) (outs : list (string * coins))  (* bank MsgMultiSend, type "multisend" (one input) *)
| MCustody (from to : string) (amt : coins) (reward : coins)       (* custody MsgSend,   type "custody_send" *)
| MEth (from to : string) (amount : Z)                             (* tokens MsgEthereumTx "NativeSend", type "ethereum_tx":
                                                                      always the native token, amount = value / 10^12 *)
| MOther (ty : string) (signers : list string) (fails : bool) (mark : string).

Definition msg_type (m : msg) : string :=
  match m with
  | MSend _ _ _ => "send"
  | MMulti _ _ _ => "multisend"
  | MCustody _ _ _ _ => "custody_send"
  | MEth _ _ _ => "ethereum_tx"
  | MOther ty _ _ _ => ty
  end.
Definition msg_signers (m : msg) : list string :=
  match m with
  | MSend f _ _ => [f] | MMulti f _ _ => [f] | MCustody f _ _ _ => [f] | MEth f _ _ => [f]
  | MOther _ ss _ _ => ss
  end.
Definition denoms (c : coins) : list string := map fst c.
(* the (recipient, coins) pairs a message hands to other accounts when it executes; [nat] is the
   native denomination (the only one an Ethereum native send can carry) *)
Definition transfers (nat : string) (m : msg) : list (string * coins) :=
  match m with
  | MSend _ t a => [(t, a)]
  | MMulti _ _ outs => outs
  | MCustody _ t a _ => [(t, a)]
  | MEth _ t v => [(t, [(nat, v)])]
  | MOther _ _ _ _ => []
  end.
(* denominations a message moves to another account *)
Definition moved_by (nat : string) (m : msg) : list string := flat_map (fun o => denoms (snd o)) (transfers nat m).
(* message types whose handler moves a CALLER-CHOSEN denomination between accounts and that the
   model represents structurally (the full table of such handlers is regenerated into
   Gen/TransferSites.v) *)
Definition transfer_types : list string := ["send"; "multisend"; "custody_send"]%string.

(* ---------------------------------------------------------------- IsFrozen *)
Record bwlist : Type := mkBW { bw_black : list string; bw_white : list string }.

(* FindTokenIndex: index of the first occurrence, -1 when absent *)
Fixpoint find_index_from (l : list string) (x : string) (i : Z) : Z :=
  match l with [] => -1 | y :: r => if String.eqb y x then i else find_index_from r x (i + 1) end.
Definition find_index (l : list string) (x : string) : Z := find_index_from l x 0.

Definition is_frozen (t : bwlist) (denom default : string) (en_black en_white : bool) : bool :=
  if String.eqb denom default then false
  else if (en_black && (0 <=? find_index (bw_black t) denom))%bool then true
  else if (en_white && (find_index (bw_white t) denom <? 0))%bool then true
  else false.

(* ---------------------------------------------------------------- governance of the lists *)
(* x/tokens/keeper/utils.go addTokens / removeTokens, x/tokens/keeper/freeze.go, and the
   TokensWhiteBlackChange proposal handler (x/tokens/proposal_handler.go Apply) *)
Fixpoint add_tokens (origin addings : list string) : list string :=
  match addings with
  | [] => origin
  | a :: r => if 0 <=? find_index origin a then add_tokens origin r else add_tokens (origin ++ [a]) r
  end.
(* "fast remove": the last element takes the place of the removed one *)
Fixpoint replace_at (l : list string) (i : nat) (x : string) : list string :=
  match l, i with
  | [], _ => []
  | _ :: r, O => x :: r
  | y :: r, S k => y :: replace_at r k x
  end.
Definition remove_one (origin : list string) (x : string) : list string :=
  let i := find_index origin x in
  if i <? 0 then origin
  else removelast (replace_at origin (Z.to_nat i) (last origin ""%string)).
Definition remove_tokens (origin removings : list string) : list string := fold_left remove_one removings origin.

Record wbprop : Type := mkProp { p_black : bool; p_add : bool; p_tokens : list string }.
Definition apply_prop (t : bwlist) (p : wbprop) : bwlist :=
  match p_black p, p_add p with
  | true, true => mkBW (add_tokens (bw_black t) (p_tokens p)) (bw_white t)
  | true, false => mkBW (remove_tokens (bw_black t) (p_tokens p)) (bw_white t)
  | false, true => mkBW (bw_black t) (add_tokens (bw_white t) (p_tokens p))
  | false, false => mkBW (bw_black t) (remove_tokens (bw_white t) (p_tokens p))
  end.

(* ---------------------------------------------------------------- filter configuration *)
Record filt : Type := mkFilt {
  f_native : string;            (* DefaultDenom *)
  f_bw : bwlist;                (* tokens keeper black / white lists *)
  f_en_black : bool;            (* EnableTokenBlacklist *)
  f_en_white : bool;            (* EnableTokenWhitelist *)
  f_nvals : Z;                  (* len(GetValidatorSet) *)
  f_minvals : Z;                (* MinValidators (uint64) *)
  f_poor_msgs : list string;    (* GetPoorNetworkMessages *)
  f_max_send : Z                (* PoorNetworkMaxBankSend (uint64) *)
}.
Definition with_bw (f : filt) (t : bwlist) : filt :=
  mkFilt (f_native f) t (f_en_black f) (f_en_white f) (f_nvals f) (f_minvals f) (f_poor_msgs f) (f_max_send f).
Definition frozen (f : filt) (d : string) : bool :=
  is_frozen (f_bw f) d (f_native f) (f_en_black f) (f_en_white f).

(* loop shape, regenerated from the source *)
Record shape : Type := mkShape {
  sh_poor_send_returns : bool;     (* bank-send arm of the poor-network loop ends with `return next` *)
  sh_poor_allowed_returns : bool;  (* allowed-list arm ends with `return next` *)
  sh_bw_types : list string        (* message types the freeze filter inspects *)
}.
Definition shape_at_writing : shape := mkShape true true ["send"%string].
Definition shape_repaired : shape := mkShape false false transfer_types.

(* ---------------------------------------------------------------- BlackWhiteTokensCheckDecorator *)
Fixpoint bw_loop (sh : shape) (f : filt) (ms : list msg) : outcome unit :=
  match ms with
  | [] => Ok tt
  | m :: r =>
      if (str_in (msg_type m) (sh_bw_types sh) && existsb (frozen f) (moved_by (f_native f) m))%bool
      then Err "token is frozen"
      else bw_loop sh f r
  end.

(* ---------------------------------------------------------------- PoorNetworkManagementDecorator *)
(* len(vals) >= int(MinValidators): the uint64 is cast to int (64 bit) *)
Definition network_active (f : filt) : bool := as_int64 (f_minvals f) <=? f_nvals f.

Definition is_nil {A} (l : list A) : bool := match l with [] => true | _ => false end.

Fixpoint poor_loop (sh : shape) (f : filt) (ms : list msg) : outcome unit :=
  match ms with
  | [] => Ok tt
  | m :: r =>
      match m with
      | MSend _ _ amt =>
          match amt with
          | [] => Panic "index out of range [0]"            (* msg.Amount[0] *)
          | (d, a) :: rest =>
              if (negb (is_nil rest) || negb (String.eqb d (f_native f)))%bool
              then Err "only bond denom is allowed on poor network"
              else if negb (u64_ok a) then Panic "Uint64() out of bound"
              else if f_max_send f <? a then Err "only restricted amount send is allowed on poor network"
              else if sh_poor_send_returns sh then Ok tt else poor_loop sh f r
          end
      | _ =>
          if str_in (msg_type m) (f_poor_msgs f)
          then (if sh_poor_allowed_returns sh then Ok tt else poor_loop sh f r)
          else Err "invalid transaction type on poor network"
      end
  end.

Definition poor_check (sh : shape) (f : filt) (ms : list msg) : outcome unit :=
  if network_active f then Ok tt else poor_loop sh f ms.

(* both message filters, in chain order *)
Definition filters (sh : shape) (f : filt) (ms : list msg) : outcome unit :=
  do _ <- poor_check sh f ms; bw_loop sh f ms.

(* ---------------------------------------------------------------- the property's vocabulary *)
(* a native-token transfer within the configured limit (the decorator's own notion) *)
Definition small_native_send (f : filt) (m : msg) : bool :=
  match m with
  | MSend _ _ [(d, a)] => (String.eqb d (f_native f) && (a <=? f_max_send f))%bool
  | _ => false
  end.
Definition is_bank_send (m : msg) : bool := match m with MSend _ _ _ => true | _ => false end.
(* "on the allowed-message list or a native-token transfer within the configured limit" *)
Definition allowed_on_weak (f : filt) (m : msg) : bool :=
  (small_native_send f m || (negb (is_bank_send m) && str_in (msg_type m) (f_poor_msgs f)))%bool.
(* "fewer validators than the configured minimum" -- the true comparison, no cast *)
Definition weak_network (f : filt) : bool := f_nvals f <? f_minvals f.
