(* Basket module (x/basket): mint, burn, swap, per-period limits, token caps, edits, hooks, together
   with the part of the bank it touches (balances of the holders and of the basket module account,
   supply of the basket denomination).  Definitions only.

   Source: x/basket/keeper/mint_burn_swap.go (MintBasketToken, BurnBasketToken, BasketSwap),
   x/basket/types/basket.go (RatesAndIndexes, Increase/DecreaseBasketTokens, ValidateTokensCap,
   AverageDisbalance, SlippageFee), x/basket/keeper/basket_action_history.go (RegisterXAction,
   GetLimitsPeriodXAmount, ClearOldXAmounts), x/basket/keeper/basket.go (EditBasket),
   x/basket/keeper/hooks.go, x/basket/keeper/msg_server.go (DisableX), x/basket/abci.go.

   Denominations are integers (the harness numbers them in the byte order of their names, the
   basket's own denomination is 0); accounts are integers, 0 is the basket module account.
   A failed message leaves no trace (baseapp discards the cache of a failed transaction): the
   step function returns [Err]/[Panic] and the caller keeps the old state.

   The model is parameterised by a [variant]: the two places where the tree is known to be wrong
   and a repair is proposed (fixes/C11-*.patch).  [v_burn_pre = false] is the code that reads the
   supply AFTER burning, [true] the repaired order; [v_edit_keep = false] is EditBasket taking
   the recorded amount from the proposal, [true] keeping the stored one (committed as 68b9c08);
   [v_upsert_skip = false] is AfterUpsertStakingPool storing an empty record under Id 1 when its
   lookup fails, [true] skipping (committed as 853c45f); [v_create_zero = false] is CreateBasket
   taking the recorded amount from the proposal, [true] storing zero (fixes/C11-create-zero-amount.patch).  The harness probes which
   variant the tree implements; theorems are proved for the repaired variant and refuted, with
   witnesses, for the current one. *)
From Sekai Require Import Base.Prelude Base.Dec.

Record token := mkT { t_denom : Z; t_weight : dec; t_amount : Z; t_dep : bool; t_wd : bool; t_sw : bool }.
Definition coins := list (Z * Z).            (* (denomination, amount), sorted by denomination *)
Record basket := mkB {
  b_amount : Z; b_tokens : list token; b_surplus : coins;
  b_fee : dec; b_slip : dec; b_cap : dec; b_period : Z;
  b_mmin : Z; b_mmax : Z; b_bmin : Z; b_bmax : Z; b_smin : Z; b_smax : Z;
  b_md : bool; b_bd : bool; b_sd : bool }.
Record variant := mkV { v_burn_pre : bool; v_edit_keep : bool; v_upsert_skip : bool; v_create_zero : bool }.
Definition history := list (Z * Z).          (* (block time in unix nanoseconds, amount registered at that time) *)
(* [s_bk] is basket 1, on which the holders act; [s_sibs] are the records of the other baskets
   (ids 2, 3, ... in order), which share reserve denominations and the module account with it and
   are touched by the create / withdraw-surplus proposals *)
Record state := mkS { s_bk : basket; s_bal : Z -> Z -> Z; s_supply : Z;
                      s_hm : history; s_hb : history; s_hs : history; s_sibs : list basket }.

Definition MODULE : Z := 0.
Definition BDENOM : Z := 0.

Definition set_tokens (b : basket) (ts : list token) : basket :=
  mkB (b_amount b) ts (b_surplus b) (b_fee b) (b_slip b) (b_cap b) (b_period b) (b_mmin b) (b_mmax b)
      (b_bmin b) (b_bmax b) (b_smin b) (b_smax b) (b_md b) (b_bd b) (b_sd b).
Definition set_amount (b : basket) (a : Z) : basket :=
  mkB a (b_tokens b) (b_surplus b) (b_fee b) (b_slip b) (b_cap b) (b_period b) (b_mmin b) (b_mmax b)
      (b_bmin b) (b_bmax b) (b_smin b) (b_smax b) (b_md b) (b_bd b) (b_sd b).
Definition set_surplus (b : basket) (c : coins) : basket :=
  mkB (b_amount b) (b_tokens b) c (b_fee b) (b_slip b) (b_cap b) (b_period b) (b_mmin b) (b_mmax b)
      (b_bmin b) (b_bmax b) (b_smin b) (b_smax b) (b_md b) (b_bd b) (b_sd b).
Definition set_flags (b : basket) (md bd sd : bool) : basket :=
  mkB (b_amount b) (b_tokens b) (b_surplus b) (b_fee b) (b_slip b) (b_cap b) (b_period b) (b_mmin b) (b_mmax b)
      (b_bmin b) (b_bmax b) (b_smin b) (b_smax b) md bd sd.

(* ---------------------------------------------------------------- bank *)
(* sdk.Coins.IsValid: strictly increasing denominations, positive amounts (empty is valid) *)
Fixpoint coins_valid_from (lo : option Z) (cs : coins) : bool :=
  match cs with
  | [] => true
  | (d, x) :: r => (0 <? x) && (match lo with None => true | Some l => l <? d end) && coins_valid_from (Some d) r
  end.
Definition coins_valid (cs : coins) : bool := coins_valid_from None cs.

Definition bal_add (bal : Z -> Z -> Z) (a d x : Z) : Z -> Z -> Z :=
  fun a' d' => if (a' =? a) && (d' =? d) then bal a' d' + x else bal a' d'.
Definition has_funds (bal : Z -> Z -> Z) (a : Z) (cs : coins) : bool :=
  forallb (fun c => snd c <=? bal a (fst c)) cs.
Definition send (bal : Z -> Z -> Z) (from to : Z) (cs : coins) : Z -> Z -> Z :=
  fold_left (fun b c => bal_add (bal_add b from (fst c) (- snd c)) to (fst c) (snd c)) cs bal.

(* sdk.Coins.Add of one coin: merge into the sorted list, zero amounts disappear *)
Fixpoint coins_add (cs : coins) (d x : Z) : coins :=
  if x =? 0 then cs else
  match cs with
  | [] => [(d, x)]
  | (d', y) :: r => if d <? d' then (d, x) :: cs
                    else if d =? d' then (if y + x =? 0 then r else (d', y + x) :: r)
                    else (d', y) :: coins_add r d x
  end.
Definition coins_add_all (cs ds : coins) : coins := fold_left (fun a c => coins_add a (fst c) (snd c)) ds cs.
Fixpoint coin_of (cs : coins) (d : Z) : Z :=
  match cs with [] => 0 | (d', y) :: r => if d =? d' then y else coin_of r d end.

(* ---------------------------------------------------------------- basket tokens *)
Fixpoint find_token (ts : list token) (d : Z) : option token :=
  match ts with [] => None | t :: r => if t_denom t =? d then Some t else find_token r d end.
Definition with_amount (t : token) (a : Z) : token := mkT (t_denom t) (t_weight t) a (t_dep t) (t_wd t) (t_sw t).
(* Increase/DecreaseBasketTokens for one coin (denominations are unique: Create/EditBasket) *)
Fixpoint add_token (ts : list token) (d x : Z) : list token :=
  match ts with
  | [] => []
  | t :: r => if t_denom t =? d then with_amount t (t_amount t + x) :: r else t :: add_token r d x
  end.
Definition reserve (ts : list token) (d : Z) : Z :=
  match find_token ts d with Some t => t_amount t | None => 0 end.

Fixpoint inc_tokens (ts : list token) (cs : coins) : outcome (list token) :=
  match cs with
  | [] => Ok ts
  | (d, x) :: r => match find_token ts d with
                   | None => Err "invalid basket deposit denom"
                   | Some _ => inc_tokens (add_token ts d x) r end
  end.
Fixpoint dec_tokens (ts : list token) (cs : coins) : outcome (list token) :=
  match cs with
  | [] => Ok ts
  | (d, x) :: r => match find_token ts d with
                   | None => Err "invalid basket deposit denom"
                   | Some t => if t_amount t - x <? 0 then Err "insufficient basket deposit token"
                               else dec_tokens (add_token ts d (- x)) r end
  end.

(* token.Amount as Dec times token.Weight *)
Definition token_value (t : token) : outcome dec := dmul (dec_of_int (t_amount t)) (t_weight t).
Fixpoint token_values (ts : list token) : outcome (list dec) :=
  match ts with
  | [] => Ok []
  | t :: r => do v <- token_value t; do vs <- token_values r; Ok (v :: vs)
  end.

(* ValidateTokensCap *)
Definition validate_cap (cap : dec) (ts : list token) : outcome bool :=
  do vs <- token_values ts;
  do lim <- dmul (zsum vs) cap;
  Ok (forallb (fun v => v <=? lim) vs).

(* AverageDisbalance *)
Fixpoint abs_disbalances (avg : dec) (vs : list dec) : outcome dec :=
  match vs with
  | [] => Ok 0
  | v :: r => do q <- dquo (avg - v) avg; do rest <- abs_disbalances avg r; Ok (Z.abs q + rest)
  end.
Definition avg_disbalance (ts : list token) : outcome dec :=
  match ts with
  | [] => Ok 0
  | _ => let n := dec_of_int (Z.of_nat (List.length ts)) in
         do vs <- token_values ts;
         do avg <- dquo (zsum vs) n;
         do tot <- abs_disbalances avg vs;
         dquo tot n
  end.
(* SlippageFee *)
Definition slippage_fee (slipmin : dec) (ts : list token) (old : dec) : outcome dec :=
  do dis <- avg_disbalance ts;
  let diff := dis - old in
  Ok (if diff <? 0 then 0 else if diff <? slipmin then slipmin else diff).

(* ---------------------------------------------------------------- action history *)
Fixpoint register (h : history) (t x : Z) : history :=
  match h with
  | [] => [(t, x)]
  | (t', y) :: r => if t' =? t then (t', y + x) :: r else (t', y) :: register r t x
  end.
(* Block times are unix NANOSECONDS (history keys are sdk.FormatTimeBytes of the block time, which
   carries nine sub-second digits); the limits period is in seconds. *)
Definition NS : Z := 1000000000.
(* GetLimitsPeriodXAmount: every entry from (now - period seconds) on, that instant included *)
Definition period_sum (h : history) (now period : Z) : Z :=
  zsum (map snd (filter (fun e => now - period * NS <=? fst e) h)).
Definition clear_old (h : history) (now period : Z) : history :=
  filter (fun e => now - period * NS <=? fst e) h.

(* ---------------------------------------------------------------- mint *)
Fixpoint mint_value (ts : list token) (dep : coins) (acc : dec) : outcome dec :=
  match dep with
  | [] => Ok acc
  | (d, x) :: r =>
      match find_token ts d with
      | None => Err "invalid basket deposit denom"
      | Some t => if negb (t_dep t) then Err "deposits disabled for token"
                  else do p <- dmul (dec_of_int x) (t_weight t); mint_value ts r (acc + p)
      end
  end.

Definition mint (s : state) (now a : Z) (dep : coins) : outcome state :=
  let b := s_bk s in
  if b_md b then Err "mints disabled" else
  if negb (coins_valid dep) then Err "invalid coins" else
  if negb (has_funds (s_bal s) a dep) then Err "insufficient funds" else
  do v <- mint_value (b_tokens b) dep 0;
  let minted := trunc_int v in
  if minted <? b_mmin b then Err "below mints min" else
  let hm := register (s_hm s) now minted in
  if b_mmax b <? period_sum hm now (b_period b) then Err "above mints max" else
  if minted <=? 0 then Err "invalid coins" else
  do ts <- inc_tokens (b_tokens b) dep;
  do capok <- validate_cap (b_cap b) ts;
  if negb capok then Err "token exceeding cap" else
  let bal := bal_add (send (s_bal s) a MODULE dep) a BDENOM minted in
  Ok (mkS (set_amount (set_tokens b ts) (b_amount b + minted)) bal (s_supply s + minted) hm (s_hb s) (s_hs s) (s_sibs s)).

(* ---------------------------------------------------------------- burn *)
Fixpoint withdraw_coins (ts : list token) (portion : dec) : outcome coins :=
  match ts with
  | [] => Ok []
  | t :: r =>
      do rest <- withdraw_coins r portion;
      if negb (t_wd t) then Ok rest else
      do w <- dmul (dec_of_int (t_amount t)) portion;
      let x := trunc_int w in
      Ok (if 0 <? x then coins_add rest (t_denom t) x else rest)
  end.

Definition burn (v : variant) (s : state) (now a d x : Z) : outcome state :=
  let b := s_bk s in
  if b_bd b then Err "burns disabled" else
  if x <? b_bmin b then Err "below burns min" else
  let hb := register (s_hb s) now x in
  if b_bmax b <? period_sum hb now (b_period b) then Err "above burns max" else
  if x <=? 0 then Err "invalid coins" else
  if s_bal s a d <? x then Err "insufficient funds" else
  if negb (d =? BDENOM) then Err "invalid basket denom" else
  let supply' := s_supply s - x in
  let S := if v_burn_pre v then s_supply s else supply' in
  do portion <- dquo (dec_of_int x) (dec_of_int S);
  do outs <- withdraw_coins (b_tokens b) portion;
  do _ <- (match outs with [] => Err "not able to withdraw any tokens" | _ => Ok tt end);
  if negb (has_funds (s_bal s) MODULE outs) then Err "insufficient funds" else
  do ts <- dec_tokens (b_tokens b) outs;
  do capok <- validate_cap (b_cap b) ts;
  if negb capok then Err "token exceeding cap" else
  let bal := send (bal_add (s_bal s) a BDENOM (- x)) MODULE a outs in
  Ok (mkS (set_amount (set_tokens b ts) (b_amount b - x)) bal supply' (s_hm s) hb (s_hs s) (s_sibs s)).

(* ---------------------------------------------------------------- swap *)
Record swap_acc := mkA { a_ts : list token; a_sur : coins; a_bal : Z -> Z -> Z; a_hs : history; a_outs : coins }.

Definition swap_pair (b : basket) (now a : Z) (acc : swap_acc) (p : Z * Z * Z) : outcome swap_acc :=
  let '(din, xin, dout) := p in
  if xin <=? 0 then Err "invalid coins" else
  if a_bal acc a din <? xin then Err "insufficient funds" else
  let bal := bal_add (bal_add (a_bal acc) a din (- xin)) MODULE din xin in
  match find_token (a_ts acc) din with None => Err "invalid basket deposit denom" | Some tin =>
  match find_token (a_ts acc) dout with None => Err "invalid basket withdraw denom" | Some tout =>
  if negb (t_sw tin) then Err "swaps disabled for in token" else
  if negb (t_sw tout) then Err "swaps disabled for out token" else
  do sv <- dmul (dec_of_int xin) (t_weight tin);
  let swap_value := trunc_int sv in
  if swap_value <? b_smin b then Err "below swaps min" else
  let hs := register (a_hs acc) now swap_value in
  if b_smax b <? period_sum hs now (b_period b) then Err "above swaps max" else
  do sa <- dmul (dec_of_int xin) (dec_one - b_fee b);
  let swap_amount := trunc_int sa in
  let fee_amount := xin - swap_amount in
  let sur := if 0 <? fee_amount then coins_add (a_sur acc) din fee_amount else a_sur acc in
  do x1 <- dmul (dec_of_int swap_amount) (t_weight tin);
  do x2 <- dquo x1 (t_weight tout);
  let out := trunc_int x2 in
  if out =? 0 then Err "not able to withdraw any tokens" else
  if swap_amount <? 0 then Panic "negative coin amount" else
  let ts1 := add_token (a_ts acc) din swap_amount in
  if out <? 0 then Panic "negative coin amount" else
  match find_token ts1 dout with None => Err "invalid basket deposit denom" | Some t2 =>
  if t_amount t2 - out <? 0 then Err "insufficient basket deposit token" else
  Ok (mkA (add_token ts1 dout (- out)) sur bal hs (coins_add (a_outs acc) dout out))
  end end end.

Fixpoint swap_pairs (b : basket) (now a : Z) (acc : swap_acc) (ps : list (Z * Z * Z)) : outcome swap_acc :=
  match ps with
  | [] => Ok acc
  | p :: r => do acc' <- swap_pair b now a acc p; swap_pairs b now a acc' r
  end.

(* finalOutCoins, and outAmounts.Sub(finalOutCoins...) = what the slippage fee keeps, per out
   denomination (outAmounts is a sorted sdk.Coins: one entry per denomination) *)
Fixpoint final_outs (one_minus_fee : dec) (outs : coins) : outcome (coins * coins) :=
  match outs with
  | [] => Ok ([], [])
  | (d, x) :: r =>
      do f <- dmul (dec_of_int x) one_minus_fee;
      let y := trunc_int f in
      if y <? 0 then Panic "negative coin amount" else
      do rest <- final_outs one_minus_fee r;
      if x - y <? 0 then Panic "negative coin amount" else
      Ok ((if y =? 0 then fst rest else (d, y) :: fst rest), (d, x - y) :: snd rest)
  end.

Definition swap (s : state) (now a : Z) (ps : list (Z * Z * Z)) : outcome state :=
  let b := s_bk s in
  if b_sd b then Err "swaps disabled" else
  do old <- avg_disbalance (b_tokens b);
  do acc <- swap_pairs b now a (mkA (b_tokens b) (b_surplus b) (s_bal s) (s_hs s) []) ps;
  do fee <- slippage_fee (b_slip b) (a_ts acc) old;
  do ff <- final_outs (dec_one - fee) (a_outs acc);
  let finals := fst ff in
  if negb (has_funds (a_bal acc) MODULE finals) then Err "insufficient funds" else
  let bal := send (a_bal acc) MODULE a finals in
  let sur := coins_add_all (a_sur acc) (snd ff) in
  do capok <- validate_cap (b_cap b) (a_ts acc);
  if negb capok then Err "token exceeding cap" else
  Ok (mkS (set_surplus (set_tokens b (a_ts acc)) sur) bal (s_supply s) (s_hm s) (s_hb s) (a_hs acc) (s_sibs s)).

(* ---------------------------------------------------------------- EditBasket (proposal) *)
Fixpoint has_denom (ts : list token) (d : Z) : bool :=
  match ts with [] => false | t :: r => (t_denom t =? d) || has_denom r d end.
(* amounts derived from the previous record by denomination; zero weight / duplicates rejected *)
Fixpoint edit_tokens (old : list token) (seen new : list token) : outcome (list token) :=
  match new with
  | [] => Ok []
  | t :: r =>
      if t_weight t =? 0 then Err "token weight should not be zero" else
      if has_denom seen (t_denom t) then Err "duplicate denom" else
      do rest <- edit_tokens old (t :: seen) r;
      Ok (with_amount t (reserve old (t_denom t)) :: rest)
  end.

Definition edit (v : variant) (s : state) (new : basket) : outcome state :=
  let b := s_bk s in
  match b_tokens new with [] => Err "empty underlying tokens" | _ =>
  do ts <- edit_tokens (b_tokens b) [] (b_tokens new);
  do vs <- token_values ts;
  if trunc_int (zsum vs) <? s_supply s then Err "basket denom supply too big" else
  let nb := set_surplus (set_tokens new ts) (b_surplus b) in
  let nb := if v_edit_keep v then set_amount nb (b_amount b) else nb in
  Ok (mkS nb (s_bal s) (s_supply s) (s_hm s) (s_hb s) (s_hs s) (s_sibs s))
  end.

(* ---------------------------------------------------------------- hooks, emergency switches, end block *)
(* AfterSlashStakingPool's loop body for one underlying token: weight *= (1 - slash), flags on.
   (The hook looks the basket up under "sdb/<denom>", a name no basket carries, so on the
   current tree the loop is never reached: the hook itself is [OSlashHook] below, a no-op.) *)
Fixpoint slash_token (ts : list token) (d : Z) (slash : dec) : outcome (list token) :=
  match ts with
  | [] => Ok []
  | t :: r =>
      do rest <- slash_token r d slash;
      if t_denom t =? d then
        do w <- dmul (t_weight t) (dec_one - slash);
        Ok (mkT (t_denom t) w (t_amount t) true true true :: rest)
      else Ok (t :: rest)
  end.
(* AfterSlashProposalRaise's loop body *)
Definition raise_token (ts : list token) (d : Z) : list token :=
  map (fun t => if t_denom t =? d then mkT (t_denom t) (t_weight t) (t_amount t) false false false else t) ts.

(* AfterUpsertStakingPool: the lookup fails, so the record of basket 1 is REPLACED by an empty one
   (new suffix, hence a new denomination: the observed supply of the old one is untouched).
   The harness ends a history with this operation; later operations are not modelled. *)
Definition shell : basket :=
  mkB 0 [] [] 0 0 0 86400 1 1000000000000 1 1000000000000 1 1000000000000 false false false.

Inductive op : Type :=
| OMint (now a : Z) (dep : coins)
| OBurn (now a d x : Z)
| OSwap (now a : Z) (pairs : list (Z * Z * Z))
| OEdit (new : basket)
| ODisable (which : Z) (allowed : bool)      (* 0 deposits, 1 withdraws, 2 swaps *)
| OSlashHook | ORaiseHook
| OSlashW (d : Z) (slash : dec)              (* loop body of the slash hook (unreachable today) *)
| OEndBlock (now : Z)
| OUpsertHook (stake_enabled : bool)
| OWithdraw (ids : list Z) (target : Z) (rewards : coins)
      (* ProposalBasketWithdrawSurplus: basket ids as listed, receiver; [rewards] = staking rewards
         pending for the basket module account in x/multistaking (known to the harness), which the
         handler claims into the module account and forwards to the receiver *)
| OCreate (new : basket)                     (* ProposalCreateBasket *)
| OGenesis.                                  (* ExportGenesis, fresh store, InitGenesis *)

(* ---------------------------------------------------------------- proposals over several baskets *)
Fixpoint upd_nth (l : list basket) (n : nat) (b : basket) : list basket :=
  match l, n with
  | [], _ => []
  | _ :: r, O => b :: r
  | x :: r, S k => x :: upd_nth r k b
  end.
Definition get_bk (s : state) (id : Z) : option basket :=
  if id =? 1 then Some (s_bk s) else if id <? 2 then None else nth_error (s_sibs s) (Z.to_nat (id - 2)).
Definition put_bk (s : state) (id : Z) (bal : Z -> Z -> Z) (b : basket) : state :=
  if id =? 1 then mkS b bal (s_supply s) (s_hm s) (s_hb s) (s_hs s) (s_sibs s)
  else mkS (s_bk s) bal (s_supply s) (s_hm s) (s_hb s) (s_hs s) (upd_nth (s_sibs s) (Z.to_nat (id - 2)) b).
(* BasketWithdrawSurplus: for every listed id IN ORDER read the record, send its surplus from the
   module account to the receiver, store it with an empty surplus (a repeated id finds the surplus
   already empty; an unknown id fails the whole proposal).  The claim of staking rewards of the
   module account that follows is not modelled (the module account holds no delegation). *)
Fixpoint withdraw_ids (s : state) (target : Z) (ids : list Z) : outcome state :=
  match ids with
  | [] => Ok s
  | id :: r =>
      match get_bk s id with
      | None => Err "basket does not exist"
      | Some b =>
          if negb (has_funds (s_bal s) MODULE (b_surplus b)) then Err "insufficient funds"
          else withdraw_ids (put_bk s id (send (s_bal s) MODULE target (b_surplus b)) (set_surplus b [])) target r
      end
  end.
(* CreateBasket: next id, empty surplus, zero reserves; no tokens / zero weight / duplicates rejected.
   The recorded amount is taken from the proposal as it is (variant [v_create_zero = false]). *)
Fixpoint create_tokens (seen new : list token) : outcome (list token) :=
  match new with
  | [] => Ok []
  | t :: r =>
      if t_weight t =? 0 then Err "token weight should not be zero" else
      if has_denom seen (t_denom t) then Err "duplicate denom" else
      do rest <- create_tokens (t :: seen) r;
      Ok (with_amount t 0 :: rest)
  end.
Definition create (v : variant) (s : state) (new : basket) : outcome state :=
  match b_tokens new with [] => Err "empty underlying tokens" | _ =>
  do ts <- create_tokens [] (b_tokens new);
  Ok (mkS (s_bk s) (s_bal s) (s_supply s) (s_hm s) (s_hb s) (s_hs s) (s_sibs s ++ [set_surplus (set_tokens (if v_create_zero v then set_amount new 0 else new) ts) []]))
  end.

(* Genesis round trip of an action history: the exported record carries whole seconds only, and the
   import SETS (does not add) the amount under the key of that second, in the order of the export
   (ascending time): entries of one second collapse into the last of them *)
Fixpoint set_entry (h : history) (t x : Z) : history :=
  match h with
  | [] => [(t, x)]
  | (t', y) :: r => if t' =? t then (t', x) :: r else (t', y) :: set_entry r t x
  end.
Definition genesis_hist (h : history) : history :=
  fold_left (fun acc e => set_entry acc (fst e / NS * NS) (snd e)) h [].

Definition with_bk (s : state) (b : basket) : state := mkS b (s_bal s) (s_supply s) (s_hm s) (s_hb s) (s_hs s) (s_sibs s).

Definition step (v : variant) (s : state) (o : op) : outcome state :=
  match o with
  | OMint now a dep => mint s now a dep
  | OBurn now a d x => burn v s now a d x
  | OSwap now a ps => swap s now a ps
  | OEdit new => edit v s new
  | ODisable which allowed =>
      if negb allowed then Err "not enough permissions" else
      let b := s_bk s in
      Ok (with_bk s (set_flags b (b_md b || (which =? 0)) (b_bd b || (which =? 1)) (b_sd b || (which =? 2))))
  | OSlashHook => Ok s
  | ORaiseHook => Ok s
  | OSlashW d slash => do ts <- slash_token (b_tokens (s_bk s)) d slash; Ok (with_bk s (set_tokens (s_bk s) ts))
  | OEndBlock now =>
      let p := b_period (s_bk s) in
      Ok (mkS (s_bk s) (s_bal s) (s_supply s) (clear_old (s_hm s) now p) (clear_old (s_hb s) now p) (clear_old (s_hs s) now p) (s_sibs s))
  | OUpsertHook se => Ok (if se && negb (v_upsert_skip v) then with_bk s shell else s)
  | OWithdraw ids target rewards =>
      do s1 <- withdraw_ids s target ids;
      (* ClaimRewardsFromModule: fee collector -> basket module, then basket module -> receiver: the
         module account's balance is back where it was *)
      if coins_valid rewards then
        Ok (mkS (s_bk s1) (fold_left (fun b c => bal_add b target (fst c) (snd c)) rewards (s_bal s1)) (s_supply s1)
                (s_hm s1) (s_hb s1) (s_hs s1) (s_sibs s1))
      else Ok s1
  | OGenesis => Ok (mkS (s_bk s) (s_bal s) (s_supply s) (genesis_hist (s_hm s)) (genesis_hist (s_hb s)) (genesis_hist (s_hs s)) (s_sibs s))
  | OCreate new => create v s new
  end.

(* a failed message changes nothing *)
Definition apply (v : variant) (s : state) (o : op) : state :=
  match step v s o with Ok s' => s' | _ => s end.
Definition run (v : variant) (s : state) (ops : list op) : state := fold_left (apply v) ops s.

Definition init_state (b : basket) (bal : Z -> Z -> Z) (supply : Z) (sibs : list basket) : state := mkS b bal supply [] [] [] sibs.
