(* Proposal lifecycle of x/gov (definitions only).
   Sources: x/gov/abci.go (EndBlocker, processProposal, processEnactmentProposal),
   x/gov/keeper/proposal.go (CreateAndSaveProposalWithContent, queues keyed by (time, id), votes),
   x/gov/keeper/msg_server.go (SubmitProposal, VoteProposal), x/gov/types/vote.go (CalculateVotes),
   x/gov/types/quorum.go (IsQuorum), x/gov/types/router.go (ApplyProposal: cache context).

   The model is parameterised (Section variables) by everything that is not the lifecycle itself:
   the application state [A] outside proposals/votes/queues, the permission oracles, the network
   properties read by the lifecycle, the proposal content handlers, and the tally decision
   function (float32 in the code, see Model/F32Tally.v).  A ghost log records what happened. *)
From Sekai Require Import Base.Prelude Base.Dec.

(* ---------------------------------------------------------------- results, tallies *)
Inductive vresult := Unknown | Passed | Rejected | RejectedWithVeto | Pending | QuorumNotReached
                   | Enactment | PassedWithExecFail.
Definition vresult_code (r : vresult) : Z :=
  match r with Unknown => 0 | Passed => 1 | Rejected => 2 | RejectedWithVeto => 3 | Pending => 4
             | QuorumNotReached => 5 | Enactment => 6 | PassedWithExecFail => 7 end.
Definition vresult_eqb (a b : vresult) : bool := vresult_code a =? vresult_code b.

(* CalculatedVotes: counts per option, total = number of votes (including votes whose option is
   none of yes/abstain/no/veto: MsgVoteProposal.ValidateBasic does not check the option) *)
Record tally := mkT { t_yes : Z; t_no : Z; t_abstain : Z; t_veto : Z; t_total : Z; t_vcap : Z }.

(* VoteOption: 1 yes, 2 abstain, 3 no, 4 no-with-veto *)
Definition count_opt (o : Z) (vs : list (Z * Z)) : Z :=
  Z.of_nat (List.length (filter (fun v => snd v =? o) vs)).
Definition tally_of (vs : list (Z * Z)) (vcap : Z) : tally :=
  mkT (count_opt 1 vs) (count_opt 3 vs) (count_opt 2 vs) (count_opt 4 vs) (Z.of_nat (List.length vs)) vcap.

(* ProcessResult with exact rational comparisons.  It equals the float32 computation of the code
   whenever total and vcap are below 2^24 (Model/F32Tally.v). *)
Definition decide_q (t : tally) : vresult :=
  if negb (t_vcap t =? 0) && (t_vcap t <=? 2 * t_veto t) then RejectedWithVeto
  else if t_total t =? 0 then Unknown                      (* 0/0 = NaN: every comparison false *)
  else if t_total t <? 2 * t_yes t then Passed
  else if t_total t <=? 2 * (t_no t + t_abstain t + t_veto t) then Rejected
  else Unknown.

(* types.IsQuorum: an error when there are more votes than voters or the quorum exceeds 1;
   otherwise votes >= voters * quorum on sdk.Dec (Mul panics beyond 315 bits) *)
Definition is_quorum (q votes voters : Z) : outcome bool :=
  if voters <? votes then Err "there is more votes than voters"
  else if PREC <? q then Err "quorum cannot be bigger than 1.00"
  else do need <- dmul (dec_of_int voters) q; Ok (need <=? dec_of_int votes).
(* processProposal on that error: the earlier code panicked ("Invalid quorum on proposal", halting
   the chain); the repaired code logs it and treats the tally as quorum NOT reached.  Which of the
   two the tree does is read from x/gov/abci.go on every run (Gen/GovHandlers.v). *)
Definition quorum_checked (err_panics : bool) (q votes voters : Z) : outcome bool :=
  match is_quorum q votes voters with
  | Err e => if err_panics then Panic "Invalid quorum on proposal" else Ok false
  | r => r end.

(* ---------------------------------------------------------------- votes and queues *)
(* votes of one proposal: association list voter -> option; SaveVote overwrites the key *)
Definition set_vote (who opt : Z) (vs : list (Z * Z)) : list (Z * Z) :=
  (who, opt) :: filter (fun v => negb (fst v =? who)) vs.
Definition get_vote (who : Z) (vs : list (Z * Z)) : option Z :=
  option_map snd (find (fun v => fst v =? who) vs).
(* x/recovery address rotation: GetVote(old); DeleteVote; Voter = new; SaveVote -- the person's vote
   moves to the new address (overwriting a vote stored there) *)
Definition rename_vote (old new : Z) (vs : list (Z * Z)) : list (Z * Z) :=
  match get_vote old vs with
  | Some o => set_vote new o (filter (fun v => negb (fst v =? old)) vs)
  | None => vs end.

(* queue keys (time, id), iterated in key order *)
Definition key_ltb (a b : Z * Z) : bool := (fst a <? fst b) || ((fst a =? fst b) && (snd a <? snd b)).
Definition key_eqb (a b : Z * Z) : bool := (fst a =? fst b) && (snd a =? snd b).
Fixpoint q_insert (k : Z * Z) (q : list (Z * Z)) : list (Z * Z) :=
  match q with
  | [] => [k]
  | x :: r => if key_eqb k x then q else if key_ltb k x then k :: q else x :: q_insert k r
  end.
Definition q_remove (k : Z * Z) (q : list (Z * Z)) : list (Z * Z) := filter (fun x => negb (key_eqb k x)) q.
(* Iterator(prefix, PrefixEndBytes(prefix ++ time)): every key whose time is <= the block time *)
Definition q_due (t : Z) (q : list (Z * Z)) : list Z := map snd (filter (fun x => fst x <=? t) q).

Definition upd {V} (f : Z -> V) (k : Z) (v : V) : Z -> V := fun x => if x =? k then v else f x.

Fixpoint fold_out {X} (f : Z -> X -> outcome X) (l : list Z) (x : X) : outcome X :=
  match l with [] => Ok x | i :: r => do x' <- f i x; fold_out f r x' end.

Record ctx := mkC { now : Z; height : Z }.

(* everything that is not the lifecycle itself *)
Record params (A content ext : Type) := mkParams {
  valid_basic : content -> bool;                (* Content.ValidateBasic *)
  can_propose : A -> Z -> content -> bool;      (* CheckIfAllowedPermission(proposer, ProposalPermission) *)
  is_active : A -> Z -> bool;                   (* actor found and Active *)
  has_vote_perm : A -> Z -> content -> bool;    (* CheckIfAllowedPermission(voter, VotePermission) *)
  nvoters : A -> content -> Z;                  (* len(GetNetworkActorsByAbsoluteWhitelistPermission) *)
  nveto : A -> content -> Z;                    (* len(GetActorsWithVoteWithVeto(availableVoters)) *)
  quorum_of : A -> content -> Z;                (* VoteQuorum (sdk.Dec scaled by 10^18) *)
  end_secs : A -> content -> Z;                 (* max(duration(type), MinimumProposalEndTime) *)
  enact_secs : A -> content -> Z;               (* ProposalEnactmentTime *)
  min_end_blocks : A -> Z;
  min_enact_blocks : A -> Z;
  handler : content -> A -> outcome A;          (* ProposalHandler.Apply *)
  ext_step : ext -> A -> A;                     (* anything else that happens on the chain *)
  rotate_app : Z -> Z -> A -> A;                (* address rotation outside the lifecycle (actor record, permissions) *)
  decide : tally -> vresult;                    (* CalculatedVotes.ProcessResult *)
  quorum_error_panics : bool }.                 (* processProposal: IsQuorum error => panic (true) or quorum not reached (false) *)
Arguments valid_basic {A content ext}. Arguments can_propose {A content ext}. Arguments is_active {A content ext}.
Arguments has_vote_perm {A content ext}. Arguments nvoters {A content ext}. Arguments nveto {A content ext}.
Arguments quorum_of {A content ext}. Arguments end_secs {A content ext}. Arguments enact_secs {A content ext}.
Arguments min_end_blocks {A content ext}. Arguments min_enact_blocks {A content ext}. Arguments handler {A content ext}.
Arguments ext_step {A content ext}. Arguments rotate_app {A content ext}. Arguments decide {A content ext}. Arguments quorum_error_panics {A content ext}.

Section Records.
Variables (A content : Type).
Record proposal := mkP {
  p_content : content; p_submit : Z; p_vend : Z; p_eend : Z; p_minv : Z; p_mine : Z;
  p_result : vresult; p_exec : Z (* 0 "", 1 "executed successfully", 2 "execution failed" *) }.

(* ghost log, newest first *)
Inductive event :=
| EvSubmit (id : Z) (p : proposal) (c : ctx)
| EvVote (id who opt : Z) (c : ctx) (a : A)
| EvFinal (id : Z) (res : vresult) (tl : tally) (nv q mine : Z) (c : ctx) (a : A)
| EvApply (id : Z) (ok : bool) (c : ctx) (a a' : A)
| EvRotate (old new : Z) (c : ctx).

Record state := mkS {
  app : A;
  props : Z -> option proposal;
  votes : Z -> list (Z * Z);
  activeq : list (Z * Z);
  enactq : list (Z * Z);
  next_id : Z;
  log : list event }.

Definition init (a : A) : state := mkS a (fun _ => None) (fun _ => []) [] [] 1 [].
End Records.
Arguments mkP {content}. Arguments p_content {content}. Arguments p_submit {content}. Arguments p_vend {content}.
Arguments p_eend {content}. Arguments p_minv {content}. Arguments p_mine {content}. Arguments p_result {content}. Arguments p_exec {content}.
Arguments EvSubmit {A content}. Arguments EvVote {A content}. Arguments EvFinal {A content}. Arguments EvApply {A content}. Arguments EvRotate {A content}.
Arguments mkS {A content}. Arguments app {A content}. Arguments props {A content}. Arguments votes {A content}.
Arguments activeq {A content}. Arguments enactq {A content}. Arguments next_id {A content}. Arguments log {A content}.
Arguments init {A content}.

Inductive op (content ext : Type) :=
| OSubmit (who : Z) (ct : content)
| OVote (who id opt : Z)
| OEndBlock
| OExt (e : ext)
| ORotate (old new : Z).   (* MsgRotateRecoveryAddress / RotateValidatorByHalfRRTokenHolder *)
Arguments OSubmit {content ext}. Arguments OVote {content ext}. Arguments OEndBlock {content ext}. Arguments OExt {content ext}. Arguments ORotate {content ext}.

Section Gov.
Variables (A content ext : Type).
Variable P : params A content ext.
Notation state := (state A content).

(* ---- MsgSubmitProposal (a failing message leaves no trace: the transaction is reverted) *)
Definition submit (c : ctx) (who : Z) (ct : content) (s : state) : outcome state :=
  if negb ((valid_basic P) ct) then Err "invalid content"
  else if negb ((can_propose P) (app s) who ct) then Err "not enough permissions"
  else
    let a := app s in
    let id := next_id s in
    let vend := now c + (end_secs P) a ct in
    let p := mkP ct (now c) vend (vend + (enact_secs P) a ct) (height c + (min_end_blocks P) a)
                 (height c + ((min_end_blocks P) a + (min_enact_blocks P) a)) Pending 0 in
    (* dry run of the handler in a cache context that is thrown away *)
    match (handler P) ct a with
    | Panic m => Panic m
    | Err e => Err e
    | Ok _ => Ok (mkS a (upd (props s) id (Some p)) (votes s) (q_insert (vend, id) (activeq s))
                      (enactq s) (id + 1) (EvSubmit id p c :: log s))
    end.

(* ---- MsgVoteProposal *)
Definition vote (c : ctx) (who id opt : Z) (s : state) : outcome state :=
  if negb ((is_active P) (app s) who) then Err "actor is not active"
  else match props s id with
  | None => Err "proposal does not exist"
  | Some p =>
      if p_vend p <? now c then Err "voting time ended"
      else if negb ((has_vote_perm P) (app s) who (p_content p)) then Err "not enough permissions"
      else Ok (mkS (app s) (props s) (upd (votes s) id (set_vote who opt (votes s id))) (activeq s)
                   (enactq s) (next_id s) (EvVote id who opt c (app s) :: log s))
  end.

(* ---- processProposal *)
Definition final_result (qb : bool) (tl : tally) : vresult :=
  if qb then match (decide P) tl with Passed => Enactment | r => r end else QuorumNotReached.

Definition process_prop (c : ctx) (id : Z) (s : state) : outcome state :=
  match props s id with
  | None => Panic "proposal was expected to exist"
  | Some p =>
      if height c <? p_minv p then Ok s
      else
        let a := app s in
        let ct := p_content p in
        let tl := tally_of (votes s id) ((nveto P) a ct) in
        let nv := (nvoters P) a ct in
        let q := (quorum_of P) a ct in
        do qb <- quorum_checked (quorum_error_panics P) q (t_total tl) nv;
        let res := final_result qb tl in
        let mine := height c + (min_enact_blocks P) a in
        let p' := mkP ct (p_submit p) (p_vend p) (p_eend p) (p_minv p) mine res (p_exec p) in
        Ok (mkS a (upd (props s) id (Some p')) (votes s) (q_remove (p_vend p, id) (activeq s))
                (q_insert (p_eend p, id) (enactq s)) (next_id s)
                (EvFinal id res tl nv q mine c a :: log s))
  end.

(* ---- processEnactmentProposal; router.ApplyProposal keeps the (handler P)'s writes only on success *)
Definition process_enact (c : ctx) (id : Z) (s : state) : outcome state :=
  match props s id with
  | None => Panic "proposal was expected to exist"
  | Some p =>
      if height c <? p_mine p then Ok s
      else
        match p_result p with
        | Enactment =>
            let ct := p_content p in
            match (handler P) ct (app s) with
            | Panic m => Panic m
            | r =>
              let '(a', ok) := match r with Ok a' => (a', true) | _ => (app s, false) end in
              let p' := mkP ct (p_submit p) (p_vend p) (p_eend p) (p_minv p) (p_mine p) Passed
                            (if ok then 1 else 2) in
              Ok (mkS a' (upd (props s) id (Some p')) (votes s) (activeq s)
                      (q_remove (p_eend p, id) (enactq s)) (next_id s)
                      (EvApply id ok c (app s) a' :: log s))
            end
        | _ => Ok (mkS (app s) (props s) (votes s) (activeq s) (q_remove (p_eend p, id) (enactq s))
                       (next_id s) (log s))
        end
  end.

(* ---- EndBlocker: enactment pass over the keys due now, then finalisation pass *)
Definition end_block (c : ctx) (s : state) : outcome state :=
  do s1 <- fold_out (process_enact c) (q_due (now c) (enactq s)) s;
  fold_out (process_prop c) (q_due (now c) (activeq s1)) s1.

Definition step (c : ctx) (o : op content ext) (s : state) : outcome state :=
  match o with
  | OSubmit who ct => submit c who ct s
  | OVote who id opt => vote c who id opt s
  | OEndBlock => end_block c s
  | OExt e => Ok (mkS ((ext_step P) e (app s)) (props s) (votes s) (activeq s) (enactq s) (next_id s) (log s))
  | ORotate old new =>
      Ok (mkS ((rotate_app P) old new (app s)) (props s) (fun id => rename_vote old new (votes s id)) (activeq s) (enactq s)
              (next_id s) (EvRotate old new c :: log s))
  end.

(* a rejected message changes nothing; a panic (which would halt a real node, property C06) is
   treated likewise so that every history has a continuation *)
Definition step_total (s : state) (co : ctx * op content ext) : state :=
  match step (fst co) (snd co) s with Ok s' => s' | _ => s end.
Definition run (ops : list (ctx * op content ext)) (s : state) : state := fold_left step_total ops s.

End Gov.
