(* C10: (1) observations of the real code, (2) correspondence model vs. real code,
   (3) the decidable spec checker applied to the REAL observations.  The spec checker is written
   from the property text; it never calls the model's step functions. *)
From Sekai Require Import Base.Prelude Base.Dec Model.Pools.

Record obs := mkObs {
  o_time : Z; o_height : Z; o_slashed : Z;
  o_stake : coins; o_shares : coins; o_ssup : coins; o_mod : coins; o_fee : coins; o_treas : coins;
  o_nbal : list (Z * coins);      (* in a step: only the accounts that differ from the initial observation *)
  o_sbal : list (Z * coins); o_rew : list (Z * coins);
  o_undels : list (Z * Z * Z * coins);     (* id, owner, expiry, amount *)
  o_last : Z; o_dels : list Z;
  o_comp : list (Z * (bool * list Z * Z));
  o_votes : list (Z * Z); o_prev : Z;
  o_tsup : coins                  (* tokens-module TokenInfo.Supply of the share tokens *) }.

(* operation, result (0 ok, 1 rejected, 2 panic), auxiliary spec-level inputs
   [number of blocks of the window in which the previous proposer really signed; power the code saw;
    1 when that signing record is the blocks' own (no keeper-level vote writes in the history)],
   observation after the step (None: rejected/panicked, the cache was discarded) *)
Definition stepobs := (op * Z * list Z * option obs)%type.
Inductive c10_case : Type := C10 (cfg : nat) (init : obs) (steps : list stepobs).

Definition cof (cs : coins) : cmap := fun d => match assoc d cs with Some x => x | None => 0 end.
Definition aof (l : list (Z * coins)) : amap := fun a => match assoc a l with Some cs => cof cs | None => czero end.

Definition resolve (init o : obs) : obs :=
  let merged := map (fun e => match assoc (fst e) (o_nbal o) with Some cs => (fst e, cs) | None => e end) (o_nbal init)
                ++ filter (fun e => match assoc (fst e) (o_nbal init) with Some _ => false | None => true end) (o_nbal o) in
  mkObs (o_time o) (o_height o) (o_slashed o) (o_stake o) (o_shares o) (o_ssup o) (o_mod o) (o_fee o) (o_treas o)
        merged (o_sbal o) (o_rew o) (o_undels o) (o_last o) (o_dels o) (o_comp o) (o_votes o) (o_prev o) (o_tsup o).

Definition undel_of (e : Z * Z * Z * coins) : undel :=
  let '(id, ow, ex, am) := e in mkUndel id ow ex am.

Definition st_of_obs (o : obs) : st :=
  mkSt (o_time o) (o_height o) (o_slashed o) (cof (o_stake o)) (cof (o_shares o)) (cof (o_ssup o))
       (cof (o_mod o)) (cof (o_fee o)) (cof (o_treas o)) (aof (o_nbal o)) (aof (o_sbal o)) (aof (o_rew o))
       (map undel_of (o_undels o)) (o_last o) (o_dels o)
       (fun a => match assoc a (o_comp o) with Some x => x | None => (false, [], 0) end)
       (o_votes o) (o_prev o) (cof (o_tsup o)).

Fixpoint list_eqb {A} (e : A -> A -> bool) (l m : list A) : bool :=
  match l, m with [], [] => true | x :: l', y :: m' => e x y && list_eqb e l' m' | _, _ => false end.
Definition coin_eqb (a b : Z * Z) : bool := (fst a =? fst b) && (snd a =? snd b).
Definition coins_eqb := list_eqb coin_eqb.
Definition undel_eqb (a b : undel) : bool :=
  (u_id a =? u_id b) && (u_owner a =? u_owner b) && (u_expiry a =? u_expiry b) && coins_eqb (u_amt a) (u_amt b).
Definition cmap_eqb (dens : list Z) (m n : cmap) : bool := forallb (fun d => m d =? n d) dens.
Definition amap_eqb (accts dens : list Z) (m n : amap) : bool := forallb (fun a => cmap_eqb dens (m a) (n a)) accts.
Definition vote_in (p : Z * Z) (l : list (Z * Z)) : bool := existsb (coin_eqb p) l.
Definition votes_eqb (l m : list (Z * Z)) : bool :=
  Nat.eqb (List.length l) (List.length m) && forallb (fun p => vote_in p m) l && forallb (fun p => vote_in p l) m.
Definition comp_eqb (a b : bool * list Z * Z) : bool :=
  let '(x1, l1, n1) := a in let '(x2, l2, n2) := b in Bool.eqb x1 x2 && list_eqb Z.eqb l1 l2 && (n1 =? n2).

Definition st_eq_obs (c : cfg) (s : st) (o : obs) : bool :=
  let t := st_of_obs o in
  let ds := c_dens c in let ac := c_accts c in
  (time s =? time t) && (height s =? height t) && (slashed s =? slashed t)
  && cmap_eqb ds (stake s) (stake t) && cmap_eqb ds (shares s) (shares t) && cmap_eqb ds (ssup s) (ssup t)
  && cmap_eqb ds (modb s) (modb t) && cmap_eqb ds (fee s) (fee t) && cmap_eqb ds (treas s) (treas t)
  && amap_eqb ac ds (nbal s) (nbal t) && amap_eqb ac ds (sbal s) (sbal t) && amap_eqb ac ds (rew s) (rew t)
  && list_eqb undel_eqb (undels s) (undels t) && (last s =? last t)
  && list_eqb Z.eqb (dels s) (dels t)
  && forallb (fun a => comp_eqb (comp s a) (comp t a)) ac
  && votes_eqb (votes s) (votes t) && (prev s =? prev t) && cmap_eqb ds (tsup s) (tsup t).

(* ---------------------------------------------------------------- correspondence *)
Definition is_slash_proposal (o : op) : bool := match o with OSlashProposal _ => true | _ => false end.

Fixpoint steps_match (v : variant) (c : cfg) (init : obs) (s : st) (l : list stepobs) : bool :=
  match l with
  | [] => true
  | (o, res, _, ob) :: r =>
      (* the governance slash path panics in the application as wired (the slashing keeper holds a copy
         of the multistaking keeper without distributor keeper); a tree where it works must agree with
         the keeper-level slash *)
      if is_slash_proposal o && (res =? 2) && negb (v_slash_byref v) then match ob with None => steps_match v c init s r | Some _ => false end else
      match o, ob with
      | OExternal _, Some q => (res =? 0) && steps_match v c init (st_of_obs (resolve init q)) r   (* outside the model *)
      | _, _ =>
      match step v c o s, ob with
      (* the next step starts from the observed state, which was just checked to equal the model's state on
         the tracked accounts and denominations (this also keeps the closures of the function-valued maps small) *)
      | Ok s', Some q => (res =? 0) && st_eq_obs c s' (resolve init q) && steps_match v c init (st_of_obs (resolve init q)) r
      | Err _, None => (res =? 1) && steps_match v c init s r
      | Panic _, None => (res =? 2) && steps_match v c init s r
      | _, _ => false
      end end
  end.

Definition case_matches (v : variant) (cfgs : list cfg) (k : c10_case) : bool :=
  match k with C10 ci init steps =>
    match nth_error cfgs ci with None => false | Some c => steps_match v c init (st_of_obs init) steps end end.

Fixpoint mismatches_from (v : variant) (cfgs : list cfg) (n : nat) (cs : list c10_case) : list nat :=
  match cs with [] => [] | k :: r =>
    if case_matches v cfgs k then mismatches_from v cfgs (S n) r else n :: mismatches_from v cfgs (S n) r end.
Definition c10_mismatches (v : variant) (cfgs : list cfg) (cs : list c10_case) : list nat := mismatches_from v cfgs 0 cs.

(* ---------------------------------------------------------------- the property, on real observations *)
Section Spec.
Variable c : cfg.
Let ds := c_dens c.
Let ac := c_accts c.

Definition g (cs : coins) (d : Z) : Z := cof cs d.
Definition ag (l : list (Z * coins)) (a d : Z) : Z := aof l a d.
Definition find_rec (id : Z) (l : list (Z * Z * Z * coins)) : option (Z * Z * coins) :=
  match filter (fun e => let '(i, _, _, _) := e in i =? id) l with
  | (_, ow, ex, am) :: _ => Some (ow, ex, am) | [] => None end.
Definition rec_eqb (a b : Z * Z * Z * coins) : bool := undel_eqb (undel_of a) (undel_of b).
Definition is_val (v : Z) : bool := (v =? 0) || (v =? 1).

(* "the supply of the pool's share token equals the pool's recorded share total" *)
Definition ok_supply (q : obs) : bool := forallb (fun d => g (o_ssup q) d =? g (o_shares q) d) ds.

(* "a delegator redeeming shares receives stake in proportion to the shares given up - never more than that
   fraction of the pool's remaining stake": x <= stake * burnt / shares + 1/2 *)
Definition ok_pro_rata (p q : obs) (who : Z) (amts : coins) : bool :=
  forallb (fun e => let d := fst e in let x := snd e in
             let burnt := ag (o_sbal p) who d - ag (o_sbal q) who d in
             (0 <=? burnt) && (2 * x * g (o_shares p) d <=? 2 * g (o_stake p) d * burnt + g (o_shares p) d)
             && (x <=? g (o_stake p) d)) amts.
(* the redeemed amount is recorded for the redeemer, matures after the unstaking period, nothing is paid yet *)
Definition ok_undel_record (p q : obs) (who : Z) (amts : coins) : bool :=
  list_eqb rec_eqb (o_undels q) (o_undels p ++ [(o_last p + 1, who, o_time p + c_unstake c, amts)])
  && (o_last q =? o_last p + 1)
  && forallb (fun d => ag (o_nbal q) who d =? ag (o_nbal p) who d) ds.

(* a delegator who redeems only part of his holding stays a delegator of the pool (and keeps receiving rewards) *)
Definition ok_still_delegator (p q : obs) (who : Z) : bool :=
  negb (zmem who (o_dels p) && existsb (fun d => 0 <? ag (o_sbal q) who d) ds) || zmem who (o_dels q).
(* the token registry's supply record of the share tokens follows the pool record as well *)
Definition ok_registry (q : obs) : bool := forallb (fun d => g (o_tsup q) d =? g (o_shares q) d) ds.

Definition paid_exactly (p q : obs) (who : Z) (amt : cmap) : bool :=
  forallb (fun d => (ag (o_nbal q) who d =? ag (o_nbal p) who d + amt d) && (g (o_mod q) d =? g (o_mod p) d - amt d)) ds.

Definition claim_clauses (p q : obs) (who id : Z) : list string :=
  match find_rec id (o_undels p) with
  | None => ["claim_once"%string]
  | Some (ow, ex, am) =>
      (if ow =? who then [] else ["claim_owner"%string]) ++
      (if ex <=? o_time p then [] else ["claim_expiry"%string]) ++
      (if list_eqb rec_eqb (o_undels q) (filter (fun e => let '(i, _, _, _) := e in negb (i =? id)) (o_undels p))
       then [] else ["claim_once"%string]) ++
      (if paid_exactly p q who (cof am) then [] else ["claim_amount"%string])
  end.
(* the owner's claim of a matured record that the module can pay must not be refused *)
Definition claim_denied (p : obs) (who id : Z) : bool :=
  match find_rec id (o_undels p) with
  | Some (ow, ex, am) => (ow =? who) && (ex <=? o_time p) && coins_valid am && forallb (fun e => snd e <=? g (o_mod p) (fst e)) am
  | None => false end.

Definition matured_clauses (p q : obs) (who : Z) : list string :=
  let due := filter (fun e => let '(_, ow, ex, _) := e in (ow =? who) && (ex <=? o_time p)) (o_undels p) in
  let rest := filter (fun e => let '(_, ow, ex, _) := e in negb ((ow =? who) && (ex <=? o_time p))) (o_undels p) in
  let total : cmap := fun d => zsum (map (fun e => let '(_, _, _, am) := e in cof am d) due) in
  (if list_eqb rec_eqb (o_undels q) rest then [] else ["matured_once"%string]) ++
  (if paid_exactly p q who total then [] else ["matured_amount"%string]).

(* ---- per-block allocation *)
Definition distributable (p : obs) : cmap :=
  if forallb (fun d => g (o_treas p) d <=? g (o_fee p) d) ds then (fun d => g (o_fee p) d - g (o_treas p) d) else czero.
Definition power_of (p : obs) : Z := Z.of_nat (List.length (filter (fun e => fst e =? o_prev p) (o_votes p))).
Definition val_credit (p q : obs) (d : Z) : Z :=
  if is_val (o_prev p) then ag (o_nbal q) (100 + o_prev p) d - ag (o_nbal p) (100 + o_prev p) d else 0.
Definition del_credit (p q : obs) (d : Z) : Z :=
  zsum (map (fun a => ag (o_rew q) a d - ag (o_rew p) a d) ac) + (g (o_stake q) d - g (o_stake p) d).
Definition allocation (p : obs) (infl d : Z) : Z :=
  distributable p d * power_of p / c_snap c + (if (d =? 0) && (o_prev p =? 0) then infl * power_of p / c_snap c else 0).
Definition excess (p q : obs) (infl : Z) : Z :=
  fold_left Z.max (map (fun d => val_credit p q d + del_credit p q d - allocation p infl d) ds) 0.

Definition excess_dist (p q : obs) (infl : Z) : Z :=
  fold_left Z.max (map (fun d => val_credit p q d + del_credit p q d - (distributable p d + (if d =? 0 then infl else 0))) ds) 0.

Definition alloc_clauses (p q : obs) (infl : Z) : list string :=
  (if excess_dist p q infl <=? 0 then [] else [("credited_le_distributable+" ++ z_to_string (excess_dist p q infl))%string]) ++
  (if excess p q infl <=? 0 then [] else [("credited_le_allocation+" ++ z_to_string (excess p q infl))%string]) ++
  (if forallb (fun d => (g (o_treas q) d =? g (o_fee q) d)
                        && (g (o_fee q) d =? g (o_fee p) d + (if d =? 0 then infl else 0) - val_credit p q d
                                             - (g (o_stake q) d - g (o_stake p) d))) ds
   then [] else ["remainder_to_treasury"%string]).

(* "a proposer that has been signing is credited a positive amount whenever there is something to distribute" *)
Definition signing_clause (p q : obs) (signed : Z) : list string :=
  if is_val (o_prev p) && (0 <? signed)
     && existsb (fun d => PREC <=? (distributable p d * signed / c_snap c) * Z.min (c_vfs c) PREC) ds
     && negb (0 <? zsum (map (fun d => val_credit p q d + del_credit p q d) ds))
  then ["signing_credited"%string] else [].

(* "by its signing record in the snapshot window": what is credited may not exceed what the blocks in which the
   previous proposer really SIGNED allow (checked when the vote store holds more than that record) *)
Definition allocation_signed (p : obs) (signed infl d : Z) : Z :=
  distributable p d * signed / c_snap c + (if (d =? 0) && (o_prev p =? 0) then infl * signed / c_snap c else 0).
Definition excess_signed (p q : obs) (signed infl : Z) : Z :=
  fold_left Z.max (map (fun d => val_credit p q d + del_credit p q d - allocation_signed p signed infl d) ds) 0.
Definition signing_record_clause (p q : obs) (aux : list Z) (infl : Z) : list string :=
  let signed := nth 0 aux 0 in
  if (nth 2 aux 0 =? 1) && is_val (o_prev p) && (signed <? power_of p) && (0 <? excess_signed p q signed infl)
  then [("credited_beyond_signing_record+" ++ z_to_string (excess_signed p q signed infl))%string] else [].

(* ---- address rotation (x/recovery) and other outside writers: the pool books, the share supply and everybody's
   holdings, rewards, registrations are carried over, nothing is created or lost *)
Definition same_pool (p q : obs) : bool :=
  (o_slashed p =? o_slashed q) && forallb (fun d => (g (o_stake p) d =? g (o_stake q) d) && (g (o_shares p) d =? g (o_shares q) d)
     && (g (o_ssup p) d =? g (o_ssup q) d) && (g (o_mod p) d =? g (o_mod q) d)) ds
  && list_eqb rec_eqb (o_undels p) (o_undels q).
Definition rotation_clauses (p q : obs) (who to : Z) : list string :=
  (if same_pool p q then [] else ["rotation_pool"%string]) ++
  (if forallb (fun d => (ag (o_sbal q) to d =? ag (o_sbal p) to d + ag (o_sbal p) who d) && (ag (o_sbal q) who d =? 0)) ds
      && forallb (fun a => (a =? who) || (a =? to) || forallb (fun d => ag (o_sbal q) a d =? ag (o_sbal p) a d) ds) ac
   then [] else ["rotation_shares"%string]) ++
  (if forallb (fun d => (ag (o_rew q) to d =? ag (o_rew p) to d + ag (o_rew p) who d) && (ag (o_rew q) who d =? 0)) ds
      && forallb (fun a => (a =? who) || (a =? to) || forallb (fun d => ag (o_rew q) a d =? ag (o_rew p) a d) ds) ac
   then [] else ["rotation_rewards"%string]) ++
  (if Bool.eqb (zmem who (o_dels p) || zmem to (o_dels p)) (zmem to (o_dels q)) && negb (zmem who (o_dels q))
      && forallb (fun a => (a =? who) || (a =? to) || Bool.eqb (zmem a (o_dels p)) (zmem a (o_dels q))) ac
   then [] else ["rotation_delegator"%string]).
Definition unchanged_clauses (p q : obs) : list string :=
  (if same_pool p q then [] else ["rotation_pool"%string]) ++
  (if forallb (fun a => forallb (fun d => (ag (o_sbal q) a d =? ag (o_sbal p) a d) && (ag (o_rew q) a d =? ag (o_rew p) a d)) ds) ac
      && list_eqb Z.eqb (o_dels p) (o_dels q)
   then [] else ["rotation_state"%string]).

(* ---- genesis export + re-import: everything the property speaks about is carried across, and the id counter is not
   below a pending undelegation id (else the next Undelegate overwrites somebody's pending record) *)
Definition genesis_clauses (p q : obs) : list string :=
  (if same_pool p q then [] else ["genesis_pool"%string]) ++
  (if forallb (fun a => forallb (fun d => (ag (o_sbal q) a d =? ag (o_sbal p) a d) && (ag (o_rew q) a d =? ag (o_rew p) a d)
                                          && (ag (o_nbal q) a d =? ag (o_nbal p) a d)) ds) ac
      && forallb (fun d => (g (o_fee q) d =? g (o_fee p) d) && (g (o_treas q) d =? g (o_treas p) d)) ds
      && votes_eqb (o_votes p) (o_votes q) && (o_prev p =? o_prev q)
   then [] else ["genesis_state"%string]) ++
  (if forallb (fun e => let '(i, _, _, _) := e in i <=? o_last q) (o_undels q) then [] else ["genesis_counter"%string]) ++
  (if list_eqb Z.eqb (o_dels p) (o_dels q) then [] else ["genesis_delegators"%string]) ++
  (if forallb (fun a => match assoc a (o_comp p), assoc a (o_comp q) with
                        | Some x, Some y => comp_eqb x y | None, None => true
                        | Some (al, dl, _), None => negb al && match dl with [] => true | _ => false end
                        | None, Some _ => false end) ac
   then [] else ["genesis_compound"%string]).

(* the multistaking module account pays out only on claims (and loses the slashed part on a slash) *)
Definition ok_module (p q : obs) : bool := forallb (fun d => g (o_mod p) d <=? g (o_mod q) d) ds.

Definition step_clauses (p q : obs) (o : op) (res : Z) (aux : list Z) : list string :=
  (if ok_supply q then [] else ["supply_eq_book"%string]) ++
  (if ok_registry p && negb (ok_registry q) then ["registry_supply"%string] else []) ++
  if res =? 0 then
    match o with
    | OUndelegate who amts =>
        (if ok_pro_rata p q who amts then [] else ["pro_rata"%string]) ++
        (if ok_undel_record p q who amts then [] else ["undel_record"%string]) ++
        (if ok_still_delegator p q who then [] else ["delegator_dropped"%string]) ++
        (if ok_module p q then [] else ["module_outflow"%string])
    | OClaim who id => claim_clauses p q who id
    | OClaimMatured who => matured_clauses p q who
    | OSlash _ | OSlashProposal _ => []
    | ORotate who to _ => rotation_clauses p q who to
    | ORotateVal _ | OExternal _ => unchanged_clauses p q
    | OGenesis => genesis_clauses p q
    | OAllocate possible infl =>
        (if possible then alloc_clauses p q infl else []) ++ (if ok_module p q then [] else ["module_outflow"%string])
    | OBegin _ _ _ possible infl =>
        (if possible && (1 <? o_height q)
         then alloc_clauses p q infl ++ (if nth 2 aux 0 =? 1 then signing_clause p q (nth 0 aux 0) else [])
              ++ signing_record_clause p q aux infl else []) ++
        (if ok_module p q then [] else ["module_outflow"%string])
    | _ => if ok_module p q then [] else ["module_outflow"%string]
    end
  else if res =? 1 then
    match o with
    | OClaim who id => if claim_denied p who id then ["claim_denied"%string] else []
    | _ => []
    end
  else [].

Fixpoint walk (init p : obs) (n : Z) (l : list stepobs) : list string :=
  match l with
  | [] => []
  | (o, res, aux, ob) :: r =>
      let q := match ob with Some q => resolve init q | None => p end in
      map (fun s => (s ++ "@" ++ z_to_string n)%string) (step_clauses p q o res aux) ++ walk init q (n + 1) r
  end.
End Spec.

Definition case_clauses (cfgs : list cfg) (k : c10_case) : list string :=
  match k with C10 ci init steps =>
    match nth_error cfgs ci with
    | None => ["cfg"%string]
    | Some c => (if ok_supply c init then [] else ["supply_eq_book@init"%string]) ++
                (if ok_registry c init then [] else ["registry_supply@init"%string]) ++ walk c init init 0 steps
    end end.

Fixpoint violations_from (cfgs : list cfg) (n : nat) (cs : list c10_case) : list (nat * list string) :=
  match cs with [] => [] | k :: r =>
    match case_clauses cfgs k with [] => violations_from cfgs (S n) r | cl => (n, cl) :: violations_from cfgs (S n) r end end.
Definition c10_violations (cfgs : list cfg) (cs : list c10_case) : list (nat * list string) := violations_from cfgs 0 cs.
