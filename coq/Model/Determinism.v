(* C01 -- replicated execution is deterministic.  Model (definitions only).

   Every step function takes an explicit ENVIRONMENT: what a process can observe besides the
   genesis and the block contents.  [wall_clock e k] is the value returned by the k-th read of
   time.Now() (unix nanoseconds), [map_order e k l] the order in which the k-th `range` over a Go
   map with (sorted) key list [l] visits the keys.  A configuration [cfg] says which of the five
   environment-consulting sites of the Go code are live (it is computed from the translator's site
   table, Model/C01Check.v [site_cfg]); the model follows the code AS IT IS for any configuration:

     x/gov/keeper/poll.go        PollCreate   VotingEndTime := time.Now() + duration
     x/gov/keeper/msg_server.go  PollVote     rejects when VotingEndTime < time.Now()
     x/gov/abci.go               EndBlocker   processes polls with VotingEndTime <= time.Now()
     app/ante/ante.go            CustodyDecorator  period := time.Now().Unix() - status.Time
     x/custody/types/*.pb.go     Marshal      `for k := range m.Addresses` (Go map order)

   plus, as representatives of the environment-free part, a bank ledger (MsgSend) and a
   sequence/fee step executed for every transaction. *)
From Sekai Require Import Base.Prelude.

Record env : Type := mkEnv { wall_clock : nat -> Z; map_order : nat -> list nat -> list nat }.

Record cfg : Type := mkCfg {
  poll_create_wall : bool;
  poll_vote_wall : bool;
  poll_end_wall : bool;
  custody_wall : bool;
  custody_unsorted : bool }.

Definition poll_dirty (c : cfg) : bool := poll_create_wall c || poll_vote_wall c || poll_end_wall c.
Definition clean (c : cfg) : bool := negb (poll_dirty c || custody_wall c || custody_unsorted c).

Definition wall_free (c : cfg) : bool := negb (poll_dirty c || custody_wall c).

(* the tree before commit c7688a1 (all five sites live), the tree after it (only the custody
   map<> encodings consult the environment), and a tree with stable-marshalled custody records *)
Definition wall_cfg : cfg := mkCfg true true true true true.
Definition marshal_cfg : cfg := mkCfg false false false false true.
Definition fixed_cfg : cfg := mkCfg false false false false false.

(* ---------------------------------------------------------------- state *)
Record poll : Type := mkPoll { p_id : Z; p_end : Z; p_result : Z; p_votes : list (Z * Z) }.
(* p_result: 0 = still open, 1 = processed without quorum, 2 = processed with votes *)

Record st : Type := mkSt {
  ledger : list (Z * Z);               (* account -> balance (bank) *)
  seqs : list (Z * Z);                 (* account -> sequence (auth) *)
  next_poll : Z;
  polls : list poll;                   (* by id, ascending *)
  active : list (Z * Z);               (* (end time, id): the ActivePoll index, ascending *)
  whitelist : list (Z * list nat);     (* custody: owner -> STORED BYTES, i.e. the keys in encoded order *)
  limit_status : list (Z * Z)          (* custody: owner -> spent amount of the limits status record *)
}.

Definition nsec : Z := 1000000000.

(* ---------------------------------------------------------------- association lists *)
Fixpoint zget {A} (k : Z) (l : list (Z * A)) : option A :=
  match l with [] => None | (k', v) :: r => if k =? k' then Some v else zget k r end.
Fixpoint zset {A} (k : Z) (v : A) (l : list (Z * A)) : list (Z * A) :=
  match l with
  | [] => [(k, v)]
  | (k', v') :: r => if k =? k' then (k, v) :: r else if k <? k' then (k, v) :: (k', v') :: r else (k', v') :: zset k v r
  end.
Definition bal (s : st) (a : Z) : Z := match zget a (ledger s) with Some b => b | None => 0 end.

(* sorted insertion of a key (nat) without duplicates: the abstract key set of a Go map *)
Fixpoint ninsert (k : nat) (l : list nat) : list nat :=
  match l with
  | [] => [k]
  | x :: r => if Nat.eqb k x then l else if Nat.ltb k x then k :: l else x :: ninsert k r
  end.
Definition nset_of (l : list nat) : list nat := fold_right ninsert [] l.

Fixpoint pinsert (e i : Z) (l : list (Z * Z)) : list (Z * Z) :=
  match l with
  | [] => [(e, i)]
  | (e', i') :: r => if (e <? e') || ((e =? e') && (i <? i')) then (e, i) :: l else (e', i') :: pinsert e i r
  end.

(* ---------------------------------------------------------------- reading the environment *)
(* [k] is the index of the read: position of the step in the history, never a function of env *)
Definition now (wall : bool) (e : env) (k : nat) (bt : Z) : Z := if wall then wall_clock e k else bt.

(* ---------------------------------------------------------------- transactions *)
Inductive tx : Type :=
| TSend (from to amt : Z)
| TPollCreate (creator dur : Z)
| TPollVote (voter id opt : Z)
| TWhitelistAdd (owner : Z) (keys : list nat)
| TLimitedSend (owner amt rate : Z).

Inductive tx_res : Type := ROk (data : Z) | RRejected.

Definition bump_seq (s : st) (a : Z) : st :=
  mkSt (ledger s) (zset a (match zget a (seqs s) with Some n => n + 1 | None => 1 end) (seqs s))
       (next_poll s) (polls s) (active s) (whitelist s) (limit_status s).

Definition signer (t : tx) : Z :=
  match t with TSend f _ _ => f | TPollCreate c _ => c | TPollVote v _ _ => v
             | TWhitelistAdd o _ => o | TLimitedSend o _ _ => o end.

Fixpoint poll_update (id : Z) (f : poll -> poll) (l : list poll) : list poll :=
  match l with [] => [] | p :: r => if p_id p =? id then f p :: r else p :: poll_update id f r end.
Fixpoint poll_find (id : Z) (l : list poll) : option poll :=
  match l with [] => None | p :: r => if p_id p =? id then Some p else poll_find id r end.

(* PollCreate: end := (time.Now() | ctx.BlockTime()) + duration; msg server rejects a negative duration *)
Definition poll_end_of (c : cfg) (e : env) (k : nat) (bt dur : Z) : Z := now (poll_create_wall c) e k bt + dur.
(* PollVote: rejected when VotingEndTime.Before(now) *)
Definition vote_accepts (c : cfg) (e : env) (k : nat) (bt pend : Z) : bool := negb (pend <? now (poll_vote_wall c) e k bt).
(* EndBlocker: polls whose end time key is <= now *)
Definition poll_due (c : cfg) (e : env) (k : nat) (bt pend : Z) : bool := pend <=? now (poll_end_wall c) e k bt.

(* CustodyDecorator limits path: rate := limit.Amount / limit ms (given), period := now.Unix() - 0,
   newAmount := status + amount - period * rate  (uint64 wrap-around), rejected when 0 *)
Definition limit_new (c : cfg) (e : env) (k : nat) (bt old amt rate : Z) : Z :=
  wrap64 (old + amt - (now (custody_wall c) e k bt / nsec) * rate).

(* custody whitelist write: decode the stored map (a key set), add, marshal by ranging the map *)
Definition wl_encode (c : cfg) (e : env) (k : nat) (keys : list nat) : list nat :=
  if custody_unsorted c then map_order e k keys else keys.

Definition deliver (c : cfg) (e : env) (k : nat) (bt : Z) (s0 : st) (t : tx) : st * tx_res :=
  let s := bump_seq s0 (signer t) in          (* ante handler: sequence increment survives a failed message *)
  match t with
  | TSend f to amt =>
      if (0 <? amt) && (amt <=? bal s f) && negb (f =? to) then
        (mkSt (zset to (bal s to + amt) (zset f (bal s f - amt) (ledger s))) (seqs s) (next_poll s) (polls s)
              (active s) (whitelist s) (limit_status s), ROk 0)
      else (s, RRejected)
  | TPollCreate cr dur =>
      if dur <? 0 then (s, RRejected) else
      let id := next_poll s in
      let pe := poll_end_of c e k bt dur in
      (mkSt (ledger s) (seqs s) (id + 1) (polls s ++ [mkPoll id pe 0 []]) (pinsert pe id (active s))
            (whitelist s) (limit_status s), ROk id)
  | TPollVote v id opt =>
      match poll_find id (polls s) with
      | None => (s, RRejected)
      | Some p =>
          if vote_accepts c e k bt (p_end p) then
            (mkSt (ledger s) (seqs s) (next_poll s)
                  (poll_update id (fun p => mkPoll (p_id p) (p_end p) (p_result p) (zset v opt (p_votes p))) (polls s))
                  (active s) (whitelist s) (limit_status s), ROk 0)
          else (s, RRejected)
      end
  | TWhitelistAdd o keys =>
      let cur := match zget o (whitelist s) with Some l => nset_of l | None => [] end in
      let new := fold_right ninsert cur keys in
      (mkSt (ledger s) (seqs s) (next_poll s) (polls s) (active s)
            (zset o (wl_encode c e k new) (whitelist s)) (limit_status s), ROk 0)
  | TLimitedSend o amt rate =>
      match zget o (limit_status s) with
      | None => (s, RRejected)                       (* no status record: the real decorator panics, tx fails *)
      | Some old =>
          let n := limit_new c e k bt old amt rate in
          if n =? 0 then (s, RRejected) else
          (mkSt (ledger s) (seqs s) (next_poll s) (polls s) (active s) (whitelist s) (zset o n (limit_status s)), ROk 0)
      end
  end.

(* gov EndBlocker, poll part: every active poll that is due is closed and leaves the index *)
Definition close_poll (p : poll) : poll := mkPoll (p_id p) (p_end p) (if p_votes p then 1 else 2) (p_votes p).
Definition end_block (c : cfg) (e : env) (k : nat) (bt : Z) (s : st) : st :=
  let due := filter (fun x => poll_due c e k bt (fst x)) (active s) in
  mkSt (ledger s) (seqs s) (next_poll s)
       (fold_left (fun ps x => poll_update (snd x) close_poll ps) due (polls s))
       (filter (fun x => negb (poll_due c e k bt (fst x))) (active s))
       (whitelist s) (limit_status s).

Record block : Type := mkBlock { b_time : Z; b_txs : list tx }.

(* per-block observation: results of the transactions and the state committed (its bytes are what
   the application hash is computed from) *)
Definition obs : Type := (list tx_res * st)%type.

Fixpoint deliver_all (c : cfg) (e : env) (k : nat) (bt : Z) (s : st) (ts : list tx) : st * list tx_res :=
  match ts with
  | [] => (s, [])
  | t :: r => let '(s1, x) := deliver c e k bt s t in
              let '(s2, xs) := deliver_all c e (S k) bt s1 r in (s2, x :: xs)
  end.

Definition run_block (c : cfg) (e : env) (k : nat) (s : st) (b : block) : st * obs :=
  let '(s1, rs) := deliver_all c e k (b_time b) s (b_txs b) in
  let s2 := end_block c e (k + List.length (b_txs b)) (b_time b) s1 in
  (s2, (rs, s2)).

(* [run]: the list of per-block observations of one replica living in environment [e] *)
Fixpoint run_from (c : cfg) (e : env) (k : nat) (s : st) (bs : list block) : list obs :=
  match bs with
  | [] => []
  | b :: r => let '(s1, o) := run_block c e k s b in o :: run_from c e (k + S (List.length (b_txs b))) s1 r
  end.
Definition run (c : cfg) (e : env) (g : st) (bs : list block) : list obs := run_from c e 0 g bs.

(* ---------------------------------------------------------------- environment-free histories *)
Definition tx_envfree (c : cfg) (t : tx) : bool :=
  match t with
  | TSend _ _ _ => true
  | TPollCreate _ _ | TPollVote _ _ _ => negb (poll_dirty c)
  | TWhitelistAdd _ _ => negb (custody_unsorted c)
  | TLimitedSend _ _ _ => negb (custody_wall c)
  end.
Definition history_envfree (c : cfg) (bs : list block) : bool := forallb (fun b => forallb (tx_envfree c) (b_txs b)) bs.
(* the end blocker reads the clock in every block; that is unobservable while no poll is open *)
Definition quiescent (c : cfg) (g : st) : bool := negb (poll_end_wall c) || match active g with [] => true | _ => false end.

(* ---------------------------------------------------------------- CalculatedPollVotes.ProcessResult
   (x/gov/types/poll_vote.go) ranges twice over the Go map option -> count.  [tally_result] is the
   function of the visiting order [l]; P abstracts the float32 test count/total*100 > 50. *)
Definition highest_step (acc : Z * list Z) (x : Z * Z) : Z * list Z :=
  let '(hi, lst) := acc in
  let '(hi1, lst1) := if hi <? snd x then (snd x, [fst x]) else (hi, lst) in
  if snd x =? hi1 then (hi1, lst1 ++ [fst x]) else (hi1, lst1).
Definition highest_list (l : list (Z * Z)) : list Z := snd (fold_left highest_step l (0, [])).
(* 1 passed, 2 rejected, 3 unknown (the veto test precedes and does not range the map) *)
Definition tally_result (P : Z -> bool) (rest_rejects : bool) (l : list (Z * Z)) : Z :=
  if existsb (fun x => P (snd x)) l then 1
  else if Nat.leb 2 (List.length (highest_list l)) then 2
  else if rest_rejects then 2 else 3.
