(* Auth.v -- decision logic of transaction authentication in KiraCore/sekai, modelled from
     app/ante/sigverify.go   SetPubKeyDecorator, SigVerificationDecorator, VerifyEthereumSignature
     app/ante/ante.go        NewAnteHandler (order of the authentication-relevant decorators)
     x/tokens/types/msg_eth_tx.go  ValidateBasic / validateTx / GetSigners
     cosmos-sdk v0.47.6      tx.ValidateBasic, Tx.GetSigners, SigGasConsumeDecorator,
                             IncrementSequenceDecorator
   Definitions only.  Cryptography is four Section variables about which nothing is assumed.

   The ante chain is projected onto the decorators that decide authentication; the others
   (custody, fee range, fee deduction, poor network, token filters, execution fee) can only
   reject, and are kept passing by the harness.

   [variant] selects between the code as it is and the repaired code:
     v_check_sender  the MsgEthereumTx branch compares the sender recovered from the raw
                     Ethereum transaction with the signer         (as is: false)
     v_continue      a successful Ethereum verification of one signer continues with the
                     remaining signers instead of leaving the loop (as is: false)          *)
From Sekai Require Import Base.Prelude.

Definition addr := Z.
Definition sigv := Z.
(* Multi: a LegacyAminoPubKey (k-of-n multisig over secp256k1 keys) *)
Inductive pkey := Secp (k : Z) | Ed (k : Z) | Multi (k : Z).
(* sign mode of a SingleSignatureData (MOther: any mode the handler does not know), or a
   MultiSignatureData whose member signatures all use DIRECT / LEGACY_AMINO_JSON *)
Inductive mode := MDirect | MAmino | MOther | MMultiDirect | MMultiAmino.
Definition is_multi (m : mode) : bool := match m with MMultiDirect | MMultiAmino => true | _ => false end.

Record account := mkAcc { a_pub : option pkey; a_seq : Z; a_num : Z }.
Definition state := list (addr * account).

Fixpoint get_acc (s : state) (a : addr) : option account :=
  match s with [] => None | (b, x) :: r => if b =? a then Some x else get_acc r a end.
Fixpoint set_acc (s : state) (a : addr) (x : account) : state :=
  match s with [] => [] | (b, y) :: r => if b =? a then (b, x) :: r else (b, y) :: set_acc r a x end.

(* raw Ethereum transaction carried by MsgEthereumTx.Data: identity of the bytes, whether RLP
   decodes, and the nonce / chain id fields read from it *)
Record rawtx := mkRaw { r_id : Z; r_ok : bool; r_nonce : Z; r_chain : Z }.
Inductive msg :=
| MPlain (id : Z) (signers : list addr)
| MEth (id : Z) (sender : addr) (raw : rawtx).
Definition msg_signers (m : msg) : list addr :=
  match m with MPlain _ l => l | MEth _ s _ => [s] end.
Definition is_eth_msg (m : msg) : bool := match m with MEth _ _ _ => true | _ => false end.

(* one signer_info + signature *)
Record slot := mkSlot { s_att : option pkey; s_mode : mode; s_sig : sigv; s_seq : Z }.
(* t_id identifies the signed content (body bytes and auth-info bytes) *)
Record tx := mkTx { t_id : Z; t_msgs : list msg; t_slots : list slot; t_payer : option addr }.
Record ctxt := mkCtx { c_chain : Z; c_genesis : bool }.

Fixpoint mem_addr (a : addr) (l : list addr) : bool :=
  match l with [] => false | b :: r => (b =? a) || mem_addr a r end.
(* order-preserving de-duplication (sdk Tx.GetSigners) *)
Fixpoint dedup_acc (seen : list addr) (l : list addr) : list addr :=
  match l with
  | [] => []
  | a :: r => if mem_addr a seen then dedup_acc seen r else a :: dedup_acc (a :: seen) r
  end.
Definition msgs_signers (t : tx) : list addr := dedup_acc [] (flat_map msg_signers (t_msgs t)).
Definition signers (t : tx) : list addr :=
  let ms := msgs_signers t in
  match t_payer t with
  | Some p => if mem_addr p ms then ms else ms ++ [p]
  | None => ms
  end.

(* what is signed *)
Inductive signdoc := SignDoc (m : mode) (chain accnum seq txid : Z).
Inductive digest := DEip (msgid seq : Z) | DRaw (d : signdoc).

(* v_eip_single / v_raw_single: the "exactly one message" rule of the Ethereum path, per branch
   (EIP-712 branch / raw MsgEthereumTx branch).  The digest resp. the raw transaction covers the
   FIRST message only, so each rule is an obligation of its branch. *)
Record variant := mkVariant { v_check_sender : bool; v_continue : bool; v_eip_single : bool; v_raw_single : bool }.
Definition as_is : variant := mkVariant false false true true.      (* the tree before commit 313a134 *)
Definition repaired : variant := mkVariant true true true true.     (* the tree as it is *)
Definition is_nil {A} (l : list A) : bool := match l with [] => true | _ => false end.

Definition eth_chain_id : Z := 8789.

Section Crypto.
(* authsigning.VerifySignature on the sign bytes of [signdoc] *)
Variable verify : pkey -> signdoc -> sigv -> bool.
(* crypto.SigToPub after V -= 27, then PubkeyToAddress; None on any error (incl. length <= 64) *)
Variable recover : digest -> sigv -> option addr.
(* PubKey.Address() *)
Variable addr_of_pk : pkey -> addr.
(* sender recovered from a raw Ethereum transaction (EIP-155 signer of its own chain id) *)
Variable eth_sender : Z -> option addr.

(* ---- ValidateBasicDecorator: tx.ValidateBasic *)
Definition msg_validate (m : msg) : outcome unit :=
  match m with
  | MPlain _ _ => Ok tt
  | MEth _ _ raw =>
      if negb (r_ok raw) then Panic "nil transaction"      (* AsTransaction ignores the RLP error *)
      else match eth_sender (r_id raw) with
           | None => Err "invalid raw transaction"
           | Some _ => Ok tt                                (* validateTx compares the sender with itself *)
           end
  end.
Fixpoint msgs_validate (l : list msg) : outcome unit :=
  match l with [] => Ok tt | m :: r => do _ <- msg_validate m; msgs_validate r end.
Definition validate_basic (t : tx) : outcome unit :=
  match t_msgs t with
  | [] => Err "no messages"
  | _ =>
    do _ <- msgs_validate (t_msgs t);
    match t_slots t with
    | [] => Err "no signatures"
    | _ => if Nat.eqb (List.length (t_slots t)) (List.length (signers t)) then Ok tt else Err "wrong number of signers"
    end
  end.

(* ---- SetPubKeyDecorator (the address check is commented out in the source) *)
Definition with_pub (x : account) (k : pkey) : account := mkAcc (Some k) (a_seq x) (a_num x).
Fixpoint set_pubkeys (s : state) (sg : list addr) (sl : list slot) {struct sl} : outcome state :=
  match sl, sg with
  | [], _ => Ok s
  | x :: sl', a :: sg' =>
      match s_att x with
      | None => set_pubkeys s sg' sl'
      | Some k =>
          match get_acc s a with
          | None => Err "unknown account"
          | Some acc =>
              match a_pub acc with
              | Some _ => set_pubkeys s sg' sl'
              | None => set_pubkeys (set_acc s a (with_pub acc k)) sg' sl'
              end
          end
      end
  | _ :: _, [] => Panic "index out of range"
  end.

(* ---- SigGasConsumeDecorator with DefaultSigVerificationGasConsumer *)
Definition key_supported (k : pkey) : bool := match k with Secp _ | Multi _ => true | Ed _ => false end.
Definition is_multi_key (k : pkey) : bool := match k with Multi _ => true | _ => false end.
Fixpoint sig_gas (s : state) (sg : list addr) (sl : list slot) {struct sl} : outcome unit :=
  match sl, sg with
  | [], _ => Ok tt
  | x :: sl', a :: sg' =>
      match get_acc s a with
      | None => Err "unknown account"
      | Some acc =>
          match a_pub acc with
          | None => Err "pubkey not set"
          | Some k => if negb (key_supported k) then Err "unsupported key type"
                      else if is_multi_key k && negb (is_multi (s_mode x)) then Err "expected MultiSignatureData"
                      else sig_gas s sg' sl'
          end
      end
  | _ :: _, [] => Panic "index out of range"
  end.

(* ---- SigVerificationDecorator *)
Definition acc_number (c : ctxt) (acc : account) : Z := if c_genesis c then 0 else a_num acc.
Definition doc_of (c : ctxt) (t : tx) (x : slot) (acc : account) : signdoc :=
  SignDoc (s_mode x) (c_chain c) (acc_number c acc) (a_seq acc) (t_id t).

(* handler.GetSignBytes: unknown mode is an error; the amino JSON of MsgEthereumTx panics *)
Definition sign_bytes_outcome (m : mode) (t : tx) : outcome unit :=
  match m with
  | MDirect => Ok tt
  | MAmino | MMultiAmino => if existsb is_eth_msg (t_msgs t) then Panic "MsgEthereumTx.GetSignBytes" else Ok tt
  | MMultiDirect => Ok tt
  | MOther => Err "unsupported sign mode"
  end.

Inductive eth_pre := EDone (r : outcome unit) | EDigest (d : digest).
Definition eth_prepare (v : variant) (t : tx) (a : addr) (acc : account) (x : slot) (doc : signdoc) : eth_pre :=
  match s_mode x with
  | MDirect =>
      match t_msgs t with
      | [] => EDone (Err "no message")
      | MEth _ _ raw :: rest =>
          if v_raw_single v && negb (is_nil rest) then EDone (Err "only one message")
          else if negb (r_ok raw) then EDone (Panic "nil transaction")
          else if negb (a_seq acc =? r_nonce raw) then EDone (Err "ethereum sequence mismatch")
          else if negb (r_chain raw =? eth_chain_id) then EDone (Err "invalid ethereum chain id")
          else match eth_sender (r_id raw) with
               | None => EDone (Err "invalid raw transaction")
               | Some snd =>
                   if v_check_sender v && negb (snd =? a) then EDone (Err "sender is not the signer")
                   else EDone (Ok tt)
               end
      | MPlain id _ :: rest =>
          if v_eip_single v && negb (is_nil rest) then EDone (Err "only one message")
          else EDigest (DEip id (a_seq acc))           (* the digest covers the first message only *)
      end
  | _ => EDigest (DRaw doc)
  end.

Definition eth_verify (v : variant) (t : tx) (a : addr) (acc : account) (x : slot) (doc : signdoc) : outcome unit :=
  if is_multi (s_mode x) then Err "unexpected SignatureData" else
  do _ <- sign_bytes_outcome (s_mode x) t;
  match eth_prepare v t a acc x doc with
  | EDone r => r
  | EDigest d =>
      match recover d (s_sig x) with
      | None => Err "no ethereum signature"
      | Some ra =>
          match signers t with
          | [a0] => if ra =? a0 then Ok tt else Err "recovered address is not the signer"
          | _ => Err "only one signer"
          end
      end
  end.

Fixpoint sig_verify_loop (v : variant) (c : ctxt) (s : state) (t : tx) (sg : list addr) (sl : list slot) {struct sl} : outcome unit :=
  match sl, sg with
  | [], _ => Ok tt
  | x :: sl', a :: sg' =>
      match get_acc s a with
      | None => Err "unknown account"
      | Some acc =>
          match a_pub acc with
          | None => Err "pubkey not set"
          | Some k =>
              if negb (s_seq x =? a_seq acc) then Err "wrong sequence"
              else
                let doc := doc_of c t x acc in
                if negb (addr_of_pk k =? a) then
                  match eth_verify v t a acc x doc with
                  | Ok _ => if v_continue v then sig_verify_loop v c s t sg' sl' else Ok tt
                  | Err e => Err e
                  | Panic p => Panic p
                  end
                else if is_multi (s_mode x) && negb (is_multi_key k) then Err "expected multisig.PubKey"
                else
                  do _ <- sign_bytes_outcome (s_mode x) t;
                  if verify k doc (s_sig x) then sig_verify_loop v c s t sg' sl'
                  else Err "signature verification failed"
          end
      end
  | _ :: _, [] => Panic "index out of range"
  end.
Definition sig_verify (v : variant) (c : ctxt) (s : state) (t : tx) : outcome unit :=
  if Nat.eqb (List.length (t_slots t)) (List.length (signers t)) then sig_verify_loop v c s t (signers t) (t_slots t)
  else Err "invalid number of signers".

(* ---- IncrementSequenceDecorator (uint64 arithmetic) *)
Definition bump (x : account) : account := mkAcc (a_pub x) (wrap64 (a_seq x + 1)) (a_num x).
Fixpoint increment_seqs (s : state) (sg : list addr) : outcome state :=
  match sg with
  | [] => Ok s
  | a :: r =>
      match get_acc s a with
      | None => Panic "nil account"
      | Some acc => increment_seqs (set_acc s a (bump acc)) r
      end
  end.

(* ---- the chain, in the order of NewAnteHandler *)
Definition ante (v : variant) (c : ctxt) (s : state) (t : tx) : outcome state :=
  do _ <- validate_basic t;
  do s1 <- set_pubkeys s (signers t) (t_slots t);
  do _ <- sig_gas s1 (signers t) (t_slots t);
  do _ <- sig_verify v c s1 t;
  increment_seqs s1 (signers t).

(* ---- histories: transactions and account creation (an address that receives funds) *)
Inductive op := OpTx (t : tx) | OpNew (a : addr) (num : Z).
Definition step (v : variant) (c : ctxt) (s : state) (o : op) : state :=
  match o with
  | OpTx t => match ante v c s t with Ok s' => s' | _ => s end     (* a rejected tx changes nothing *)
  | OpNew a num => match get_acc s a with Some _ => s | None => s ++ [(a, mkAcc None 0 num)] end
  end.
Definition run (v : variant) (c : ctxt) (s : state) (ops : list op) : state := fold_left (step v c) ops s.

End Crypto.

(* ------------------------------------------------------------------------------------------
   Specification-side definitions (used by the theorems; not by [ante]) *)
Section Spec.
Variable verify : pkey -> signdoc -> sigv -> bool.
Variable recover : digest -> sigv -> option addr.
Variable addr_of_pk : pkey -> addr.
Variable eth_sender : Z -> option addr.

(* the digest an Ethereum signature of this slot has to be over *)
Definition eth_digest_of (t : tx) (x : slot) (acc : account) (doc : signdoc) : option digest :=
  match s_mode x with
  | MDirect => match t_msgs t with [MPlain id _] => Some (DEip id (a_seq acc)) | _ => None end
  | _ => Some (DRaw doc)
  end.

(* (ii) an Ethereum signature over the EIP-712 digest of (the single message, the current
   sequence, chain id 8789) recovering to the signer, who is the only signer *)
Definition EthSigned (c : ctxt) (t : tx) (a : addr) (x : slot) (acc : account) : Prop :=
  signers t = [a] /\ exists d, eth_digest_of t x acc (doc_of c t x acc) = Some d /\ recover d (s_sig x) = Some a.
(* (iii) a raw Ethereum transaction whose recovered sender is the signer, nonce = sequence,
   chain id 8789 *)
Definition EthRawSigned (t : tx) (a : addr) (x : slot) (acc : account) : Prop :=
  exists id snd raw, t_msgs t = [MEth id snd raw] /\ s_mode x = MDirect /\ r_ok raw = true /\
    eth_sender (r_id raw) = Some a /\ r_nonce raw = a_seq acc /\ r_chain raw = eth_chain_id.
(* (i) a signature verifying under a key whose address is the signer, over the sign document of
   this transaction for the signer's current sequence *)
Definition KeySigned (c : ctxt) (t : tx) (a : addr) (x : slot) (acc : account) : Prop :=
  exists k, addr_of_pk k = a /\ verify k (doc_of c t x acc) (s_sig x) = true.

Definition Authorised (c : ctxt) (s : state) (t : tx) (a : addr) (x : slot) : Prop :=
  exists acc, get_acc s a = Some acc /\ s_seq x = a_seq acc /\
    (KeySigned c t a x acc \/ EthSigned c t a x acc \/ EthRawSigned t a x acc).
Definition EthAuthorised (c : ctxt) (s : state) (t : tx) (a : addr) (x : slot) : Prop :=
  exists acc, get_acc s a = Some acc /\ s_seq x = a_seq acc /\
    (EthSigned c t a x acc \/ EthRawSigned t a x acc).

Definition no_eth_raw_msg (t : tx) : bool := negb (existsb is_eth_msg (t_msgs t)).
(* the guard under which authentication is sound: sender check + continue (or no raw Ethereum message),
   and both single-message rules (or a single-message transaction) *)
Definition single_msg (t : tx) : bool := match t_msgs t with [_] => true | _ => false end.
Definition sound_for (v : variant) (t : tx) : bool :=
  ((v_check_sender v && v_continue v) || no_eth_raw_msg t) && ((v_eip_single v && v_raw_single v) || single_msg t).

(* room for n more increments of every sequence number without uint64 wrap-around *)
Definition seq_room (s : state) (n : Z) : Prop :=
  Forall (fun e => 0 <= a_seq (snd e) /\ a_seq (snd e) + n < two64) s.
End Spec.
