(* C18 -- x/spending: pools, registration, claims, proposals (update / distribution / withdraw),
   dynamic-rate end blocker.  Definitions only; written from
   x/spending/keeper/{spending_pool,msg_server,keeper,abci}.go and x/spending/proposal_handler.go.

   Identifiers (pool names, accounts, denoms, roles) are small integers chosen by the harness.
   Coins are functions denom -> amount (a missing denom is 0, as sdk.Coins.AmountOf); literal coin
   lists (message fields, observations) are association lists.  The spending module account is
   account MODULE.  Every Go panic is a [Panic], every error return an [Err]. *)
From Sekai Require Import Base.Prelude Base.Dec.

Definition MODULE : Z := -1.

(* ---------------------------------------------------------------- coins *)
Definition fcoins := Z -> Z.
Definition lcoins := list (Z * Z).
Definition czero : fcoins := fun _ => 0.
Definition cadd (a b : fcoins) : fcoins := fun d => a d + b d.
Definition csub (a b : fcoins) : fcoins := fun d => a d - b d.
Definition csingle (d x : Z) : fcoins := fun d' => if d' =? d then x else 0.
Fixpoint cof (l : lcoins) : fcoins :=
  match l with [] => czero | (d, x) :: r => cadd (csingle d x) (cof r) end.
Definition cdenoms (l : lcoins) : list Z := map fst l.
(* a >= b on the listed denoms *)
Definition cge_on (ds : list Z) (a b : fcoins) : bool := forallb (fun d => b d <=? a d) ds.
(* sdk.Coins.IsValid, as far as amounts go: every listed amount is positive (the bank rejects others) *)
Definition coins_valid (l : lcoins) : bool := forallb (fun e => 0 <? snd e) l.

(* ---------------------------------------------------------------- association lists *)
Fixpoint zget {A} (k : Z) (l : list (Z * A)) : option A :=
  match l with [] => None | (k', v) :: r => if k' =? k then Some v else zget k r end.
Fixpoint zset {A} (k : Z) (v : A) (l : list (Z * A)) : list (Z * A) :=
  match l with [] => [(k, v)] | (k', v') :: r => if k' =? k then (k, v) :: r else (k', v') :: zset k v r end.
(* KV-store delete: the key is gone afterwards *)
Fixpoint zdel {A} (k : Z) (l : list (Z * A)) : list (Z * A) :=
  match l with [] => [] | (k', v') :: r => if k' =? k then zdel k r else (k', v') :: zdel k r end.
Definition zhas {A} (k : Z) (l : list (Z * A)) : bool := match zget k l with Some _ => true | None => false end.
(* Go map built by a loop: the last entry for a key wins *)
Definition zget_last {A} (k : Z) (l : list (Z * A)) : option A := zget k (rev l).

Definition pkey := (Z * Z)%type.
Definition pkey_eqb (a b : pkey) : bool := (fst a =? fst b) && (snd a =? snd b).
Fixpoint pget {A} (k : pkey) (l : list (pkey * A)) : option A :=
  match l with [] => None | (k', v) :: r => if pkey_eqb k' k then Some v else pget k r end.
Fixpoint pset {A} (k : pkey) (v : A) (l : list (pkey * A)) : list (pkey * A) :=
  match l with [] => [(k, v)] | (k', v') :: r => if pkey_eqb k' k then (k, v) :: r else (k', v') :: pset k v r end.

Fixpoint pdel {A} (k : pkey) (l : list (pkey * A)) : list (pkey * A) :=
  match l with [] => [] | (k', v') :: r => if pkey_eqb k' k then pdel k r else (k', v') :: pdel k r end.

(* ---------------------------------------------------------------- bank *)
Definition bank := Z -> fcoins.
(* x/recovery RotateRecoveryAddress: every coin of the old address moves to the new one *)
Definition bank_rotate (b : bank) (a a' : Z) : bank :=
  fun x => if x =? a then czero else if x =? a' then cadd (b a') (b a) else b x.
Definition bank_send (b : bank) (from to : Z) (amt : fcoins) : bank :=
  fun a => if a =? from then (if a =? to then b a else csub (b a) amt)
           else if a =? to then cadd (b a) amt else b a.

(* ---------------------------------------------------------------- pools *)
Record terms := mkTerms {
  t_start : Z; t_end : Z; t_expiry : Z;
  t_rates : list (Z * Z);        (* denom, sdk.Dec scaled by 10^18, in message order *)
  t_broles : list (Z * Z);       (* beneficiary roles: role, weight *)
  t_baccts : list (Z * Z);       (* beneficiary accounts: account, weight *)
  t_dyn : bool; t_dynp : Z }.
Record pool := mkPool { p_terms : terms; p_bal : fcoins; p_lastcalc : Z }.

Record sstate := mkS {
  s_pools : list (Z * pool);
  s_claims : list (pkey * Z);    (* (pool, account) -> LastClaim *)
  s_bank : bank }.

(* x/recovery RotateRecoveryAddress, spending part: for every pool the claim record of the old address
   is removed and written under the new address with the SAME LastClaim *)
Definition claims_rotate (a a' : Z) (cl : list (pkey * Z)) : list (pkey * Z) :=
  map (fun e => if snd (fst e) =? a then ((fst (fst e), a'), snd e) else e)
      (filter (fun e => negb ((snd (fst e) =? a') && match pget (fst (fst e), a) cl with Some _ => true | None => false end)) cl).
(* the gov actor (roles) moves to the new address; [order] = all addresses in store (byte) order *)
Definition actors_rotate (order : list Z) (a a' : Z) (acts : list (Z * list Z)) : list (Z * list Z) :=
  match zget a acts with
  | None => acts
  | Some r =>
      let acts' := (a', r) :: filter (fun e => negb ((fst e =? a) || (fst e =? a'))) acts in
      flat_map (fun id => match zget id acts' with Some x => [(id, x)] | None => [] end) order
  end.

Section Cfg.
(* which variant of keeper.EndBlocker the tree has (decided by a probe in the harness): [true] = the
   rate update is skipped when period*total weight is not positive (commit 2d6ac44), [false] = the
   division / negative DecCoin panics *)
Variable dynguard : bool.
(* [payout_safe] (probe; commit c12fc9f): a claim / withdraw proposal whose amount is negative or exceeds
   the pool's recorded balance returns ErrNotEnoughPoolBalance instead of panicking in NewCoin / Coins.Sub.
   [quorum_checked] (probe; commit 3610aab): ValidateBasic of the create message / update proposal
   refuses a vote quorum outside [0,1]. *)
Variable payout_safe : bool.
Variable quorum_checked : bool.
(* network actors: account -> roles in the order stored in the actor; accounts sorted *)
Variable actors : list (Z * list Z).
(* the denominations that occur (sorted): used to enumerate a pool's balance coins *)
Variable U : list Z.

Definition roles_of (a : Z) : list Z := match zget a actors with Some r => r | None => [] end.
Definition actors_with_role (r : Z) : list Z :=
  map fst (filter (fun e => existsb (Z.eqb r) (snd e)) actors).

(* GetBeneficiaryWeight *)
Definition weight_of (T : terms) (a : Z) : Z :=
  match zget a (t_baccts T) with
  | Some w => w
  | None =>
      match find (fun r => zhas r (t_broles T)) (roles_of a) with
      | Some r => match zget_last r (t_broles T) with Some w => w | None => 0 end
      | None => 0
      end
  end.
(* IsAllowedBeneficiary *)
Definition is_allowed_ben (T : terms) (a : Z) : bool :=
  zhas a (t_baccts T) || existsb (fun r => zhas r (t_broles T)) (roles_of a).

(* rate.Amount.Mul(sdk.NewDec(duration)).Mul(weight).RoundInt() *)
Definition pay_amount (rate dur w : Z) : outcome Z :=
  do x <- dmul rate (dec_of_int dur); do y <- dmul x w; Ok (round_int y).

(* rewards = rewards.Add(sdk.NewCoin(denom, amount)) : NewCoin panics on a negative amount *)
Fixpoint rewards (rates : list (Z * Z)) (dur w : Z) (acc : fcoins) : outcome fcoins :=
  match rates with
  | [] => Ok acc
  | (d, r) :: rest =>
      do a <- pay_amount r dur w;
      if a <? 0 then Panic "negative coin amount" else rewards rest dur w (cadd acc (csingle d a))
  end.

(* the window of ClaimSpendingPool: start and end of the claimed interval, None when empty *)
Definition claim_end (T : terms) (now : Z) : Z :=
  if negb (t_end T =? 0) && (t_end T <? now) then t_end T else now.
Definition claim_window (P : pool) (last now : Z) : option (Z * Z) :=
  let T := p_terms P in
  let cs := Z.max (t_start T) last in
  let ce := claim_end T now in
  if ce <=? cs then None
  else Some (if t_dyn T && (cs <? p_lastcalc P) then p_lastcalc P else cs, ce).
Definition claim_duration (P : pool) (last now : Z) : option Z :=
  match claim_window P last now with
  | None => None
  | Some (cs, ce) => Some (Z.min (ce - cs) (t_expiry (p_terms P)))
  end.

Definition claim_pay (P : pool) (a last now : Z) : outcome fcoins :=
  match claim_duration P last now with
  | None => Err "no more rewards to claim"
  | Some dur => rewards (t_rates (p_terms P)) dur (weight_of (p_terms P) a) czero
  end.

(* keeper.ClaimSpendingPool *)
Definition sp_claim (now p a : Z) (s : sstate) : outcome sstate :=
  match zget p (s_pools s) with
  | None => Err "pool does not exist"
  | Some P =>
      if weight_of (p_terms P) a =? 0 then Err "not pool beneficiary" else
      match pget (p, a) (s_claims s) with
      | None => Err "not registered for rewards"
      | Some last =>
          do rw <- claim_pay P a last now;
          let ds := map fst (t_rates (p_terms P)) in
          if negb (cge_on ds (p_bal P) rw) then Panic "negative coin amount (pool book)" else
          if negb (cge_on ds (s_bank s MODULE) rw) then Err "insufficient module funds" else
          Ok (mkS (zset p (mkPool (p_terms P) (csub (p_bal P) rw) (p_lastcalc P)) (s_pools s))
                  (pset (p, a) now (s_claims s))
                  (bank_send (s_bank s) MODULE a rw))
      end
  end.

(* msg server: CreateSpendingPool (after ValidateBasic: no nil/zero weight) *)
Definition weights_ok (T : terms) : bool :=
  forallb (fun e => negb (snd e =? 0)) (t_baccts T) && forallb (fun e => negb (snd e =? 0)) (t_broles T).
Definition sp_create (now p : Z) (T : terms) (s : sstate) : outcome sstate :=
  if negb (weights_ok T) then Err "empty weight" else
  if zhas p (s_pools s) then Err "already registered pool name" else
  Ok (mkS (s_pools s ++ [(p, mkPool T czero now)]) (s_claims s) (s_bank s)).

(* msg server: DepositSpendingPool *)
Definition sp_deposit (a p : Z) (amt : lcoins) (s : sstate) : outcome sstate :=
  if negb (coins_valid amt) then Err "invalid coins" else
  if negb (cge_on (cdenoms amt) (s_bank s a) (cof amt)) then Err "insufficient funds" else
  match zget p (s_pools s) with
  | None => Err "pool does not exist"
  | Some P =>
      Ok (mkS (zset p (mkPool (p_terms P) (cadd (p_bal P) (cof amt)) (p_lastcalc P)) (s_pools s))
              (s_claims s) (bank_send (s_bank s) a MODULE (cof amt)))
  end.

(* msg server: RegisterSpendingPoolBeneficiary *)
Definition sp_register (now a p : Z) (s : sstate) : outcome sstate :=
  match zget p (s_pools s) with
  | None => Err "pool does not exist"
  | Some P =>
      if negb (is_allowed_ben (p_terms P) a) then Err "not allowed" else
      Ok (mkS (s_pools s) (pset (p, a) now (s_claims s)) (s_bank s))
  end.

(* UpdateSpendingPoolProposal.Apply: ClaimExpiry and LastDynamicRateCalcTime are not copied *)
Definition sp_update (p : Z) (T : terms) (s : sstate) : outcome sstate :=
  match zget p (s_pools s) with
  | None => Err "pool does not exist"
  | Some P =>
      let T' := mkTerms (t_start T) (t_end T) 0 (t_rates T) (t_broles T) (t_baccts T) (t_dyn T) (t_dynp T) in
      Ok (mkS (zset p (mkPool T' (p_bal P) 0) (s_pools s)) (s_claims s) (s_bank s))
  end.

(* SpendingPoolDistributionProposal.Apply *)
Fixpoint dedupe (seen l : list Z) : list Z :=
  match l with [] => [] | x :: r => if existsb (Z.eqb x) seen then dedupe seen r else x :: dedupe (x :: seen) r end.
Definition ben_list (T : terms) : list Z :=
  dedupe [] (map fst (t_baccts T) ++ flat_map (fun e => actors_with_role (fst e)) (t_broles T)).
Fixpoint claim_all (now p : Z) (l : list Z) (s : sstate) : outcome sstate :=
  match l with [] => Ok s | a :: r => do s' <- sp_claim now p a s; claim_all now p r s' end.
Definition sp_distribute (now p : Z) (s : sstate) : outcome sstate :=
  match zget p (s_pools s) with
  | None => Panic "nil pointer dereference"
  | Some P => claim_all now p (ben_list (p_terms P)) s
  end.

(* SpendingPoolWithdrawProposal.Apply *)
Fixpoint withdraw_loop (T : terms) (bens : list Z) (amt : lcoins) (bal : fcoins) (b : bank) : outcome (fcoins * bank) :=
  match bens with
  | [] => Ok (bal, b)
  | a :: r =>
      if negb (is_allowed_ben T a) then Err "not pool beneficiary" else
      if negb (coins_valid amt) then Err "invalid coins" else
      if negb (cge_on (cdenoms amt) (b MODULE) (cof amt)) then Err "insufficient module funds" else
      if negb (cge_on (cdenoms amt) bal (cof amt)) then Panic "negative coin amount (pool book)" else
      withdraw_loop T r amt (csub bal (cof amt)) (bank_send b MODULE a (cof amt))
  end.
Definition sp_withdraw (p : Z) (bens : list Z) (amt : lcoins) (s : sstate) : outcome sstate :=
  match zget p (s_pools s) with
  | None => Err "pool does not exist"
  | Some P =>
      do r <- withdraw_loop (p_terms P) bens amt (p_bal P) (s_bank s);
      Ok (mkS (zset p (mkPool (p_terms P) (fst r) (p_lastcalc P)) (s_pools s)) (s_claims s) (snd r))
  end.

(* keeper.EndBlocker: dynamic rates *)
Definition claimants (p : Z) (cl : list (pkey * Z)) : list Z :=
  map (fun e => snd (fst e)) (filter (fun e => fst (fst e) =? p) cl).
Definition total_weight (T : terms) (l : list Z) : Z := zsum (map (weight_of T) l).
Fixpoint dyn_rates (ds : list Z) (bal : fcoins) (den : Z) : outcome (list (Z * Z)) :=
  match ds with
  | [] => Ok []
  | d :: r =>
      if bal d <=? 0 then dyn_rates r bal den else
      do q <- dquo (dec_of_int (bal d)) den;
      if q <? 0 then Panic "negative decimal coin amount" else
      do rest <- dyn_rates r bal den;
      Ok (if q =? 0 then rest else (d, q) :: rest)
  end.
Definition endblock_pool (now p : Z) (P : pool) (cl : list (pkey * Z)) : outcome pool :=
  let T := p_terms P in
  if negb (t_dyn T) then Ok P else
  if now <? t_dynp T + p_lastcalc P then Ok P else
  let tw := total_weight T (claimants p cl) in
  if tw =? 0 then Ok P else
  do den <- dmul (dec_of_int (t_dynp T)) tw;
  if dynguard && (den <=? 0) then Ok P else
  do rates <- dyn_rates U (p_bal P) den;
  Ok (mkPool (mkTerms (t_start T) (t_end T) (t_expiry T) rates (t_broles T) (t_baccts T) (t_dyn T) (t_dynp T))
             (p_bal P) now).
Fixpoint endblock_pools (now : Z) (l : list (Z * pool)) (cl : list (pkey * Z)) : outcome (list (Z * pool)) :=
  match l with
  | [] => Ok []
  | (p, P) :: r => do P' <- endblock_pool now p P cl; do r' <- endblock_pools now r cl; Ok ((p, P') :: r')
  end.
Definition sp_endblock (now : Z) (s : sstate) : outcome sstate :=
  do ps <- endblock_pools now (s_pools s) (s_claims s); Ok (mkS ps (s_claims s) (s_bank s)).

(* ---------------------------------------------------------------- operations and histories *)
Inductive sp_op : Type :=
| OCreate (p : Z) (T : terms)
| ODeposit (a p : Z) (amt : lcoins)
| ORegister (a p : Z)
| OClaim (a p : Z)
| OUpdate (p : Z) (T : terms)            (* passed UpdateSpendingPoolProposal *)
| ODistribute (p : Z)                    (* passed SpendingPoolDistributionProposal *)
| OWithdraw (p : Z) (bens : list Z) (amt : lcoins)   (* passed SpendingPoolWithdrawProposal *)
| OEndBlock
| OBankSend (a : Z) (amt : lcoins)       (* plain bank transfer to the module account *)
| OBadQuorum (upd : bool) (p : Z) (T : terms)    (* create / update carrying a vote quorum outside [0,1] *)
| OModuleDeposit (p : Z) (amt : lcoins)          (* DepositSpendingPoolFromModule: what x/ubi does after minting *)
| ORotate (a a' : Z) (pre_ok : bool).            (* x/recovery MsgRotateRecoveryAddress a -> a'; [pre_ok] = the
     preconditions outside this model (recovery secret and proof, fee, account existence, rotation history)
     hold, as read from the real state by the harness.  The roles move too: see [actors_rotate], applied
     by the threaded runs below. *)

(* the payout failures that the repaired code reports as an error *)
Definition payout_panic (m : string) : bool :=
  String.eqb m "negative coin amount" || String.eqb m "negative coin amount (pool book)".
Definition soften {A} (r : outcome A) : outcome A :=
  match r with
  | Panic m => if payout_safe && payout_panic m then Err "pool balance does not cover the amount" else r
  | _ => r
  end.

Definition sp_apply (now : Z) (o : sp_op) (s : sstate) : outcome sstate :=
  match o with
  | OCreate p T => sp_create now p T s
  | ODeposit a p amt => sp_deposit a p amt s
  | ORegister a p => sp_register now a p s
  | OClaim a p => soften (sp_claim now p a s)
  | OUpdate p T => sp_update p T s
  | ODistribute p => soften (sp_distribute now p s)
  | OWithdraw p bens amt => soften (sp_withdraw p bens amt s)
  | OEndBlock => sp_endblock now s
  | OBankSend a amt =>
      if negb (coins_valid amt) then Err "invalid coins" else
      if negb (cge_on (cdenoms amt) (s_bank s a) (cof amt)) then Err "insufficient funds"
      else Ok (mkS (s_pools s) (s_claims s) (bank_send (s_bank s) a MODULE (cof amt)))
  | OModuleDeposit p amt =>
      if negb (coins_valid amt) then Err "invalid coins" else
      match zget p (s_pools s) with
      | None => Err "pool does not exist"
      | Some P => Ok (mkS (zset p (mkPool (p_terms P) (cadd (p_bal P) (cof amt)) (p_lastcalc P)) (s_pools s)) (s_claims s)
                          (fun x => if x =? MODULE then cadd (s_bank s x) (cof amt) else s_bank s x))
      end
  | ORotate a a' pre_ok =>
      if negb pre_ok || (a =? a') then Err "rotation refused" else
      Ok (mkS (s_pools s) (claims_rotate a a' (s_claims s)) (bank_rotate (s_bank s) a a'))
  | OBadQuorum upd p T =>
      if quorum_checked then Err "vote quorum should be between 0 and 1"
      else if upd then sp_update p T s else sp_create now p T s
  end.
(* a failed transaction / proposal / end block leaves no trace (cache context dropped) *)
Definition sp_step (s : sstate) (e : Z * sp_op) : sstate :=
  match sp_apply (fst e) (snd e) s with Ok s' => s' | _ => s end.
Definition sp_run (s : sstate) (h : list (Z * sp_op)) : sstate := fold_left sp_step h s.

Definition sum_books (s : sstate) (d : Z) : Z := zsum (map (fun e => p_bal (snd e) d) (s_pools s)).
End Cfg.

(* histories in which the roles follow rotated addresses: the actors are part of the state *)
Definition next_actors (order : list Z) (acts : list (Z * list Z)) (o : sp_op) : list (Z * list Z) :=
  match o with ORotate a a' _ => actors_rotate order a a' acts | _ => acts end.
Definition spw_step (dynguard payout_safe quorum_checked : bool) (order U : list Z)
           (w : list (Z * list Z) * sstate) (e : Z * sp_op) : list (Z * list Z) * sstate :=
  match sp_apply dynguard payout_safe quorum_checked (fst w) U (fst e) (snd e) (snd w) with
  | Ok s' => (next_actors order (fst w) (snd e), s')
  | _ => w
  end.
Definition spw_run dynguard payout_safe quorum_checked order U w h :=
  fold_left (spw_step dynguard payout_safe quorum_checked order U) h w.

