(* C11: observations of the real basket msg server / proposal handlers / hooks,
   (1) correspondence with the model (Model/Basket.v), (2) the decidable spec checker, written
   from the property text and applied to what the REAL code did (it never calls the model's
   step functions; it only reads the observed records). *)
From Sekai Require Import Base.Prelude Base.Dec Model.Basket.

(* what is observed after a successful operation: the stored basket record, the bank supply of
   the basket denomination, balances [account][denomination] (account 0 = basket module) *)
(* [p_sibs]: the stored records of the other baskets (ids 2, 3, ...) with the bank supply of their tokens *)
Record post := mkP { p_bk : basket; p_supply : Z; p_bals : list (list Z); p_sibs : list (basket * Z) }.
(* a history: initial observation, then (operation, status 0 ok / 1 rejected / 2 panic, observation) *)
Inductive c11_case : Type := C11Hist (init : post) (steps : list (op * Z * option post)).

(* ---------------------------------------------------------------- equality of observations *)
Definition token_eqb (a b : token) : bool :=
  (t_denom a =? t_denom b) && (t_weight a =? t_weight b) && (t_amount a =? t_amount b)
  && Bool.eqb (t_dep a) (t_dep b) && Bool.eqb (t_wd a) (t_wd b) && Bool.eqb (t_sw a) (t_sw b).
Fixpoint list_eqb {A} (e : A -> A -> bool) (l m : list A) : bool :=
  match l, m with [], [] => true | x :: l', y :: m' => e x y && list_eqb e l' m' | _, _ => false end.
Definition coin_eqb (a b : Z * Z) : bool := (fst a =? fst b) && (snd a =? snd b).
Definition basket_eqb (a b : basket) : bool :=
  (b_amount a =? b_amount b) && list_eqb token_eqb (b_tokens a) (b_tokens b)
  && list_eqb coin_eqb (b_surplus a) (b_surplus b)
  && (b_fee a =? b_fee b) && (b_slip a =? b_slip b) && (b_cap a =? b_cap b) && (b_period a =? b_period b)
  && (b_mmin a =? b_mmin b) && (b_mmax a =? b_mmax b) && (b_bmin a =? b_bmin b) && (b_bmax a =? b_bmax b)
  && (b_smin a =? b_smin b) && (b_smax a =? b_smax b)
  && Bool.eqb (b_md a) (b_md b) && Bool.eqb (b_bd a) (b_bd b) && Bool.eqb (b_sd a) (b_sd b).

Definition bal_of_lists (l : list (list Z)) : Z -> Z -> Z :=
  fun a d => if (a <? 0) || (d <? 0) then 0 else nth (Z.to_nat d) (nth (Z.to_nat a) l []) 0.
Definition bal_at (p : post) (a d : Z) : Z := bal_of_lists (p_bals p) a d.

Fixpoint row_matches (f : Z -> Z) (d : Z) (row : list Z) : bool :=
  match row with [] => true | x :: r => (f d =? x) && row_matches f (d + 1) r end.
Fixpoint bals_match (f : Z -> Z -> Z) (a : Z) (rows : list (list Z)) : bool :=
  match rows with [] => true | row :: r => row_matches (f a) 0 row && bals_match f (a + 1) r end.
Definition state_matches (s : state) (p : post) : bool :=
  basket_eqb (s_bk s) (p_bk p) && (s_supply s =? p_supply p) && bals_match (s_bal s) 0 (p_bals p)
  && list_eqb basket_eqb (s_sibs s) (map fst (p_sibs p)).

(* ---------------------------------------------------------------- model vs. real code *)
Fixpoint steps_match (v : variant) (s : state) (steps : list (op * Z * option post)) : bool :=
  match steps with
  | [] => true
  | (o, st, po) :: r =>
      match step v s o, po with
      | Ok s', Some p => (st =? 0) && state_matches s' p && steps_match v s' r
      | Err _, None => (st =? 1) && steps_match v s r
      | Panic _, None => (st =? 2) && steps_match v s r
      | _, _ => false
      end
  end.
Definition state_of_post (p : post) : state := init_state (p_bk p) (bal_of_lists (p_bals p)) (p_supply p) (map fst (p_sibs p)).
Definition case_matches (v : variant) (c : c11_case) : bool :=
  match c with C11Hist init steps => steps_match v (state_of_post init) steps end.

Fixpoint mismatches_from (v : variant) (n : nat) (cs : list c11_case) : list nat :=
  match cs with [] => [] | c :: r => if case_matches v c then mismatches_from v (S n) r else n :: mismatches_from v (S n) r end.
Definition c11_mismatches (v : variant) (cs : list c11_case) : list nat := mismatches_from v 0 cs.

(* debugging aid: index of the first step on which model and observation differ *)
Fixpoint first_bad (v : variant) (s : state) (n : nat) (steps : list (op * Z * option post)) : option (nat * Z) :=
  match steps with
  | [] => None
  | (o, st, po) :: r =>
      match step v s o, po with
      | Ok s', Some p => if (st =? 0) && state_matches s' p then first_bad v s' (S n) r else Some (n, 0)
      | Err _, None => if st =? 1 then first_bad v s (S n) r else Some (n, 1)
      | Panic _, None => if st =? 2 then first_bad v s (S n) r else Some (n, 2)
      | Ok _, None => Some (n, 10) | Err _, _ => Some (n, 11) | Panic _, _ => Some (n, 12)
      end
  end.

(* ================================================================ the property on observations *)
Definition two_prec : Z := 2 * PREC.

(* recorded reserve / weight of a denomination (sums over the record, no uniqueness assumed) *)
Definition rec_reserve (b : basket) (d : Z) : Z :=
  zsum (map (fun t => if t_denom t =? d then t_amount t else 0) (b_tokens b)).
Definition rec_surplus (b : basket) (d : Z) : Z :=
  zsum (map (fun c => if fst c =? d then snd c else 0) (b_surplus b)).
Definition weight_of (b : basket) (d : Z) : option dec :=
  match filter (fun t => t_denom t =? d) (b_tokens b) with t :: _ => Some (t_weight t) | [] => None end.
Definition flag_of (f : token -> bool) (b : basket) (d : Z) : bool :=
  forallb (fun t => if t_denom t =? d then f t else true) (b_tokens b)
  && existsb (fun t => t_denom t =? d) (b_tokens b).
(* reserves valued at the weights, scaled by 10^18 *)
Definition value_of (b : basket) : Z := zsum (map (fun t => t_weight t * t_amount t) (b_tokens b)).
(* "the supply never exceeds the reserves valued at the basket weights": the bank supply *)
Definition deficit (p : post) : Z := Z.max 0 (p_supply p * PREC - value_of (p_bk p)).
Definition max_weight (b : basket) : Z := fold_right Z.max 0 (map t_weight (b_tokens b)).
Definition denoms_of (p : post) : list Z :=
  match p_bals p with row :: _ => map Z.of_nat (seq 0 (List.length row)) | [] => [] end.

(* "for every basket the token supply equals the recorded amount, the basket module holds the
   recorded reserves and surplus": ALL baskets together -- per denomination the module account holds
   at least the sum over the baskets of recorded reserves + recorded surplus (it may hold more: an
   edit may drop a token whose reserve then stays unrecorded) *)
Definition all_baskets (p : post) : list basket := p_bk p :: map fst (p_sibs p).
Definition recorded_total (p : post) (d : Z) : Z :=
  zsum (map (fun b => rec_reserve b d + rec_surplus b d) (all_baskets p)).
Definition books (p : post) : bool :=
  (p_supply p =? b_amount (p_bk p))
  && forallb (fun bs => snd bs =? b_amount (fst bs)) (p_sibs p)
  && forallb (fun d => recorded_total p d <=? bal_at p MODULE d) (denoms_of p)
  && forallb (fun b => forallb (fun t => existsb (Z.eqb (t_denom t)) (denoms_of p)) (b_tokens b)
                       && forallb (fun c => existsb (Z.eqb (fst c)) (denoms_of p)) (b_surplus b)) (all_baskets p).

(* per operation: an operation may not break the books, nor widen an existing shortfall of the module
   account against the recorded totals (so that a defect in one basket does not silence the clause
   for the rest of the history) *)
Definition shortfall (p : post) (d : Z) : Z := Z.max 0 (recorded_total p d - bal_at p MODULE d).
Definition books_step (pre p : post) : bool :=
  (negb (books pre) || books p)
  && (negb (p_supply pre =? b_amount (p_bk pre)) || (p_supply p =? b_amount (p_bk p)))
  && forallb (fun d => shortfall p d <=? shortfall pre d) (denoms_of p).

(* no recorded figure is negative, in any basket: issued amount, every reserve, every surplus entry *)
Definition nonneg (p : post) : bool :=
  forallb (fun b => (0 <=? b_amount b) && forallb (fun t => 0 <=? t_amount t) (b_tokens b)
                    && forallb (fun c => 0 <=? snd c) (b_surplus b)) (all_baskets p)
  && (0 <=? p_supply p) && forallb (fun bs => 0 <=? snd bs) (p_sibs p).

(* token caps: weight_i * reserve_i <= cap * total (up to the 10^-18 rounding of Dec.Mul) *)
Definition caps_ok (b : basket) : bool :=
  forallb (fun t => t_weight t * t_amount t * PREC <=? value_of b * b_cap b + PREC) (b_tokens b).

(* the checker's OWN record of accepted actions (block time in nanoseconds, amount): everything
   inside the window of [period] seconds ending at [now], both ends included.  The stored history
   of the module is never read. *)
Definition in_period (log : history) (now period : Z) : Z :=
  zsum (map (fun e => if (now - period * 1000000000 <=? fst e) && (fst e <=? now) then snd e else 0) log).
Definition delta (pre p : post) (a d : Z) : Z := bal_at p a d - bal_at pre a d.

Definition cl (ok : bool) (name kind : string) : list string := if ok then [] else [(name ++ ":" ++ kind)%string].

Definition kind_of (o : op) : string :=
  match o with
  | OMint _ _ _ => "mint" | OBurn _ _ _ _ => "burn" | OSwap _ _ _ => "swap" | OEdit _ => "edit"
  | ODisable _ _ => "disable" | OSlashHook => "slash_hook" | ORaiseHook => "raise_hook"
  | OSlashW _ _ => "slash_weights" | OEndBlock _ => "end_block" | OUpsertHook _ => "upsert_hook"
  | OWithdraw _ _ _ => "withdraw_surplus" | OCreate _ => "create" | OGenesis => "genesis"
  end.

(* how much the backing deficit may grow in one operation: only rounding (Dec.Quo rounds half
   to even at 10^-18) and the value a slash took from the weights *)
Definition allowance (o : op) (pre p : post) : Z :=
  match o with
  | OSwap _ _ ps => Z.of_nat (List.length ps) * (max_weight (p_bk pre) / two_prec + 1)
  | OBurn _ _ _ _ => value_of (p_bk pre) / two_prec + Z.of_nat (List.length (b_tokens (p_bk pre))) + 1
  | OSlashHook | OSlashW _ _ => Z.max 0 (value_of (p_bk pre) - value_of (p_bk p))
  | _ => 0
  end.

(* [l_gen]: a genesis export/import happened earlier in the history (the stored action history then
   carries whole seconds only; limit violations after it are reported under their own name) *)
(* average disbalance of a record, from the property's mechanism (mean over the tokens of
   |average value - value_i| / average value), as an exact fraction scaled by 10^18 and rounded down;
   [None] when the reserves are worth nothing *)
Definition disbalance_spec (b : basket) : option Z :=
  let vs := map (fun t => t_weight t * t_amount t) (b_tokens b) in
  let n := Z.of_nat (List.length vs) in
  let T := zsum vs in
  if (n =? 0) || (T <=? 0) then None
  else Some (PREC * zsum (map (fun v => Z.abs (T - n * v)) vs) / (n * T)).
(* a LOWER bound of the slippage fee the swap must charge (10 units of 10^-18 tolerance for the
   Dec roundings of the implementation; nothing is demanded when the disbalance did not clearly grow) *)
Definition slippage_lower (pre post : basket) : Z :=
  match disbalance_spec pre, disbalance_spec post with
  | Some d0, Some d1 => let tol := 10 * (Z.of_nat (List.length (b_tokens pre)) + 2) in
                        if d1 - d0 <=? tol then 0 else Z.max (b_slip pre) (d1 - d0 - tol)
  | _, _ => 0
  end.

Record logs := mkL { l_m : history; l_b : history; l_s : history; l_gen : bool }.

Definition pair_value (b : basket) (pr : Z * Z * Z) : Z :=
  let '(din, xin, _) := pr in
  match weight_of b din with Some w => (xin * w) / PREC | None => 0 end.

Definition op_clauses (lg : logs) (o : op) (pre p : post) : list string :=
  let k := kind_of o in
  let limits := if l_gen lg then "limits_after_genesis"%string else "limits"%string in
  let b := p_bk pre in let b' := p_bk p in
  cl (books_step pre p) "books" k ++
  cl (negb (nonneg pre) || nonneg p) "nonneg" k ++
  cl (deficit p <=? deficit pre + allowance o pre p) "backed" k ++
  match o with
  | OMint now a dep =>
      let minted := b_amount b' - b_amount b in
      let dep_value := zsum (map (fun c => match weight_of b (fst c) with Some w => w * snd c | None => 0 end) dep) in
      cl ((minted * PREC <=? dep_value) && (delta pre p a BDENOM <=? minted) && (p_supply p - p_supply pre =? minted)
          && forallb (fun c => delta pre p a (fst c) =? - snd c) dep) "mint_value" k ++
      cl (negb (b_md b) && forallb (fun c => flag_of t_dep b (fst c)) dep) "disabled" k ++
      cl ((b_mmin b <=? minted) && (in_period (l_m lg) now (b_period b) + minted <=? b_mmax b)) limits k ++
      cl (caps_ok b') "caps" k
  | OBurn now a d x =>
      let S := p_supply pre in
      cl ((d =? BDENOM) && (delta pre p a BDENOM =? - x) && (p_supply p - S =? - x) && (0 <? x) && (x <=? S)
          && forallb (fun d' => (d' =? BDENOM) ||
                 (let r := rec_reserve b d' in
                  delta pre p a d' * S * two_prec <=? r * x * two_prec + r * S + two_prec * S)) (denoms_of pre))
         "burn_pro_rata" k ++
      (* rounding direction, whichever supply the portion is taken of: never more than the exact share
         of the supply LEFT after the burn (a fortiori of the supply before it), up to the 10^-18
         rounding of the portion -- no whole-unit slack *)
      cl (let S' := p_supply p in
          forallb (fun d' => (d' =? BDENOM) || (S' <=? 0) ||
                 (let r := rec_reserve b d' in delta pre p a d' * S' * two_prec <=? r * x * two_prec + r * S')) (denoms_of pre))
         "burn_rounding" k ++
      cl (negb (b_bd b) && forallb (fun t => t_wd t || (delta pre p a (t_denom t) <=? 0)) (b_tokens b)) "disabled" k ++
      cl ((b_bmin b <=? x) && (in_period (l_b lg) now (b_period b) + x <=? b_bmax b)) limits k ++
      cl (caps_ok b') "caps" k
  | OSwap now a ps =>
      let in_value := zsum (map (fun pr : Z * Z * Z => let '(din, xin, _) := pr in
                              match weight_of b din with Some w => w * xin | None => 0 end) ps) in
      let net := zsum (map (fun d => match weight_of b d with Some w => w * delta pre p a d | None => 0 end) (denoms_of pre)) in
      cl ((net * PREC <=? - (b_fee b * in_value) + Z.of_nat (List.length ps) * (max_weight b + PREC))
          && forallb (fun d => match weight_of b d with Some _ => true | None => delta pre p a d <=? 0 end) (denoms_of pre)
          && (b_amount b' =? b_amount b) && (p_supply p =? p_supply pre)) "swap_value" k ++
      (* ... less the slippage fee as well: what is received is worth at most (1 - swap fee)(1 - slippage
         fee) of what is paid in, the slippage fee recomputed here from the observed records *)
      cl (let keep := ((PREC - b_fee b) * (PREC - slippage_lower b b')) / PREC + 1 in
          let recv := zsum (map (fun d => match weight_of b d with
                                          | Some w => w * (delta pre p a d + zsum (map (fun pr : Z * Z * Z => let '(din, xin, _) := pr in if din =? d then xin else 0) ps))
                                          | None => 0 end) (denoms_of pre)) in
          (slippage_lower b b' =? 0) || (recv * PREC <=? keep * in_value + Z.of_nat (List.length ps) * (max_weight b + PREC))) "swap_slippage" k ++
      cl (negb (b_sd b) && forallb (fun pr : Z * Z * Z => let '(din, _, dout) := pr in flag_of t_sw b din && flag_of t_sw b dout) ps) "disabled" k ++
      cl (forallb (fun pr => b_smin b <=? pair_value b pr) ps
          && (in_period (l_s lg) now (b_period b) + zsum (map (pair_value b) ps) <=? b_smax b)) limits k ++
      cl (caps_ok b') "caps" k
  | ODisable _ allowed => cl allowed "gate" k
  | OWithdraw ids target rewards =>
      (* the receiver gets at most the recorded surplus of the DISTINCT baskets listed, and only
         surplus records change (reserves, amounts and supplies stay) *)
      let listed := filter (fun ib => existsb (Z.eqb (fst ib)) ids)
                           (combine (map Z.of_nat (seq 1 (List.length (all_baskets pre)))) (all_baskets pre)) in
      cl (forallb (fun d => delta pre p target d <=? zsum (map (fun ib => rec_surplus (snd ib) d) listed) + coin_of rewards d) (denoms_of pre)
          && list_eqb (fun x y => (b_amount x =? b_amount y) && list_eqb token_eqb (b_tokens x) (b_tokens y)) (all_baskets pre) (all_baskets p)
          && (p_supply p =? p_supply pre)) "surplus_paid_once" k
  | OCreate new =>
      cl (list_eqb basket_eqb (firstn (List.length (all_baskets pre)) (all_baskets p)) (all_baskets pre)
          && forallb (fun b => forallb (fun t => t_amount t =? 0) (b_tokens b) && match b_surplus b with [] => true | _ => false end)
                     (skipn (List.length (all_baskets pre)) (all_baskets p))) "create_empty" k
  | _ => []
  end.

Definition log_op (lg : logs) (o : op) (pre p : post) : logs :=
  match o with
  | OMint now _ _ => mkL ((now, b_amount (p_bk p) - b_amount (p_bk pre)) :: l_m lg) (l_b lg) (l_s lg) (l_gen lg)
  | OBurn now _ _ x => mkL (l_m lg) ((now, x) :: l_b lg) (l_s lg) (l_gen lg)
  | OSwap now _ ps => mkL (l_m lg) (l_b lg) ((now, zsum (map (pair_value (p_bk pre)) ps)) :: l_s lg) (l_gen lg)
  | OGenesis => mkL (l_m lg) (l_b lg) (l_s lg) true
  (* an end block lets the module forget what lies further back than the period then in force: an
     action that had already left the window is not brought back by a later edit that lengthens the period *)
  | OEndBlock now =>
      let keep := filter (fun e : Z * Z => now - b_period (p_bk pre) * 1000000000 <=? fst e) in
      mkL (keep (l_m lg)) (keep (l_b lg)) (keep (l_s lg)) (l_gen lg)
  | _ => lg
  end.

(* A message that fails (error or panic) leaves no trace, so it cannot break the books.  A burn
   that PANICS is reported all the same: the holder of the whole supply cannot redeem (the portion
   is computed by dividing by the supply left after the burn).  A swap that panics on a basket whose
   weighted reserves are all zero (AverageDisbalance divides by the zero average) is reported under
   its own name (C06-class: the transaction fails, no value moves); other swap panics (a slippage fee
   above 1 makes the pay-out negative) fail the transaction likewise and are not C11's matter. *)
Fixpoint hist_clauses (lg : logs) (pre : post) (steps : list (op * Z * option post)) : list string :=
  match steps with
  | [] => []
  | (o, st, po) :: r =>
      match po with
      | Some p => (if st =? 0 then op_clauses lg o pre p else ["status"%string]) ++ hist_clauses (log_op lg o pre p) p r
      | None => (if st =? 2 then (match o with
                                  | OBurn _ _ _ _ => cl false "panic" "burn"
                                  | OSwap _ _ _ => cl (negb (value_of (p_bk pre) =? 0)) "panic_zero_reserves" "swap"
                                  | _ => [] end)
                 else if st =? 1 then [] else ["status"%string])
                ++ hist_clauses lg pre r
      end
  end.

Definition case_clauses (c : c11_case) : list string :=
  match c with C11Hist init steps => cl (books init) "books" "setup" ++ cl (nonneg init) "nonneg" "setup" ++ hist_clauses (mkL [] [] [] false) init steps end.

Fixpoint dedup (l : list string) : list string :=
  match l with [] => [] | x :: r => if str_in x r then dedup r else x :: dedup r end.
Fixpoint violations_from (n : nat) (cs : list c11_case) : list (nat * list string) :=
  match cs with [] => [] | c :: r =>
    match dedup (case_clauses c) with [] => violations_from (S n) r | l => (n, l) :: violations_from (S n) r end end.
Definition c11_violations (cs : list c11_case) : list (nat * list string) := violations_from 0 cs.
