(* C12: (1) observation type, (2) correspondence: what the models of export/import predict vs. what
   the real application did (store classes lost, role registry / proposal queues / multistaking
   counters after the re-import), (3) the decidable spec checker applied to the REAL observations:
   the property demands that the re-import succeeds and that NOTHING differs. *)
From Sekai Require Import Base.Prelude Gen.GenesisCoverage Model.Genesis.
Open Scope Z_scope.

Record ms_snap := mkMs { ms_last_pool : Z; ms_last_undel : Z; ms_pools : list Z; ms_undels : list Z;
                         ms_delegators : Z; ms_compound : Z }.
Record snap := mkSnap {
  sn_roles : list (Z * list Z * list Z);      (* role id, whitelist, blacklist -- store order *)
  sn_infos : list Z; sn_windex : list (Z * Z); sn_next_role : Z;
  sn_props : list (Z * Z);                    (* proposal id, result enum *)
  sn_active : list Z; sn_enact : list Z; sn_next_prop : Z;
  sn_ms : ms_snap;
  sn_id_records : list (Z * Z); sn_id_index : list (Z * Z); sn_id_last : Z;       (* identity registrar *)
  sn_d_treasury : Z; sn_d_snap : Z; sn_d_votes : list (Z * Z); sn_d_proposer : Z (* distributor; proposer -1: none *);
  sn_plan_due : bool (* a next upgrade plan exists whose upgrade time is not after the block time *) }.

Inductive rstatus := RImported | RExportPanic (module : string) | RImportPanic (class : string).

Record c12_case := mkCase {
  cs_status : rstatus;
  cs_version_panic : bool;                         (* the unpatched export was refused: "invalid genesis version" *)
  cs_populated : list (string * string);           (* (store, class) with at least one key at export time *)
  cs_diffs : list (string * string * string);      (* kind lost|added|changed, store, class *)
  cs_export2 : list string;                        (* modules whose second export differs from the first *)
  cs_probes : list string;                         (* further blocks / txs / queries answered differently *)
  cs_sched_probes : list (string * string);        (* (restart schedule, probe): differences that appear only when the
                                                      export is re-imported later / higher and both chains then get the
                                                      same further blocks at the same later times *)
  cs_order : list (string * string * string);      (* (variant, store | "probe" | "import", what): the same genesis with the
                                                      entries of every record list reversed / shuffled builds a different
                                                      store or behaves differently afterwards *)
  cs_before : snap; cs_after : snap }.

(* ---------------------------------------------------------------- helpers *)
Fixpoint zlist_eqb (a b : list Z) : bool :=
  match a, b with [], [] => true | x :: a', y :: b' => ((x =? y) && zlist_eqb a' b')%bool | _, _ => false end.
Definition zpair_eqb (a b : Z * Z) : bool := ((fst a =? fst b) && (snd a =? snd b))%bool.
Definition zpair_mem (x : Z * Z) (l : list (Z * Z)) : bool := existsb (zpair_eqb x) l.
Definition zpairs_seteq (a b : list (Z * Z)) : bool :=
  (forallb (fun x => zpair_mem x b) a && forallb (fun x => zpair_mem x a) b)%bool.
Fixpoint zpairs_eqb (a b : list (Z * Z)) : bool :=
  match a, b with [], [] => true | x :: a', y :: b' => (zpair_eqb x y && zpairs_eqb a' b')%bool | _, _ => false end.
Definition triple_eqb (a b : string * string * string) : bool :=
  (String.eqb (fst (fst a)) (fst (fst b)) && String.eqb (snd (fst a)) (snd (fst b)) && String.eqb (snd a) (snd b))%bool.
Definition has_diff (k s c : string) (l : list (string * string * string)) : bool := existsb (triple_eqb (k, s, c)) l.

Definition roles_of_snap (s : snap) : roles_state :=
  mkRoles (map (fun e => (fst (fst e), mkPerms (snd (fst e)) (snd e))) (sn_roles s)) (sn_infos s) (sn_windex s) (sn_next_role s).
Fixpoint registry_eqb (a b : list (Z * perms)) : bool :=
  match a, b with
  | [], [] => true
  | (i, p) :: a', (j, q) :: b' => ((i =? j) && zlist_eqb (wl p) (wl q) && zlist_eqb (bl p) (bl q) && registry_eqb a' b')%bool
  | _, _ => false end.
Definition roles_eqb (a b : roles_state) : bool :=
  (registry_eqb (registry a) (registry b) && zlist_eqb (infos a) (infos b) && zpairs_seteq (windex a) (windex b)
   && (next_role a =? next_role b))%bool.

Definition sdk_store (s : string) : bool := str_in s ["acc"; "bank"; "params"; "consensus"]%string.

(* ---------------------------------------------------------------- (2) correspondence *)
Definition has_blacklist (s : snap) : bool := existsb (fun e => negb (zlist_eqb (snd e) [])) (sn_roles s).

(* class-level prediction for one populated class *)
Definition class_matches (c : c12_case) (pc : string * string) : bool :=
  let (store, name) := pc in
  if sdk_store store then true else
  match status_of store name with
  | SCovered =>
      if (String.eqb store "upgrade" && String.eqb name "KeyNextPlan")%bool
      then (* lost exactly when the plan is due and InitGenesis checks the time *)
           (Bool.eqb (has_diff "lost" store name (cs_diffs c)) (sn_plan_due (cs_before c) && upgrade_import_checks_time)
            && negb (has_diff "added" store name (cs_diffs c)) && negb (has_diff "changed" store name (cs_diffs c)))%bool
      else
      (negb (has_diff "lost" store name (cs_diffs c)) && negb (has_diff "added" store name (cs_diffs c))
       && (if (String.eqb store "customgov" && String.eqb name "RolePermissionRegistry")%bool
           then Bool.eqb (has_diff "changed" store name (cs_diffs c)) (has_blacklist (cs_before c) && negb gov_restores_blacklists)
           else negb (has_diff "changed" store name (cs_diffs c))))%bool
  | SDerived => negb (has_diff "changed" store name (cs_diffs c))       (* an index may lose dangling / gain missing entries *)
  | SLost => has_diff "lost" store name (cs_diffs c)                   (* predicted lost => observed lost *)
  | STransient | SUnused | SUnknown => false                            (* must never be populated / must be in the table *)
  end.
(* every observed difference concerns a populated class or an index class of a sekai store *)
Definition diff_explained (c : c12_case) (d : string * string * string) : bool :=
  let store := snd (fst d) in let name := snd d in
  (negb (sdk_store store) &&
   match status_of store name with
   | SLost => String.eqb (fst (fst d)) "lost"
   | SDerived => negb (String.eqb (fst (fst d)) "changed")
   | SCovered => ((String.eqb (fst (fst d)) "changed" && String.eqb store "customgov" && String.eqb name "RolePermissionRegistry")
                  || (String.eqb (fst (fst d)) "lost" && String.eqb store "upgrade" && String.eqb name "KeyNextPlan"))%bool
   | _ => false end)%bool.

Definition zmaxl (l : list Z) : Z := fold_right Z.max 0 l.
Definition snap_matches (b a : snap) : bool :=
  (roles_eqb (reimport_roles gov_restores_blacklists (roles_of_snap b)) (roles_of_snap a)
   (* proposals are all restored, the id counter survives; the queues are empty, or rebuilt when InitGenesis does that *)
   && zpairs_eqb (sn_props b) (sn_props a)
   && zlist_eqb (sn_active a) (if gov_rebuilds_queues then sn_active b else [])
   && zlist_eqb (sn_enact a) (if gov_rebuilds_queues then sn_enact b else [])
   && (sn_next_prop b =? sn_next_prop a)
   (* multistaking: pools and undelegations restored; counters zero, or re-derived from the highest imported id;
      the two side tables gone *)
   && zlist_eqb (ms_pools (sn_ms b)) (ms_pools (sn_ms a)) && zlist_eqb (ms_undels (sn_ms b)) (ms_undels (sn_ms a))
   && (ms_last_pool (sn_ms a) =? (if ms_restores_counters then zmaxl (ms_pools (sn_ms b)) else 0))
   && (ms_last_undel (sn_ms a) =? (if ms_restores_counters then zmaxl (ms_undels (sn_ms b)) else 0))
   && (ms_delegators (sn_ms a) =? 0) && (ms_compound (sn_ms a) =? 0)
   (* identity registrar: records, by-address index (as a set) and counter = model of the re-import *)
   && (let m := reimport_id (mkId (sn_id_records b) (sn_id_index b) (sn_id_last b)) in
       zpairs_eqb (id_records m) (sn_id_records a) && zpairs_seteq (id_index m) (sn_id_index a) && (id_last m =? sn_id_last a))
   (* distributor: treasury, snap period, votes (as a set), previous proposer = model of the re-import *)
   && match reimport_distr (mkDistr (sn_d_treasury b) (sn_d_snap b) (sn_d_votes b)
                                    (if sn_d_proposer b <? 0 then None else Some (sn_d_proposer b)) (0, 0) (0, 0)) with
      | Ok m => (d_treasury m =? sn_d_treasury a) && (d_snap_period m =? sn_d_snap a) && zpairs_seteq (d_votes m) (sn_d_votes a)
                && match d_proposer m with Some p => p =? sn_d_proposer a | None => false end
      | _ => false end)%bool.

Definition registry_populated (c : c12_case) : bool :=
  existsb (fun pc => (String.eqb (fst pc) "customgov" && String.eqb (snd pc) "DataRegistryPrefix")%bool) (cs_populated c).

Definition case_matches (c : c12_case) : bool :=
  match cs_status c with
  | RImported =>
      (forallb (class_matches c) (cs_populated c) && forallb (diff_explained c) (cs_diffs c)
       && snap_matches (cs_before c) (cs_after c)
       && Bool.eqb (cs_version_panic c) upgrade_refuses_own_export   (* model of x/upgrade's version check *)
       && negb (gov_export_panics (registry_populated c))
       (* the proposal model re-queues Pending / Enactment proposals whatever the genesis time: when InitGenesis
          rebuilds the queues, no restart schedule may change what happens to proposals *)
       (* the models of the gov and multistaking imports do not depend on the order of the genesis lists
          (Proofs: import_*_order_independent) *)
       && negb (existsb (fun o => (str_in (snd (fst o)) ["customgov"; "multistaking"; "import"]
                                   || (String.eqb (snd (fst o)) "probe"
                                       && str_in (snd o) ["tx:undelegate-new-id"; "tx:new-staking-pool-id"; "query:perm-check";
                                                          "query:proposal-results-after-voting-and-enactment-time"; "query:max-tx-fee";
                                                          "block:claim-matured-undelegations"]))%bool) (cs_order c))
       && (negb gov_rebuilds_queues ||
           negb (existsb (fun sp => (String.eqb (snd sp) "query:proposal-results-after-voting-and-enactment-time"
                                     || String.eqb (snd sp) "query:max-tx-fee")%bool) (cs_sched_probes c)))
       (* the second export differs in gov exactly when role blacklists were dropped *)
       && Bool.eqb (str_in "customgov" (cs_export2 c)) (has_blacklist (cs_before c) && negb gov_restores_blacklists))%bool
  | RExportPanic m => (String.eqb m "customgov" && gov_export_panics (registry_populated c))%bool   (* AllDataRegistry writes into a nil map *)
  (* SetIdentityRecord panics on a value two owners share under a key declared unique after the fact:
     not modelled; the case is left to the spec checker *)
  | RImportPanic cl => String.eqb cl "identity-unique-key"
  end.

Fixpoint mismatches_from (n : nat) (cs : list c12_case) : list nat :=
  match cs with [] => [] | c :: r => if case_matches c then mismatches_from (S n) r else n :: mismatches_from (S n) r end.
Definition c12_mismatches (cs : list c12_case) : list nat := mismatches_from 0 cs.

(* ---------------------------------------------------------------- (3) the property, on real observations
   "Exporting at any reachable height and initialising a new chain from the export reproduces the
    state ... both chains answer every query identically, export the same genesis again and process
    the same subsequent blocks identically."   One clause per way this fails; the clause text is the
   violation signature. *)
Definition diff_clause (d : string * string * string) : string :=
  (fst (fst d) ++ ":" ++ snd (fst d) ++ "/" ++ snd d)%string.
Definition case_clauses (c : c12_case) : list string :=
  match cs_status c with
  | RExportPanic m => [("export-panic:" ++ m)%string]
  | RImportPanic cl => (if cs_version_panic c then ["import-panic:upgrade/version"%string] else []) ++ [("import-panic:" ++ cl)%string]
  | RImported =>
      (if cs_version_panic c then ["import-panic:upgrade/version"%string] else [])
      ++ map diff_clause (cs_diffs c)
      ++ map (fun m => ("export2:" ++ m)%string) (cs_export2 c)
      ++ map (fun p => ("diverge:" ++ p)%string) (cs_probes c)
      ++ map (fun sp => ("diverge@" ++ fst sp ++ ":" ++ snd sp)%string) (cs_sched_probes c)
      ++ map (fun o => ("order@" ++ fst (fst o) ++ ":" ++ (if String.eqb (snd (fst o)) "probe" then "probe:" else if String.eqb (snd (fst o)) "import" then "import-" else "") ++ snd o)%string) (cs_order c)
  end.

Fixpoint violations_from (n : nat) (cs : list c12_case) : list (nat * list string) :=
  match cs with [] => [] | c :: r =>
    match case_clauses c with [] => violations_from (S n) r | cl => (n, cl) :: violations_from (S n) r end end.
Definition c12_violations (cs : list c12_case) : list (nat * list string) := violations_from 0 cs.

(* what a run of the class-level model looks like as an observation: the diff predicted for a set of
   populated classes (used by the soundness lemma of the checker) *)
Definition predicted_diffs (pop : list (string * string)) : list (string * string * string) :=
  flat_map (fun pc => match status_of (fst pc) (snd pc) with SLost => [("lost"%string, fst pc, snd pc)] | _ => [] end) pop.
