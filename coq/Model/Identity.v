(* C16 -- identity registry.  Executable model of
     x/gov/keeper/identity_registrar.go   (SetIdentityRecord, RegisterIdentityRecords, DeleteIdentityRecords,
                                           CancelInvalidIdentityRecordVerifyRequests, RequestIdentityRecordsVerify,
                                           HandleIdentityRecordsVerifyRequest, CancelIdentityRecordsVerifyRequest)
     x/gov/types/msg.go                   (ValidateBasic of the five identity messages)
     x/gov/keeper/msg_server.go           (ClaimCouncilor, SetNetworkProperties -- whole-record write)
     x/gov/keeper/keeper.go               (SetNetworkProperty, UniqueIdentityKeys arm + validation)
     x/staking/keeper/msg_server.go       (ClaimValidator: moniker record)
     x/recovery/keeper/msg_server.go      (RotateRecoveryAddress: identity part, balances, actor)
   Definitions only.  A transaction that returns an error or panics leaves no trace (baseapp
   discards the cached store), so [step] returns an [outcome] and the history runner keeps the
   old state on [Err]/[Panic].
   One deliberate re-ordering, invisible in the result: HandleIdentityRecordsVerifyRequest deletes
   the request at its very end; the model deletes it together with the tip payment (the writes
   in between never read requests or balances and deleting cannot fail). *)
From Sekai Require Import Base.Prelude Model.NetPropsLib.

Definition addr := Z.
Inductive acct : Type := User (a : addr) | Gov.
Definition acct_eqb (x y : acct) : bool :=
  match x, y with User a, User b => a =? b | Gov, Gov => true | _, _ => false end.

Record record : Type := mkRec
  { r_id : Z; r_owner : addr; r_key : string; r_val : string; r_date : Z; r_ver : list addr }.
Record request : Type := mkReq
  { q_id : Z; q_addr : addr; q_ver : addr; q_rids : list Z; q_denom : string; q_amt : Z; q_date : Z }.

(* the part of the chain state that the identity registry reads or writes *)
Record state : Type := mkState
  { recs : list record;                  (* record store, by id (kept in id order) *)
    idx : list ((addr * string) * Z);    (* address+key -> id index *)
    reqs : list request;                 (* verification requests, by id (id order) *)
    last_rid : Z; last_qid : Z;
    ukeys : string;                      (* network property UniqueIdentityKeys *)
    min_tip : Z;                         (* network property MinIdentityApprovalTip (uint64) *)
    councilors : list addr;
    perm_c : list addr; perm_v : list addr; perm_n : list addr;  (* claim councilor / claim validator / change properties *)
    accts : list addr;                   (* addresses with an auth account *)
    secrets : list addr;                 (* addresses with a registered recovery secret *)
    rotated : list addr;                 (* rotation history: sources *)
    bal : acct -> string -> Z;
    del_fix : bool;                   (* does DeleteIdentityRecordById also delete the address+key index entry? (probed on the real code) *)
    msg_guard : bool;
    rrtok : list addr;                (* addresses with a validator recovery token (x/recovery) *)                 (* does MsgSetNetworkProperties apply the EnsureUniqueKeys guards? (probed on the real code) *)
    rot_check : bool;                 (* do the rotations refuse a target that already holds identity records? (probed) *)
    actor_check : bool }.               (* do the rotations refuse a target that is a network actor? (probed; commit 2093997) *)

Definition set_recs (s : state) x := mkState x (idx s) (reqs s) (last_rid s) (last_qid s) (ukeys s) (min_tip s) (councilors s) (perm_c s) (perm_v s) (perm_n s) (accts s) (secrets s) (rotated s) (bal s) (del_fix s) (msg_guard s) (rrtok s) (rot_check s) (actor_check s).
Definition set_idx (s : state) x := mkState (recs s) x (reqs s) (last_rid s) (last_qid s) (ukeys s) (min_tip s) (councilors s) (perm_c s) (perm_v s) (perm_n s) (accts s) (secrets s) (rotated s) (bal s) (del_fix s) (msg_guard s) (rrtok s) (rot_check s) (actor_check s).
Definition set_reqs (s : state) x := mkState (recs s) (idx s) x (last_rid s) (last_qid s) (ukeys s) (min_tip s) (councilors s) (perm_c s) (perm_v s) (perm_n s) (accts s) (secrets s) (rotated s) (bal s) (del_fix s) (msg_guard s) (rrtok s) (rot_check s) (actor_check s).
Definition set_last_rid (s : state) x := mkState (recs s) (idx s) (reqs s) x (last_qid s) (ukeys s) (min_tip s) (councilors s) (perm_c s) (perm_v s) (perm_n s) (accts s) (secrets s) (rotated s) (bal s) (del_fix s) (msg_guard s) (rrtok s) (rot_check s) (actor_check s).
Definition set_last_qid (s : state) x := mkState (recs s) (idx s) (reqs s) (last_rid s) x (ukeys s) (min_tip s) (councilors s) (perm_c s) (perm_v s) (perm_n s) (accts s) (secrets s) (rotated s) (bal s) (del_fix s) (msg_guard s) (rrtok s) (rot_check s) (actor_check s).
Definition set_ukeys (s : state) x := mkState (recs s) (idx s) (reqs s) (last_rid s) (last_qid s) x (min_tip s) (councilors s) (perm_c s) (perm_v s) (perm_n s) (accts s) (secrets s) (rotated s) (bal s) (del_fix s) (msg_guard s) (rrtok s) (rot_check s) (actor_check s).
Definition set_bal (s : state) ac x := mkState (recs s) (idx s) (reqs s) (last_rid s) (last_qid s) (ukeys s) (min_tip s) (councilors s) (perm_c s) (perm_v s) (perm_n s) ac (secrets s) (rotated s) x (del_fix s) (msg_guard s) (rrtok s) (rot_check s) (actor_check s).
(* everything that is neither record, index, request, counter, unique-key list nor balance *)
Definition set_aux (s : state) co pc pv pn ac ro rr := mkState (recs s) (idx s) (reqs s) (last_rid s) (last_qid s) (ukeys s) (min_tip s) co pc pv pn ac (secrets s) ro (bal s) (del_fix s) (msg_guard s) rr (rot_check s) (actor_check s).

Fixpoint mem (a : Z) (l : list Z) : bool := match l with [] => false | b :: r => (a =? b) || mem a r end.
Definition add_mem (a : Z) (l : list Z) : list Z := if mem a l then l else l ++ [a].

(* ---------------------------------------------------------------- stores *)
(* Set on the record store: replace the record with this id, or insert in id order *)
Fixpoint insert_rec (r : record) (l : list record) : list record :=
  match l with
  | [] => [r]
  | x :: t => if r_id r <? r_id x then r :: x :: t else x :: insert_rec r t
  end.
Definition put_rec (r : record) (l : list record) : list record :=
  if existsb (fun x => r_id x =? r_id r) l
  then map (fun x => if r_id x =? r_id r then r else x) l
  else insert_rec r l.
Definition get_rec (s : state) (id : Z) : option record := find (fun r => r_id r =? id) (recs s).
Definition del_rec (s : state) (id : Z) : state := set_recs s (filter (fun r => negb (r_id r =? id)) (recs s)).

Definition ik_eqb (x y : addr * string) : bool := (fst x =? fst y) && String.eqb (snd x) (snd y).
Definition put_idx (k : addr * string) (id : Z) (l : list ((addr * string) * Z)) : list ((addr * string) * Z) :=
  if existsb (fun e => ik_eqb (fst e) k) l
  then map (fun e => if ik_eqb (fst e) k then (k, id) else e) l
  else l ++ [(k, id)].
Definition get_idx (s : state) (k : addr * string) : Z :=
  match find (fun e => ik_eqb (fst e) k) (idx s) with Some e => snd e | None => 0 end.
Definition del_idx (s : state) (k : addr * string) : state := set_idx s (filter (fun e => negb (ik_eqb (fst e) k)) (idx s)).
Definition idx_of (s : state) (a : addr) : list ((addr * string) * Z) := filter (fun e => fst (fst e) =? a) (idx s).

Definition get_req (s : state) (id : Z) : option request := find (fun q => q_id q =? id) (reqs s).
Definition del_req (s : state) (id : Z) : state := set_reqs s (filter (fun q => negb (q_id q =? id)) (reqs s)).

(* ---------------------------------------------------------------- bank *)
Definition upd (b : acct -> string -> Z) (x : acct) (d : string) (n : Z) : acct -> string -> Z :=
  fun y e => if acct_eqb y x && String.eqb e d then b y e + n else b y e.
(* SendCoins: subtract (fails when the balance is too small), then add; the recipient's account is created *)
Definition pay (s : state) (x y : acct) (d : string) (n : Z) : outcome state :=
  if bal s x d <? n then Err "insufficient funds"
  else Ok (set_bal s (match y with User a => add_mem a (accts s) | Gov => accts s end) (upd (upd (bal s) x d (- n)) y d n)).
(* `if !tip.Amount.IsZero() { send }` *)
Definition pay_opt (s : state) (x y : acct) (d : string) (n : Z) : outcome state :=
  if n =? 0 then Ok s else pay s x y d n.

(* ---------------------------------------------------------------- SetIdentityRecord *)
Definition ukey_list (s : state) : list string := split_on ","%char (ukeys s).
(* GetAddressesByIdRecordKey *)
Definition holders (s : state) (k v : string) : list addr :=
  map r_owner (filter (fun r => String.eqb (r_key r) k && String.eqb (r_val r) v) (recs s)).
(* `if len(addrs) == 1 && addrs[0] == a {} else if len(addrs) > 0 { conflict }` *)
Definition unique_conflict (s : state) (a : addr) (k v : string) : bool :=
  match holders s k v with [] => false | [b] => negb (b =? a) | _ => true end.
Definition lower_rec (r : record) : record := mkRec (r_id r) (r_owner r) (to_lower (r_key r)) (r_val r) (r_date r) (r_ver r).

Definition set_record (s : state) (r : record) : outcome state :=
  if negb (valid_key (r_key r)) then Panic "identity record key is invalid"
  else if str_in (r_key r) (ukey_list s) && unique_conflict s (r_owner r) (r_key r) (r_val r)
  then Panic "key/value already registered"
  else let r' := lower_rec r in
       Ok (set_idx (set_recs s (put_rec r' (recs s))) (put_idx (r_owner r, r_key r') (r_id r) (idx s))).

(* GetIdentityRecordIdByAddressKey *)
Definition get_id (s : state) (a : addr) (k : string) : Z :=
  if valid_key k then get_idx s (a, to_lower k) else 0.

(* ---------------------------------------------------------------- loops *)
Section Fold.
Context {A X : Type}.
Fixpoint foldM (f : A -> X -> outcome A) (l : list X) (a : A) : outcome A :=
  match l with [] => Ok a | x :: r => do a' <- f a x; foldM f r a' end.
End Fold.

(* ---------------------------------------------------------------- cancel / auto-cancel *)
(* pay the tip out of the module account to [to] and drop the request *)
Definition payout (s : state) (q : request) (to : addr) : outcome state :=
  do s1 <- pay_opt s Gov (User to) (q_denom q) (q_amt q); Ok (del_req s1 (q_id q)).

Definition cancel_request (s : state) (executor : addr) (qid : Z) : outcome state :=
  match get_req s qid with
  | None => Err "request does not exist"
  | Some q => if negb (executor =? q_addr q) then Err "executor is not identity record creator"
              else payout s q (q_addr q)
  end.

Definition covers (ids : list Z) (q : request) : bool := existsb (fun i => mem i ids) (q_rids q).
(* CancelInvalidIdentityRecordVerifyRequests: requests of [a] (requester index) touching [ids] *)
Definition cancel_invalid (s : state) (a : addr) (ids : list Z) : outcome state :=
  foldM (fun s qid => cancel_request s a qid)
        (map q_id (filter (fun q => (q_addr q =? a) && covers ids q) (reqs s))) s.

(* ---------------------------------------------------------------- RegisterIdentityRecords *)
Definition info := (string * string)%type.
Definition len (s : string) : Z := Z.of_nat (String.length s).

Definition councilor_blocks (s : state) (a : addr) (k v : string) (which : string) : bool :=
  String.eqb k which &&
  match get_rec s (get_id s a which) with Some r => negb (String.eqb v (r_val r)) | None => false end.

(* first loop: validation against the state BEFORE any write; returns the infos with folded keys *)
Fixpoint reg_check (s : state) (a : addr) (infos : list info) : outcome (list info) :=
  match infos with
  | [] => Ok []
  | (k, v) :: rest =>
      if negb (valid_key k) then Err "invalid key" else
      let k' := to_lower k in
      if String.eqb k' "moniker" && (32 <? len v) then Err "moniker length" else
      if String.eqb k' "username" && (32 <? len v) then Err "username length" else
      if mem a (councilors s) && (councilor_blocks s a k' v "moniker" || councilor_blocks s a k' v "username")
      then Err "councilor moniker/username not allowed to be changed" else
      if str_in k' (ukey_list s) && unique_conflict s a k' v then Err "key should be unique" else
      do rest' <- reg_check s a rest; Ok ((k', v) :: rest')
  end.

(* second loop: one write per info; collects the ids whose value changed *)
Definition reg_write1 (now : Z) (a : addr) (sa : state * list Z) (i : info) : outcome (state * list Z) :=
  let '(s, aff) := sa in let '(k, v) := i in
  let id0 := get_id s a k in
  let s1 := if id0 =? 0 then set_last_rid s (last_rid s + 1) else s in
  let id := if id0 =? 0 then last_rid s + 1 else id0 in
  let aff' := if id0 =? 0 then aff else
              match get_rec s id0 with
              | Some r => if String.eqb (r_val r) v then aff else aff ++ [id0]
              | None => aff ++ [id0] end in
  do s2 <- set_record s1 (mkRec id a k v now []); Ok (s2, aff').

Definition register_keeper (now : Z) (a : addr) (infos : list info) (s : state) : outcome state :=
  do infos' <- reg_check s a infos;
  do sa <- foldM (reg_write1 now a) infos' (s, []);
  cancel_invalid (fst sa) a (snd sa).

(* MsgRegisterIdentityRecords: ValidateBasic + keeper *)
Definition register_msg (now : Z) (a : addr) (infos : list info) (s : state) : outcome state :=
  match infos with [] => Err "empty infos" | _ => register_keeper now a infos s end.

(* ---------------------------------------------------------------- DeleteIdentityRecords *)
Fixpoint del_check (keys : list string) : outcome unit :=
  match keys with
  | [] => Ok tt
  | k :: r => if negb (valid_key k) then Err "invalid key"
              else if String.eqb k "moniker" then Err "moniker deletion not allowed"   (* un-normalised key *)
              else del_check r
  end.
Definition del_one (s : state) (e : (addr * string) * Z) : outcome state :=
  match get_rec s (snd e) with
  | None => Err "identity record with specified id does NOT exist"
  | Some _ => Ok (del_rec s (snd e))
  end.
Definition delete_msg (a : addr) (keys : list string) (s : state) : outcome state :=
  do _ <- del_check keys;
  let keys' := map to_lower keys in
  let hit := filter (fun e => match keys with [] => true | _ => str_in (snd (fst e)) keys' end) (idx_of s a) in
  let s1 := fold_left (fun s e => del_idx s (fst e)) hit s in
  do s2 <- foldM del_one hit s1;
  cancel_invalid s2 a (map snd hit).

(* ---------------------------------------------------------------- RequestIdentityRecordsVerify *)
Definition zero_time : Z := -62135596800.    (* time.Time{} *)
Fixpoint max_date (s : state) (ids : list Z) (cur : Z) : outcome Z :=
  match ids with
  | [] => Ok cur
  | i :: r => match get_rec s i with
              | None => Err "identity record with specified id does NOT exist"
              | Some x => max_date s r (if cur <? r_date x then r_date x else cur) end
  end.
Definition request_msg (a v : addr) (rids : list Z) (d : string) (n : Z) (s : state) : outcome state :=
  match rids with [] => Err "invalid record ids" | _ =>
  if n <? 0 then Err "invalid tip" else
  let qid := last_qid s + 1 in
  if negb (forallb (fun i => mem i (map snd (idx_of s a))) rids) then Err "executor is not owner of the identity record" else
  do dt <- max_date s rids zero_time;
  if n <? as_int64 (min_tip s) then Err "approval tip is lower than minimum tip" else
  let s1 := set_last_qid (set_reqs s (reqs s ++ [mkReq qid a v rids d n dt])) qid in
  pay_opt s1 (User a) Gov d n
  end.

(* ---------------------------------------------------------------- HandleIdentityRecordsVerifyRequest *)
(* "automatically reject if last record edit date is incorrect" *)
Fixpoint auto_check (s : state) (ids : list Z) (qdate : Z) (approve : bool) : outcome bool :=
  match ids with
  | [] => Ok approve
  | i :: r => match get_rec s i with
              | None => Err "identity record with specified id does NOT exist"
              | Some x => if qdate <? r_date x then Ok false else auto_check s r qdate approve end
  end.
Definition add_verifier (v : addr) (s : state) (i : Z) : outcome state :=
  match get_rec s i with
  | None => Err "identity record with specified id does NOT exist"
  | Some x => if mem v (r_ver x) then Ok s
              else set_record s (mkRec (r_id x) (r_owner x) (r_key x) (r_val x) (r_date x) (r_ver x ++ [v]))
  end.
Definition handle_msg (v : addr) (qid : Z) (yes : bool) (s : state) : outcome state :=
  if qid =? 0 then Err "invalid verify request id" else
  match get_req s qid with
  | None => Err "request does not exist"
  | Some q =>
      if negb (v =? q_ver q) then Err "verifier does not match with requested" else
      do s1 <- payout s q v;                               (* tip goes to the verifier, approve or reject *)
      do ap <- auto_check s1 (q_rids q) (q_date q) yes;
      if ap then foldM (add_verifier v) (q_rids q) s1 else Ok s1
  end.

Definition cancel_msg (a : addr) (qid : Z) (s : state) : outcome state :=
  if qid =? 0 then Err "invalid verify request id" else cancel_request s a qid.

(* ---------------------------------------------------------------- claims *)
Definition nonempty (l : list info) : list info := filter (fun i => negb (String.eqb (snd i) "")) l.
(* MsgClaimCouncilor: moniker, username, description, social, contact, avatar *)
Definition claim_councilor (now : Z) (a : addr) (vals : list string) (s : state) : outcome state :=
  if negb (mem a (perm_c s)) then Err "PermClaimCouncilor" else
  let s1 := set_aux s (add_mem a (councilors s)) (perm_c s) (perm_v s) (perm_n s) (accts s) (rotated s) (rrtok s) in
  register_keeper now a (nonempty (combine ["moniker"; "username"; "description"; "social"; "contact"; "avatar"]%string vals)) s1.

Fixpoint ltrim (s : string) : string :=
  match s with String c r => if ascii_eqb c " "%char then ltrim r else s | EmptyString => s end.
Fixpoint rev_str (s acc : string) : string := match s with EmptyString => acc | String c r => rev_str r (String c acc) end.
Definition trim (s : string) : string := rev_str (ltrim (rev_str (ltrim s) "")) "".   (* strings.Trim(s, " ") *)
(* MsgClaimValidator creates a PENDING validator (not found by GetValidator), then the moniker record *)
Definition claim_validator (now : Z) (a : addr) (moniker : string) (s : state) : outcome state :=
  if negb (mem a (perm_v s)) then Err "PermClaimValidator" else
  register_keeper now a [("moniker"%string, trim moniker)] s.

(* ---------------------------------------------------------------- unique-key list *)
Definition ukeys_valid (new : string) : bool :=
  negb (String.eqb new "") && String.eqb new (to_lower new) && unique_keys_block_ok new.
Definition kv_of (s : state) : list (string * string) := map (fun r => (r_key r, r_val r)) (recs s).
(* ApplySetNetworkPropertyProposalHandler.Apply (x/gov/proposal_handler.go) + keeper.SetNetworkProperty(UniqueIdentityKeys) *)
Definition set_keys_prop (new : string) (s : state) : outcome state :=
  if String.eqb new (ukeys s) then Err "network property already set as proposed value" else   (* proposal handler *)
  if negb (String.eqb (ensure_old_unique_keys_not_removed (ukeys s) new) "") then Err "old unique key removed" else
  if negb (String.eqb (ensure_unique_keys (kv_of s) (ukeys s) new) "") then Err "already existing key is not unique" else
  if ukeys_valid new then Ok (set_ukeys s new) else Err "invalid network properties".
(* MsgSetNetworkProperties: whole-record write by a holder of the change permission; guarded only if [msg_guard] *)
Definition set_keys_msg (p : addr) (new : string) (s : state) : outcome state :=
  if negb (mem p (perm_n s)) then Err "PermChangeTxFee" else
  if msg_guard s && negb (String.eqb (ensure_old_unique_keys_not_removed (ukeys s) new) "") then Err "old unique key removed" else
  if msg_guard s && negb (String.eqb (ensure_unique_keys (kv_of s) (ukeys s) new) "") then Err "already existing key is not unique" else
  if ukeys_valid new then Ok (set_ukeys s new) else Err "invalid network properties".

(* ---------------------------------------------------------------- RotateRecoveryAddress *)
Definition denoms : list string := ["ukex"; "utip"]%string.
Definition ren (a b x : addr) : addr := if x =? a then b else x.
Definition move_bal (a b : addr) (s : state) : outcome state :=
  foldM (fun s d => pay_opt s (User a) (User b) d (bal s (User a) d)) denoms s.
(* DeleteIdentityRecordById removes the record but (unless [del_fix]) NOT the old address' index
   entry: it deletes the index key Uint64ToBigEndian(id), which never exists *)
Definition move_rec (b : addr) (s : state) (e : (addr * string) * Z) : outcome state :=
  match get_rec s (snd e) with
  | None => Panic "invalid recordId exists"        (* GetIdRecordsByAddress *)
  | Some x => let s0 := if del_fix s then del_idx s (r_owner x, r_key x) else s in
              set_record (del_rec s0 (snd e)) (mkRec (r_id x) b (r_key x) (r_val x) (r_date x) (r_ver x))
  end.
Definition all_recs_exist (s : state) (l : list ((addr * string) * Z)) : bool :=
  forallb (fun e => match get_rec s (snd e) with Some _ => true | None => false end) l.
(* the identity / actor part shared by RotateRecoveryAddress and RotateValidatorByHalfRRTokenHolder *)
Definition rotate_core (a b : addr) (s1 : state) : outcome state :=
  let mine := idx_of s1 a in
  if negb (all_recs_exist s1 mine) then Panic "invalid recordId exists" else
  do s2 <- foldM (move_rec b) mine s1;
  let s3 := set_reqs s2 (map (fun q => mkReq (q_id q) (ren a b (q_addr q)) (ren a b (q_ver q)) (q_rids q) (q_denom q) (q_amt q) (q_date q)) (reqs s2)) in
  Ok (set_aux s3 (map (ren a b) (councilors s3)) (map (ren a b) (perm_c s3)) (map (ren a b) (perm_v s3)) (map (ren a b) (perm_n s3))
              (accts s3) (a :: rotated s3) (map (ren a b) (rrtok s3))).
Definition has_records (s : state) (b : addr) : bool := match idx_of s b with [] => false | _ => true end.
(* GetNetworkActorByAddress: an address is a network actor once a permission was whitelisted for it *)
Definition is_actor (s : state) (b : addr) : bool := mem b (perm_c s) || mem b (perm_v s) || mem b (perm_n s).
Definition rotate_msg (a b : addr) (proof_ok : bool) (s : state) : outcome state :=
  if mem a (rrtok s) then Err "address has validator recovery token" else
  if negb (mem a (secrets s)) then Err "recovery record not found" else
  if negb proof_ok then Err "invalid proof" else
  if mem b (rotated s) then Err "target address already has rotation history" else
  if rot_check s && has_records s b then Err "target address already has identity records" else
  if actor_check s && is_actor s b then Err "target address is a network actor" else
  if negb (mem a (accts s)) then Err "account does not exist" else
  if mem b (accts s) then Err "rotated account already exists" else
  do s1 <- move_bal a b s;
  rotate_core a b s1.
(* MsgRotateValidatorByHalfRRTokenHolder: no fee, no account checks, balances stay *)
Definition rotate_rr (a b : addr) (holder_ok : bool) (s : state) : outcome state :=
  if negb (mem a (rrtok s)) then Err "recovery token does not exist" else
  if negb holder_ok then Err "not enough RR token amount for rotation" else
  if mem b (rotated s) then Err "target address already has rotation history" else
  if rot_check s && has_records s b then Err "target address already has identity records" else
  if actor_check s && is_actor s b then Err "target address is a network actor" else
  rotate_core a b s.

(* gov ExportGenesis + InitGenesis: records, requests and both counters are exported and re-imported;
   InitGenesis re-sets every record through SetIdentityRecord in id order, which REBUILDS the
   address+key index (the last record of an (address, key) pair wins).  The stored records are
   assumed free of uniqueness conflicts (otherwise the import panics; true whenever [UI] holds). *)
Definition rebuild_idx (l : list record) : list ((addr * string) * Z) :=
  fold_left (fun acc r => put_idx (r_owner r, r_key r) (r_id r) acc) l [].
Definition genesis_roundtrip (s : state) : state := set_idx s (rebuild_idx (recs s)).

(* ---------------------------------------------------------------- operations and histories *)
Inductive op : Type :=
| ORegister (now : Z) (a : addr) (infos : list info)
| ODelete (a : addr) (keys : list string)
| ORequest (a v : addr) (rids : list Z) (d : string) (n : Z)
| OHandle (v : addr) (qid : Z) (yes : bool)
| OCancel (a : addr) (qid : Z)
| OClaimCouncilor (now : Z) (a : addr) (vals : list string)
| OClaimValidator (now : Z) (a : addr) (moniker : string)
| OSetKeysProp (new : string)
| OSetKeysMsg (p : addr) (new : string)
| ORotate (a b : addr) (proof_ok : bool)
| ORotateRR (a b : addr) (holder_ok : bool)
| OGenesis.                   (* gov ExportGenesis, wipe of the identity stores, InitGenesis *)

Definition step (s : state) (o : op) : outcome state :=
  match o with
  | ORegister now a infos => register_msg now a infos s
  | ODelete a keys => delete_msg a keys s
  | ORequest a v rids d n => request_msg a v rids d n s
  | OHandle v qid yes => handle_msg v qid yes s
  | OCancel a qid => cancel_msg a qid s
  | OClaimCouncilor now a vals => claim_councilor now a vals s
  | OClaimValidator now a m => claim_validator now a m s
  | OSetKeysProp new => set_keys_prop new s
  | OSetKeysMsg p new => set_keys_msg p new s
  | ORotate a b ok => rotate_msg a b ok s
  | ORotateRR a b ok => rotate_rr a b ok s
  | OGenesis => Ok (genesis_roundtrip s)
  end.

(* a failed transaction leaves no trace *)
Definition step_tx (s : state) (o : op) : state := match step s o with Ok s' => s' | _ => s end.
Definition run (s : state) (ops : list op) : state := fold_left step_tx ops s.

(* the transaction's signer *)
Definition signer (o : op) : addr :=
  match o with
  | ORegister _ a _ | ODelete a _ | ORequest a _ _ _ _ | OCancel a _ | OClaimCouncilor _ a _ | OClaimValidator _ a _ => a
  | OHandle v _ _ => v
  | OSetKeysProp _ => -1
  | OSetKeysMsg p _ => p
  | ORotate a _ _ | ORotateRR a _ _ => a
  | OGenesis => -1
  end.

(* starting states: empty registry, given configuration and balances.  Granting the
   claim-councilor permission (AddWhitelistPermission) already creates a "waiting" councilor. *)
Definition init_state (uk : string) (mt : Z) (pc pv pn ac se : list addr) (b : acct -> string -> Z) (fx mg : bool) (rr : list addr) (rc ak : bool) : state :=
  mkState [] [] [] 0 0 uk mt pc pc pv pn ac se [] b fx mg rr rc ak.
