(* C09: (1) observation type, (2) correspondence model vs. what the real application did
   (DeliverTx / EndBlock of real signed transactions; keeper-level pay-back calls), (3) the
   decidable spec checker, written from the property text, applied to the REAL observations. *)
From Sekai Require Import Base.Prelude Base.Dec Model.Filters Model.Fees.

Record tx_obs : Type := mkObs {
  o_class : Z;                                (* 0 delivered ok | 1 rejected by admission | 2 a message failed |
                                                 3 panic, nothing admitted | 4 panic in a message after admission *)
  o_deltas : list ((string * string) * Z);    (* non-zero balance changes of the watched accounts *)
  o_accts : list (string * (Z * bool));       (* signers afterwards: sequence, has public key *)
  o_execs : list (string * string * bool);    (* execution-status list afterwards *)
  o_marks : list string;                      (* keys of this tx's non-transfer messages present afterwards *)
  o_diff : list (string * string * string)    (* classified keys of the full store diff *)
}.
Record end_obs : Type := mkEnd {
  e_class : Z;                                (* 0 ok | 3 panic *)
  e_deltas : list ((string * string) * Z);
  e_execs : list (string * string * bool);
  e_hists : list (string * coins)
}.

(* operations on the real feeprocessing keeper, for whole payment / refund histories of several
   payers: a fee payment through the keeper's SendCoinsFromAccountToModule, a refund through its
   SendCoinsFromModuleToAccount, the registration of an execution (optionally marked successful),
   and the end-of-block ProcessExecutionFeeReturn *)
Inductive lop : Type :=
| LPay (payer : string) (fee : coins)
| LRefund (payer : string) (amt : coins)
| LExec (ty payer : string) (success : bool)
| LEnd.
(* what the real keeper did: 0 ok | 1 error | 3 panic, and the balance changes of the watched accounts *)
Definition lobs : Type := (Z * list ((string * string) * Z))%type.

(* configuration a message of a transaction attempts to write (gov MsgSetExecutionFee,
   MsgSetNetworkProperties, tokens MsgUpsertTokenInfo) *)
Inductive cfgwrite : Type :=
| WExec (ty : string) (e f : Z)
| WFees (min max : Z) (foreign : bool)
| WToken (d : string) (rate : Z) (enabled : bool).
Definition apply_write (c : fcfg) (w : cfgwrite) : fcfg :=
  match w with
  | WExec ty e f => mkCfg (c_filt c) (c_tokens c) (c_foreign c) (c_min_fee c) (c_max_fee c) ((ty, (e, f)) :: c_exec c) (c_custody c) (c_min_reward c)
  | WFees mn mx fo => mkCfg (c_filt c) (c_tokens c) fo mn mx (c_exec c) (c_custody c) (c_min_reward c)
  | WToken d r en => mkCfg (c_filt c) (mkToken d r en :: c_tokens c) (c_foreign c) (c_min_fee c) (c_max_fee c) (c_exec c) (c_custody c) (c_min_reward c)
  end.
(* one step of a failed-transaction-trace history: mode 0 = DeliverTx, 1 = CheckTx only,
   2 = Simulate only; the writes its messages attempt; the transaction; what was observed *)
Definition tstep : Type := (Z * list cfgwrite * tx * tx_obs)%type.
(* GHOST CONFIGURATION: only a transaction DELIVERED AS A WHOLE (class 0) changes it *)
Definition ghost_cfg (c : fcfg) (st : tstep) : fcfg :=
  let '(mode, ws, _, o) := st in
  if ((mode =? 0) && (o_class o =? 0))%bool then fold_left apply_write ws c else c.

Inductive c09_case : Type :=
| CBlock (c : fcfg) (accts : list (string * (Z * bool))) (bals : list ((string * string) * Z))
         (hists : list (string * coins)) (watch dens : list string)
         (txs : list (tx * tx_obs)) (eo : end_obs)
| CRefund (ts : list token) (hist amt coll : coins) (class : Z) (paid : coins) (hist_after : coins)
| CTrace (c : fcfg) (accts : list (string * (Z * bool))) (bals : list ((string * string) * Z))
         (watch dens : list string) (steps : list tstep)
| CLedger (c : fcfg) (bals : list ((string * string) * Z)) (watch dens : list string)
          (ops : list (lop * lobs)) (hists_after : list (string * coins)).

Fixpoint list_eqb {A B} (e : A -> B -> bool) (l : list A) (m : list B) : bool :=
  match l, m with [], [] => true | x :: l', y :: m' => (e x y && list_eqb e l' m')%bool | _, _ => false end.
Definition coin_eqb (a b : coin) : bool := (String.eqb (fst a) (fst b) && (snd a =? snd b))%bool.
Definition coins_eqb : coins -> coins -> bool := list_eqb coin_eqb.
Definition pairs (ws ds : list string) : list (string * string) := flat_map (fun w => map (fun d => (w, d)) ds) ws.

(* ---------------------------------------------------------------- (2) model vs observation *)
Definition class_of (r : tx_result) : Z :=
  match r with TxOk => 0 | TxAnteRejected => 1 | TxMsgFailed => 2 | TxAntePanic => 3 | TxMsgPanic => 4 end.
Definition deltas_match (s s' : st) (ws ds : list string) (obs : list ((string * string) * Z)) : bool :=
  forallb (fun k => (bal s' (fst k) (snd k) - bal s (fst k) (snd k)) =? lookup_bal obs k) (pairs ws ds).
Definition accts_match (s : st) (obs : list (string * (Z * bool))) : bool :=
  forallb (fun o => match get_acct s (fst o) with
                    | Some a => ((a_seq a =? fst (snd o)) && Bool.eqb (a_haspk a) (snd (snd o)))%bool
                    | None => false end) obs.
Definition execs_match (s : st) (obs : list (string * string * bool)) : bool :=
  list_eqb (fun a b : string * string * bool =>
              (String.eqb (fst (fst a)) (fst (fst b)) && String.eqb (snd (fst a)) (snd (fst b)) && Bool.eqb (snd a) (snd b))%bool) (s_exec s) obs.
Definition marks_match (s : st) (ms : list msg) (obs : list string) : bool :=
  forallb (fun m => match m with
                    | MOther _ _ _ k => if String.eqb k "" then true else Bool.eqb (str_in k (s_marks s)) (str_in k obs)
                    | _ => true end) ms.
Definition hists_match (s : st) (ws : list string) (obs : list (string * coins)) : bool :=
  forallb (fun w => coins_eqb (hist_of s w) (match lookup_str obs w with Some h => h | None => [] end)) ws.

Definition init_st (accts : list (string * (Z * bool))) (bals : list ((string * string) * Z)) (hists : list (string * coins)) : st :=
  mkSt bals (map (fun a => (fst a, mkAcct (fst (snd a)) (snd (snd a)))) accts) [] hists [].
(* the model's view of the wiring regenerated from app.go *)
Record wiring : Type := mkWiring { w_wired : bool; w_post : bool }.

Section Run.
Variable sh : shape.
Variable w : wiring.
Let wired := w_wired w.
Let post := w_post w.

Fixpoint txs_match (c : fcfg) (ws ds : list string) (s : st) (txs : list (tx * tx_obs)) : option st :=
  match txs with
  | [] => Some s
  | (t, o) :: r =>
      let '(s', res) := run_tx sh wired post c s t in
      if ((class_of res =? o_class o) && deltas_match s s' ws ds (o_deltas o) && accts_match s' (o_accts o)
          && execs_match s' (o_execs o) && marks_match s' (t_msgs t) (o_marks o))%bool
      then txs_match c ws ds s' r else None
  end.

(* the model on a ledger history; an operation that fails leaves the state unchanged (the
   harness runs each operation on a branch that is written back only on success) *)
Definition lop_run (c : fcfg) (s : st) (o : lop) : outcome st :=
  match o with
  | LPay p fee => deduct true s p fee
  | LRefund p amt => refund c s p amt
  | LExec ty p ok => Ok (set_exec s (s_exec s ++ [(ty, p, ok)]))
  | LEnd => end_block c s
  end.
Fixpoint ledger_match (c : fcfg) (ws ds : list string) (s : st) (ops : list (lop * lobs)) : option st :=
  match ops with
  | [] => Some s
  | (o, (cl, dl)) :: r =>
      match lop_run c s o with
      | Ok s' => if ((cl =? 0) && deltas_match s s' ws ds dl)%bool then ledger_match c ws ds s' r else None
      | Err _ => if ((cl =? 1) && is_nil dl)%bool then ledger_match c ws ds s r else None
      | Panic _ => if ((cl =? 3) && is_nil dl)%bool then ledger_match c ws ds s r else None
      end
  end.

(* the model priced against the ghost configuration; CheckTx / Simulate steps do not touch the
   deliver state and are not compared *)
Fixpoint trace_match (c : fcfg) (ws ds : list string) (s : st) (steps : list tstep) : bool :=
  match steps with
  | [] => true
  | ((mode, wr, t, o) as stp) :: r =>
      if mode =? 0 then
        match txs_match c ws ds s [(t, o)] with
        | Some s' => trace_match (ghost_cfg c stp) ws ds s' r
        | None => false
        end
      else trace_match c ws ds s r
  end.

Definition case_matches (k : c09_case) : bool :=
  match k with
  | CBlock c accts bals hists ws ds txs eo =>
      match txs_match c ws ds (init_st accts bals hists) txs with
      | None => false
      | Some s =>
          match end_block c s with
          | Ok s' => ((e_class eo =? 0) && deltas_match s s' ws ds (e_deltas eo) && execs_match s' (e_execs eo)
                      && hists_match s' ws (e_hists eo))%bool
          | Err _ => false
          | Panic _ => e_class eo =? 3
          end
      end
  | CRefund ts hist amt coll class paid hist_after =>
      let c := mkCfg (mkFilt "ukex" (mkBW [] []) false false 1 1 [] 0) ts true 1 1 [] [] 0 in
      let s := mkSt (map (fun x => ((collector, fst x), snd x)) coll) [] [] [("r"%string, hist)] [] in
      match refund c s "r" amt with
      | Ok s' => ((class =? 0) && forallb (fun d => bal s' "r" d =? amt_of paid d) (denoms paid ++ denoms hist)
                  && coins_eqb (hist_of s' "r") hist_after)%bool
      | Err _ => class =? 1
      | Panic _ => class =? 3
      end
  | CTrace c accts bals ws ds steps => trace_match c ws ds (init_st accts bals []) steps
  | CLedger c bals ws ds ops hists_after =>
      match ledger_match c ws ds (mkSt bals [] [] [] []) ops with
      | Some s => hists_match s ws hists_after
      | None => false
      end
  end.
End Run.

Fixpoint mismatches_from (sh : shape) (w : wiring) (n : nat) (cs : list c09_case) : list nat :=
  match cs with [] => [] | k :: r => if case_matches sh w k then mismatches_from sh w (S n) r
                                     else n :: mismatches_from sh w (S n) r end.
Definition c09_mismatches (sh : shape) (w : wiring) (cs : list c09_case) : list nat := mismatches_from sh w 0 cs.

(* ---------------------------------------------------------------- (3) the property, on what the real code did *)
(* vocabulary of the property text, spelled out here (not the model's functions) *)
Definition spec_frozen (f : filt) (d : string) : bool :=
  (negb (String.eqb d (f_native f))
   && ((f_en_black f && existsb (String.eqb d) (bw_black (f_bw f)))
       || (f_en_white f && negb (existsb (String.eqb d) (bw_white (f_bw f))))))%bool.
Definition spec_token (c : fcfg) (d : string) : option token := find (fun t => String.eqb (t_denom t) d) (c_tokens c).
(* registered, fee-enabled, not frozen, foreign only while foreign fee payments are enabled *)
Definition spec_coin_ok (c : fcfg) (x : coin) : bool :=
  match spec_token c (fst x) with
  | Some t => (t_fee_enabled t && negb (spec_frozen (c_filt c) (fst x))
               && (String.eqb (fst x) (f_native (c_filt c)) || c_foreign c))%bool
  | None => false
  end.
(* value at the registered rates, in units of 10^-18 *)
Definition spec_value (c : fcfg) (fee : coins) : Z :=
  zsum (map (fun x => match spec_token c (fst x) with Some t => snd x * t_rate t | None => 0 end) fee).
(* sum over the messages of the larger of execution and failure fee *)
Definition spec_cover (c : fcfg) (ms : list msg) : Z :=
  zsum (map (fun m => match find (fun e => String.eqb (fst e) (msg_type m)) (c_exec c) with
                      | Some (_, (e, f)) => Z.max e f | None => 0 end) ms).
Definition first_signer (ms : list msg) : string := match ms with m :: _ => hd ""%string (msg_signers m) | [] => ""%string end.
(* who pays: the explicit fee payer if the transaction names one, else the first signer *)
Definition spec_payer (t : tx) : string := if String.eqb (t_payer t) "" then first_signer (t_msgs t) else t_payer t.
Definition all_signers (t : tx) : list string := flat_map msg_signers (t_msgs t) ++ [t_payer t].

(* expected balance change of (account, denom): fee out of the payer into the collector, and --
   only when every message succeeded -- the transfers the messages ask for *)
Definition sent_by (nat : string) (m : msg) : list (string * coins) :=
  match m with
  | MSend f _ a => [(f, a)] | MCustody f _ a _ => [(f, a)] | MMulti f inp _ => [(f, inp)] | MOther _ _ _ _ => []
  | MEth f _ v => [(f, [(nat, v)])]
  end.
(* a custody send of an account with custodians is parked in the custody pool, not executed *)
Definition parked (c : fcfg) (m : msg) : bool :=
  match m with
  | MCustody f _ _ _ => match find (fun e => String.eqb (fst e) f) (c_custody c) with
                        | Some (_, k) => (cu_enabled k && match cu_custodians k with Some n => 0 <? n | None => false end)%bool
                        | None => false end
  | _ => false
  end.
Definition sum_for (l : list (string * coins)) (a d : string) : Z :=
  zsum (map (fun x => if String.eqb (fst x) a then amt_of (snd x) d else 0) l).
Definition expected_delta (c : fcfg) (t : tx) (with_msgs : bool) (a d : string) : Z :=
  let nat := f_native (c_filt c) in
  let ms := filter (fun m => negb (parked c m)) (t_msgs t) in
  (if String.eqb a (spec_payer t) then - amt_of (t_fee t) d else 0)
  + (if String.eqb a collector then amt_of (t_fee t) d else 0)
  + (if with_msgs then sum_for (flat_map (transfers nat) ms) a d - sum_for (flat_map (sent_by nat) ms) a d else 0).

(* the admission bookkeeping that may persist for a transaction whose messages failed *)
Definition admission_key (t : tx) (k : string * string * string) : bool :=
  let '(kind, who, _) := k in
  ((String.eqb kind "bal" && (String.eqb who (spec_payer t) || String.eqb who collector))
   || (String.eqb kind "acct" && str_in who (all_signers t))
   || String.eqb kind "exec"
   || (String.eqb kind "hist" && String.eqb who (spec_payer t))
   || String.eqb kind "custody_limit")%bool.

Definition flag (b : bool) (name : string) : list string := if b then [] else [name].
Definition types_of (ms : list msg) : string := String.concat "," (map msg_type ms).

Definition tx_clauses (c : fcfg) (ws ds : list string) (prev : list (string * (Z * bool))) (t : tx) (o : tx_obs) : list string :=
  let ms := t_msgs t in
  let fee := t_fee t in
  if ((o_class o =? 0) || (o_class o =? 2) || (o_class o =? 4))%bool then
    let v := spec_value c fee in
    let cover := spec_cover c ms in
    flag (forallb (spec_coin_ok c) fee) "fee_denom"
    ++ flag ((c_min_fee c * PREC <=? v) && (v <=? c_max_fee c * PREC)) "fee_range"
    ++ flag (cover * PREC <=? v) (if two63 <=? cover then "fee_cover:execution-fee-sum>=2^63" else "fee_cover")
    ++ flag (forallb (fun k => lookup_bal (o_deltas o) k =? expected_delta c t (o_class o =? 0) (fst k) (snd k)) (pairs ws ds))
            (String.append (if o_class o =? 0 then "charge:delivered:" else "charge:failed:") (types_of ms))
    ++ flag (forallb (fun a => match lookup_str prev (fst a) with
                               | Some (q, _) => ((fst (snd a) =? q + 1) && snd (snd a))%bool
                               | None => false end) (o_accts o)) "sequence"
    ++ (if o_class o =? 0 then [] else flag (forallb (admission_key t) (o_diff o)) (String.append "trace:failed-message:" (types_of ms)))
  else
    flag (is_nil (o_deltas o) && is_nil (o_diff o))%bool "trace:rejected-tx".

Definition upd_accts (prev obs : list (string * (Z * bool))) : list (string * (Z * bool)) := obs ++ prev.

Fixpoint block_clauses (c : fcfg) (ws ds : list string) (prev : list (string * (Z * bool))) (txs : list (tx * tx_obs))
         (paid : list (string * Z)) : list string * list (string * Z) :=
  match txs with
  | [] => ([], paid)
  | (t, o) :: r =>
      let cl := tx_clauses c ws ds prev t o in
      let paid' := if ((o_class o =? 0) || (o_class o =? 2) || (o_class o =? 4))%bool then (spec_payer t, spec_value c (t_fee t)) :: paid else paid in
      let '(rest, p) := block_clauses c ws ds (upd_accts prev (o_accts o)) r paid' in
      (cl ++ rest, p)
  end.

(* refunds at the end of the block never exceed what the payer paid (value at registered rates),
   and the end of the block charges nobody *)
Definition end_clauses (c : fcfg) (ws ds : list string) (paid : list (string * Z)) (eo : end_obs) : list string :=
  flag (forallb (fun w =>
          if String.eqb w collector then true else
          let got := zsum (map (fun d => match spec_token c d with
                                         | Some t => lookup_bal (e_deltas eo) (w, d) * t_rate t | None => 0 end) ds) in
          let paidw := zsum (map (fun p => if String.eqb (fst p) w then snd p else 0) paid) in
          (forallb (fun d => 0 <=? lookup_bal (e_deltas eo) (w, d)) ds && (got <=? paidw))%bool) ws) "refund_le_paid".

(* GHOST LEDGER.  The checker keeps its own books per (payer, denomination): what the payer
   actually paid through the keeper (observed balance decrease of a payment that succeeded) and
   what it actually received back (observed balance increase on refunds and block ends).  It never
   looks at the payment history the keeper stores.  At every step of the history:
   cumulative refunds <= cumulative payments. *)
Definition ghost : Type := list ((string * string) * Z).
Definition ghost_add (g : ghost) (k : string * string) (v : Z) : ghost := (k, lookup_bal g k + v) :: g.
Definition ledger_step (ws ds : list string) (paid recv : ghost) (o : lop) (ob : lobs) : ghost * ghost :=
  let '(cl, dl) := ob in
  if negb (cl =? 0) then (paid, recv) else
  match o with
  | LPay p _ => (fold_left (fun g d => let x := lookup_bal dl (p, d) in if x <? 0 then ghost_add g (p, d) (- x) else g) ds paid, recv)
  | LExec _ _ _ => (paid, recv)
  | _ => (paid, fold_left (fun g k => if String.eqb (fst k) collector then g else
                                      let x := lookup_bal dl k in if 0 <? x then ghost_add g k x else g) (pairs ws ds) recv)
  end.
Fixpoint ledger_clauses (ws ds : list string) (paid recv : ghost) (ops : list (lop * lobs)) (i : nat) : list string :=
  match ops with
  | [] => []
  | (o, ob) :: r =>
      let '(paid', recv') := ledger_step ws ds paid recv o ob in
      if forallb (fun k => lookup_bal recv' k <=? lookup_bal paid' k) (pairs ws ds)
      then ledger_clauses ws ds paid' recv' r (S i)
      else [match o with
            | LEnd => "refund_le_paid:history:end-block-return-exceeds-cumulative-payments"
            | _ => "refund_le_paid:history:refund-exceeds-cumulative-payments" end]%string
  end.

(* every delivered transaction of a trace history is judged against the ghost configuration:
   configuration attempted by transactions that failed, or were only checked / simulated, must
   have left no trace *)
Fixpoint trace_clauses (c : fcfg) (ws ds : list string) (prev : list (string * (Z * bool))) (steps : list tstep) : list string :=
  match steps with
  | [] => []
  | ((mode, wr, t, o) as stp) :: r =>
      if mode =? 0 then
        map (fun cl => ("after-failed-or-unexecuted-configuration-write:" ++ cl)%string) (tx_clauses c ws ds prev t o)
        ++ trace_clauses (ghost_cfg c stp) ws ds (upd_accts prev (o_accts o)) r
      else trace_clauses c ws ds prev r
  end.

Definition case_clauses (k : c09_case) : list string :=
  match k with
  | CBlock c accts bals hists ws ds txs eo =>
      let '(cl, paid) := block_clauses c ws ds accts txs [] in
      cl ++ (if e_class eo =? 0 then end_clauses c ws ds paid eo else [])
  | CRefund ts hist amt coll class paid hist_after =>
      if class =? 0 then
        let value := fun cs : coins => zsum (map (fun x => match find (fun t => String.eqb (t_denom t) (fst x)) ts with
                                                           | Some t => snd x * t_rate t | None => 0 end) cs) in
        flag (forallb (fun d => amt_of paid d <=? amt_of hist d) (denoms paid) && (value paid <=? value amt))%bool "refund_le_paid:payback"
      else []
  | CTrace c accts bals ws ds steps => trace_clauses c ws ds accts steps
  | CLedger c bals ws ds ops _ => ledger_clauses ws ds [] [] ops 0
  end.

Fixpoint violations_from (n : nat) (cs : list c09_case) : list (nat * list string) :=
  match cs with [] => [] | k :: r =>
    match case_clauses k with [] => violations_from (S n) r | cl => (n, cl) :: violations_from (S n) r end end.
Definition c09_violations (cs : list c09_case) : list (nat * list string) := violations_from 0 cs.
