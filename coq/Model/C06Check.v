(* C06: observations of the real application at ABCI level, correspondence of the site models with
   what the real begin/end-blockers did, and the decidable spec checker applied to the REAL observations. *)
From Sekai Require Import Base.Prelude Base.Dec Model.Halt Gen.PanicSites.

(* result of one ABCI phase: completed, or a panic escaped (site = first sekai frame under the panic,
   cls = normalised message class) *)
Inductive phase_obs := PhOk | PhPanic (site cls : string).
(* one block: was the scheduled software upgrade due, BeginBlock, panics that escaped DeliverTx
   (baseapp recovers the others: those are failed transactions, not observations), EndBlock, Commit *)
Record blk := mkBlk { b_due : bool; b_begin : phase_obs; b_tx : list phase_obs; b_end : phase_obs; b_commit : phase_obs }.

(* inputs of one modelled site, read from the real state right before the EndBlock that consumed them *)
Inductive site :=
| SSpend (now : Z) (pools : list spool)                         (* spending EndBlocker *)
| SQuorum (due : bool) (q : dec) (votes voters : Z)             (* processProposal of a due proposal *)
| SPollQuorum (due : bool) (q : dec) (votes voters : Z)         (* processPoll of a due poll *)
| SWithdraw (due : bool) (modbal poolbal amt : Z) (nben : nat)  (* enactment of a passed Withdraw proposal *)
| SClaim (due : bool) (poolbal : Z) (rate w : dec) (cstart last now cend expiry : Z) (dyn : bool) (lastcalc : Z). (* Distribution, 1 beneficiary *)

Inductive c06_case :=
| CHist (kind : string) (blocks : list blk)
| CSite (kind : string) (s : site) (b : blk).

(* ---------------------------------------------------------------- model vs. observation *)
Definition predicted (s : site) : option string :=   (* None = EndBlock completes; Some cls = panics with class *)
  let cls {A} (o : outcome A) := match o with Panic c => Some c | _ => None end in
  match s with
  | SSpend now pools => cls (spend_endblock spend_endblock_guarded now pools)   (* flag regenerated from the tree *)
  | SQuorum due q votes voters => if due then cls (process_quorum_on gov_proposal_quorum_error_panics q votes voters) else None
  | SPollQuorum due q votes voters => if due then cls (process_quorum_on gov_poll_quorum_error_panics q votes voters) else None
  | SWithdraw due modbal poolbal amt nben =>
      if due then cls (apply_proposal (withdraw_handler_on withdraw_sub_unchecked nben amt) (modbal, poolbal)) else None
  | SClaim due poolbal rate w cstart last now cend expiry dyn lastcalc =>
      if due then cls (apply_proposal (fun pb => claim_dyn claim_sub_unchecked pb rate w cstart last now cend expiry dyn lastcalc) poolbal) else None
  end.
Definition obs_cls (p : phase_obs) : option string := match p with PhOk => None | PhPanic _ c => Some c end.
Definition ostr_eqb (a b : option string) : bool :=
  match a, b with Some x, Some y => String.eqb x y | None, None => true | _, _ => false end.
Definition case_matches (c : c06_case) : bool :=
  match c with
  | CHist _ _ => true
  | CSite _ s b => ostr_eqb (predicted s) (obs_cls b.(b_end))
  end.
Fixpoint mismatches_from (n : nat) (cs : list c06_case) : list nat :=
  match cs with [] => [] | c :: r => if case_matches c then mismatches_from (S n) r else n :: mismatches_from (S n) r end.
Definition c06_mismatches (cs : list c06_case) : list nat := mismatches_from 0 cs.

(* ---------------------------------------------------------------- the property, on what the real code did.
   "block begin, transaction delivery, block end and commit complete without crashing; the scheduled
   software-upgrade halt is the only deliberate stop".  Written from the property text: it looks only at
   the observed phases, never at the models above. *)
Definition sanctioned (b : blk) (p : phase_obs) : bool :=
  match p with
  | PhOk => true
  | PhPanic site cls =>
      b.(b_due) && (String.eqb cls "upgrade-needed" || String.eqb cls "upgrade-handler-missing")
      && String.eqb site "x.upgrade.keeper.Keeper.ApplyUpgradePlan"
  end.
Definition clause (phase : string) (p : phase_obs) : list string :=
  match p with PhOk => [] | PhPanic site cls => [("panic:" ++ phase ++ ":" ++ site ++ ":" ++ cls)%string] end.
Definition blk_clauses (b : blk) : list string :=
  (if sanctioned b b.(b_begin) then [] else clause "BeginBlock" b.(b_begin))
  ++ flat_map (clause "DeliverTx") b.(b_tx)
  ++ clause "EndBlock" b.(b_end) ++ clause "Commit" b.(b_commit).
Definition case_clauses (c : c06_case) : list string :=
  match c with
  | CHist _ bs => flat_map blk_clauses bs
  | CSite _ _ b => blk_clauses b          (* the earlier blocks of the history are clean by construction: the harness stops at the first escape *)
  end.
Fixpoint violations_from (n : nat) (cs : list c06_case) : list (nat * list string) :=
  match cs with [] => [] | c :: r =>
    match case_clauses c with [] => violations_from (S n) r | cl => (n, cl) :: violations_from (S n) r end end.
Definition c06_violations (cs : list c06_case) : list (nat * list string) := violations_from 0 cs.

(* a run of the models seen through the same observation type (used by the chk_sound lemma):
   a block whose begin / end steps are the given model outcomes *)
Definition obs_of {A} (site : string) (o : outcome A) : phase_obs :=
  match o with Panic c => PhPanic site c | _ => PhOk end.
