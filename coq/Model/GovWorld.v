(* Concrete instance of the parameters of Model/Gov.v used by the differential run (C08):
   the part of the gov state that the proposal lifecycle reads (seven network properties, the
   actors with their individual permission whitelist, proposal durations) plus a data registry,
   the five probe proposal contents with their handlers (x/gov/proposal_handler.go), and the
   direct state edits ("other things happening on the chain") used by the harness. *)
From Sekai Require Import Base.Prelude Base.Dec Model.Gov.

(* NetworkActor: status, vote options (only "may veto" matters), individual permission whitelist and
   blacklist, assigned roles (all lists sorted) *)
Record actor := mkA { a_active : bool; a_veto : bool; a_wl : list Z; a_bl : list Z; a_roles : list Z }.
(* permissions of a role *)
Record role := mkRole { r_wl : list Z; r_bl : list Z }.
Record np := mkNP { n_mintx : Z; n_maxtx : Z; n_quorum : Z; n_endtime : Z; n_enact : Z;
                    n_endblocks : Z; n_enactblocks : Z }.
Definition NDUR : nat := 8.   (* proposal type codes 1..8 *)
Definition NREG : nat := 4.   (* registry key codes 1..4 *)
(* one spending pool ("probe1"): only what the dynamic-voter proposal lifecycle reads *)
Record pool := mkPool { pl_owners : list Z; pl_quorum : Z; pl_period : Z; pl_enact : Z }.
Record world := mkW { w_np : np; w_actors : list (Z * actor) (* sorted by id *);
                      w_durs : list Z; w_reg : list Z; w_pool : option pool;
                      w_roles : list (Z * role) (* sorted by id; the roles the harness uses *) }.

(* ---- canonical containers *)
Fixpoint ins_sorted (x : Z) (l : list Z) : list Z :=
  match l with [] => [x] | y :: r => if x =? y then l else if x <? y then x :: l else y :: ins_sorted x r end.
Definition mem (x : Z) (l : list Z) : bool := existsb (Z.eqb x) l.
Definition del (x : Z) (l : list Z) : list Z := filter (fun y => negb (y =? x)) l.
Fixpoint set_nth (n : nat) (v : Z) (l : list Z) : list Z :=
  match l, n with
  | [], _ => []
  | _ :: r, O => v :: r
  | x :: r, S k => x :: set_nth k v r
  end.
Definition get_ix (code : Z) (l : list Z) : Z := nth (Z.to_nat (code - 1)) l 0.
Definition set_ix (code v : Z) (l : list Z) : list Z :=
  if (1 <=? code) then set_nth (Z.to_nat (code - 1)) v l else l.

Fixpoint get_actor (who : Z) (l : list (Z * actor)) : option actor :=
  match l with [] => None | (k, a) :: r => if k =? who then Some a else get_actor who r end.
Fixpoint put_actor (who : Z) (a : actor) (l : list (Z * actor)) : list (Z * actor) :=
  match l with
  | [] => [(who, a)]
  | (k, b) :: r => if k =? who then (who, a) :: r else if who <? k then (who, a) :: l else (k, b) :: put_actor who a r
  end.
(* types.NewDefaultActor: active, all four vote options, no permissions *)
Definition default_actor : actor := mkA true true [] [] [].
Definition set_wl (a : actor) (l : list Z) : actor := mkA (a_active a) (a_veto a) l (a_bl a) (a_roles a).
Definition set_bl (a : actor) (l : list Z) : actor := mkA (a_active a) (a_veto a) (a_wl a) l (a_roles a).
Definition set_roles (a : actor) (l : list Z) : actor := mkA (a_active a) (a_veto a) (a_wl a) (a_bl a) l.
Fixpoint get_role (r : Z) (l : list (Z * role)) : option role :=
  match l with [] => None | (k, x) :: t => if k =? r then Some x else get_role r t end.
Fixpoint put_role (r : Z) (x : role) (l : list (Z * role)) : list (Z * role) :=
  match l with
  | [] => [(r, x)]
  | (k, y) :: t => if k =? r then (r, x) :: t else if r <? k then (r, x) :: l else (k, y) :: put_role r x t
  end.

(* ---- network properties (x/gov/keeper/keeper.go: Get/SetNetworkProperty, ValidateNetworkProperties;
   only the fields that vary in the generated histories; all others keep their valid defaults) *)
Definition np_get (pid : Z) (n : np) : option Z :=
  match pid with
  | 0 => Some (n_mintx n) | 1 => Some (n_maxtx n) | 2 => Some (n_quorum n) | 3 => Some (n_endtime n)
  | 4 => Some (n_enact n) | 5 => Some (n_endblocks n) | 6 => Some (n_enactblocks n) | _ => None end.
Definition np_put (pid v : Z) (n : np) : option np :=
  match pid with
  | 0 => Some (mkNP v (n_maxtx n) (n_quorum n) (n_endtime n) (n_enact n) (n_endblocks n) (n_enactblocks n))
  | 1 => Some (mkNP (n_mintx n) v (n_quorum n) (n_endtime n) (n_enact n) (n_endblocks n) (n_enactblocks n))
  | 2 => Some (mkNP (n_mintx n) (n_maxtx n) v (n_endtime n) (n_enact n) (n_endblocks n) (n_enactblocks n))
  | 3 => Some (mkNP (n_mintx n) (n_maxtx n) (n_quorum n) v (n_enact n) (n_endblocks n) (n_enactblocks n))
  | 4 => Some (mkNP (n_mintx n) (n_maxtx n) (n_quorum n) (n_endtime n) v (n_endblocks n) (n_enactblocks n))
  | 5 => Some (mkNP (n_mintx n) (n_maxtx n) (n_quorum n) (n_endtime n) (n_enact n) v (n_enactblocks n))
  | 6 => Some (mkNP (n_mintx n) (n_maxtx n) (n_quorum n) (n_endtime n) (n_enact n) (n_endblocks n) v)
  | _ => None end.
Definition np_valid (n : np) : bool :=
  negb (n_mintx n =? 0) && negb (n_maxtx n =? 0) && (n_mintx n <=? n_maxtx n)
  && (0 <=? n_quorum n) && (n_quorum n <=? PREC)
  && negb (n_endtime n =? 0) && negb (n_enact n =? 0) && negb (n_endblocks n =? 0) && negb (n_enactblocks n =? 0).
(* keeper.SetNetworkProperty: write the field, validate the whole record, store *)
Definition np_set (pid v : Z) (n : np) : option np :=
  match np_put pid v n with Some n' => if np_valid n' then Some n' else None | None => None end.

(* ---- proposal contents *)
Inductive ccontent :=
| CSetProp (pid v : Z)                (* SetNetworkPropertyProposal *)
| CRegistry (key hash : Z)            (* UpsertDataRegistryProposal *)
| CWhitelist (who perm : Z)           (* WhitelistAccountPermissionProposal *)
| CUnwhitelist (who perm : Z)         (* RemoveWhitelistedAccountPermissionProposal *)
| CDurations (l : list (Z * Z))       (* SetProposalDurationsProposal: (type code, seconds) *)
| CPoolUpdate (name : Z) (owners : list Z) (q period enact : Z).
   (* spending UpdateSpendingPoolProposal: proposal and vote permission are PermZero, i.e. the voters,
      quorum, voting period and enactment period come from the pool (dynamic-voter proposal);
      pool name code 1 = "probe1", anything else = a pool that does not exist *)

Definition ptype (c : ccontent) : Z :=
  match c with CSetProp _ _ => 1 | CRegistry _ _ => 2 | CWhitelist _ _ => 3 | CUnwhitelist _ _ => 4 | CDurations _ => 5 | CPoolUpdate _ _ _ _ _ => 6 end.
Definition prop_perm (c : ccontent) : Z :=
  match c with CSetProp _ _ => 12 | CRegistry _ _ => 10 | CWhitelist _ _ => 4 | CUnwhitelist _ _ => 35 | CDurations _ => 31 | CPoolUpdate _ _ _ _ _ => 0 end.
Definition vote_perm (c : ccontent) : Z :=
  match c with CSetProp _ _ => 13 | CRegistry _ _ => 11 | CWhitelist _ _ => 5 | CUnwhitelist _ _ => 36 | CDurations _ => 32 | CPoolUpdate _ _ _ _ _ => 0 end.

(* Content.ValidateBasic (SetNetworkProperty: MinProposalEndBlocks / MinProposalEnactmentBlocks
   are not in its list of allowed identifiers) *)
Definition valid_basic (c : ccontent) : bool :=
  match c with
  | CSetProp pid _ => (0 <=? pid) && (pid <=? 4)
  | CDurations l => negb (Nat.eqb (List.length l) 0) && forallb (fun e => negb (snd e =? 0)) l
  | CPoolUpdate _ _ q _ _ => (0 <=? q) && (q <=? PREC)      (* vote quorum is a fraction *)
  | _ => true end.

(* ---- oracles *)
(* permissions through roles *)
Definition via_roles (rs : list (Z * role)) (a : actor) (sel : role -> list Z) (perm : Z) : bool :=
  existsb (fun r => match get_role r rs with Some ro => mem perm (sel ro) | None => false end) (a_roles a).
(* holder of a permission: individually whitelisted or through a role that whitelists it *)
Definition holder (rs : list (Z * role)) (perm : Z) (a : actor) : bool := mem perm (a_wl a) || via_roles rs a r_wl perm.
(* keeper/util.go CheckIfAllowedPermission: whitelists of roles and actor, minus blacklists of roles and actor *)
Definition w_has_perm (w : world) (who perm : Z) : bool :=
  match get_actor who (w_actors w) with
  | Some a => holder (w_roles w) perm a && negb (mem perm (a_bl a) || via_roles (w_roles w) a r_bl perm)
  | None => false end.
Definition w_is_active (w : world) (who : Z) : bool :=
  match get_actor who (w_actors w) with Some a => a_active a | None => false end.
(* GetNetworkActorsByAbsoluteWhitelistPermission: by individual whitelist or by role, blacklists and status ignored *)
Definition w_voters (w : world) (perm : Z) : list (Z * actor) :=
  filter (fun ka => holder (w_roles w) perm (snd ka)) (w_actors w).
(* the pool a dynamic-voter content refers to *)
Definition pool_of (w : world) (c : ccontent) : option pool :=
  match c with CPoolUpdate 1 _ _ _ _ => w_pool w | _ => None end.
Fixpoint nodup_z (l : list Z) : list Z :=
  match l with [] => [] | x :: r => if mem x r then nodup_z r else x :: nodup_z r end.
(* spending keeper IsAllowedAddress / AllowedAddresses on the pool's owner accounts (no owner roles) *)
Definition pool_allowed (w : world) (who : Z) (c : ccontent) : bool :=
  match pool_of w c with Some p => mem who (pl_owners p) | None => false end.
Definition w_can (w : world) (who perm : Z) (c : ccontent) : bool :=
  if perm =? 0 then pool_allowed w who c else w_has_perm w who perm.
(* processProposal: holders of the vote permission; for PermZero the router's allowed addresses,
   and 1 when there are none *)
Definition w_nvoters (w : world) (c : ccontent) : Z :=
  if vote_perm c =? 0 then
    let n := match pool_of w c with Some p => Z.of_nat (List.length (nodup_z (pl_owners p))) | None => 0 end in
    if n =? 0 then 1 else n
  else Z.of_nat (List.length (w_voters w (vote_perm c))).
(* veto-capable voters: taken from the holders of the vote permission ALSO for PermZero, unless the
   tree rebuilds them from the allowed addresses (Gen/GovHandlers.v, [dynamic_veto_from_allowed]) *)
Definition w_nveto (dyn_allowed : bool) (w : world) (c : ccontent) : Z :=
  if dyn_allowed && (vote_perm c =? 0) then
    (* repaired shape: availableVoters rebuilt from the allowed addresses that are network actors *)
    Z.of_nat (List.length (filter (fun o => match get_actor o (w_actors w) with Some a => a_veto a | None => false end)
                                  (match pool_of w c with Some p => nodup_z (pl_owners p) | None => [] end)))
  else Z.of_nat (List.length (filter (fun ka => a_veto (snd ka)) (w_voters w (vote_perm c)))).
Definition w_quorum (w : world) (c : ccontent) : Z :=
  if vote_perm c =? 0 then match pool_of w c with Some p => pl_quorum p | None => 0 end else n_quorum (w_np w).
Definition w_end_secs (w : world) (c : ccontent) : Z :=
  if vote_perm c =? 0 then match pool_of w c with Some p => pl_period p | None => 0 end
  else let d := get_ix (ptype c) (w_durs w) in if d <? n_endtime (w_np w) then n_endtime (w_np w) else d.
Definition w_enact_secs (w : world) (c : ccontent) : Z :=
  if vote_perm c =? 0 then match pool_of w c with Some p => pl_enact p | None => 0 end else n_enact (w_np w).

(* ---- handlers *)
Definition with_np (w : world) (n : np) : world := mkW n (w_actors w) (w_durs w) (w_reg w) (w_pool w) (w_roles w).
Definition with_actors (w : world) (l : list (Z * actor)) : world := mkW (w_np w) l (w_durs w) (w_reg w) (w_pool w) (w_roles w).
Definition with_durs (w : world) (l : list Z) : world := mkW (w_np w) (w_actors w) l (w_reg w) (w_pool w) (w_roles w).
Definition with_reg (w : world) (l : list Z) : world := mkW (w_np w) (w_actors w) (w_durs w) l (w_pool w) (w_roles w).
Definition with_pool (w : world) (p : option pool) : world := mkW (w_np w) (w_actors w) (w_durs w) (w_reg w) p (w_roles w).
Definition with_roles (w : world) (l : list (Z * role)) : world := mkW (w_np w) (w_actors w) (w_durs w) (w_reg w) (w_pool w) l.

Definition whitelist (who perm : Z) (w : world) : outcome world :=
  let a := match get_actor who (w_actors w) with Some a => a | None => default_actor end in
  if mem perm (a_wl a) then Err "permission already whitelisted"
  else if mem perm (a_bl a) then Err "permission is blacklisted"
  else Ok (with_actors w (put_actor who (set_wl a (ins_sorted perm (a_wl a))) (w_actors w))).
Definition unwhitelist (who perm : Z) (w : world) : outcome world :=
  match get_actor who (w_actors w) with
  | None => Err "permission is not whitelisted"
  | Some a => if mem perm (a_wl a)
              then Ok (with_actors w (put_actor who (set_wl a (del perm (a_wl a))) (w_actors w)))
              else Err "whitelisted permission does not exist"
  end.
(* keeper.SetProposalDuration *)
Definition set_duration (ty d : Z) (w : world) : option world :=
  if d <? n_endtime (w_np w) then None else Some (with_durs w (set_ix ty d (w_durs w))).
(* SetProposalDurationsProposalHandler.Apply: what happens on the first failing entry is read from
   the source on every run (Gen/GovHandlers.v, [durations_error_returned]): either the error is
   returned, or the handler returns nil (sic) and keeps the entries written before it *)
Fixpoint apply_durations (ret_err : bool) (l : list (Z * Z)) (w : world) : outcome world :=
  match l with
  | [] => Ok w
  | (ty, d) :: r => match set_duration ty d w with
                    | Some w' => apply_durations ret_err r w'
                    | None => if ret_err then Err "duration should be longer than minimum proposal duration" else Ok w end
  end.

Definition c_handler (ret_err : bool) (c : ccontent) (w : world) : outcome world :=
  match c with
  | CSetProp pid v =>
      match np_get pid (w_np w) with
      | None => Err "invalid network property"
      | Some cur => if cur =? v then Err "network property already set as proposed value"
                    else match np_set pid v (w_np w) with Some n => Ok (with_np w n) | None => Err "invalid network properties" end
      end
  | CRegistry key hash =>
      (* harness probe (harness/cmd/c08, wrapper around the real handler): an upsert with hash code 9
         fails AFTER the real handler wrote, when registry key 4 was already present *)
      if (hash =? 9) && negb (get_ix 4 (w_reg w) =? 0) then Err "probe: failing after write"
      else Ok (with_reg w (set_ix key hash (w_reg w)))
  | CWhitelist who perm => whitelist who perm w
  | CUnwhitelist who perm => unwhitelist who perm w
  | CDurations l => apply_durations ret_err l w
  | CPoolUpdate name owners q period enact =>
      match pool_of w c with
      | Some _ => Ok (with_pool w (Some (mkPool owners q period enact)))
      | None => Err "pool does not exist" end
  end.

(* ---- direct edits made by the harness between messages (keeper calls; failures change nothing) *)
Inductive cext :=
| XWhitelist (who perm : Z)
| XUnwhitelist (who perm : Z)
| XSetActive (who : Z) (b : bool)
| XSetVeto (who : Z) (b : bool)
| XSetNP (pid v : Z)
| XSetDur (ty d : Z)
| XBlacklist (who perm : Z)          (* keeper.AddBlacklistPermission *)
| XUnblacklist (who perm : Z)        (* keeper.RemoveBlacklistedPermission *)
| XAssignRole (who r : Z)            (* keeper.AssignRoleToAccount (MsgAssignRole / assign-role proposal) *)
| XUnassignRole (who r : Z)          (* keeper.UnassignRoleFromAccount (MsgUnassignRole / unassign-role proposal) *)
| XRoleWl (r perm : Z) (add : bool)  (* keeper.WhitelistRolePermission / RemoveWhitelistRolePermission *)
| XRoleBl (r perm : Z) (add : bool). (* keeper.BlacklistRolePermission / RemoveBlacklistRolePermission *)

Definition c_ext (e : cext) (w : world) : world :=
  match e with
  | XWhitelist who perm => match whitelist who perm w with Ok w' => w' | _ => w end
  | XUnwhitelist who perm => match unwhitelist who perm w with Ok w' => w' | _ => w end
  | XSetActive who b => match get_actor who (w_actors w) with
                        | Some a => with_actors w (put_actor who (mkA b (a_veto a) (a_wl a) (a_bl a) (a_roles a)) (w_actors w)) | None => w end
  | XSetVeto who b => match get_actor who (w_actors w) with
                      | Some a => with_actors w (put_actor who (mkA (a_active a) b (a_wl a) (a_bl a) (a_roles a)) (w_actors w)) | None => w end
  | XSetNP pid v => match np_set pid v (w_np w) with Some n => with_np w n | None => w end
  | XSetDur ty d => match set_duration ty d w with Some w' => w' | None => w end
  | XBlacklist who perm =>
      let a := match get_actor who (w_actors w) with Some a => a | None => default_actor end in
      if mem perm (a_wl a) || mem perm (a_bl a) then w
      else with_actors w (put_actor who (set_bl a (ins_sorted perm (a_bl a))) (w_actors w))
  | XUnblacklist who perm =>
      match get_actor who (w_actors w) with
      | Some a => if mem perm (a_bl a) then with_actors w (put_actor who (set_bl a (del perm (a_bl a))) (w_actors w)) else w
      | None => w end
  | XAssignRole who r =>
      match get_role r (w_roles w) with
      | None => w
      | Some _ => let a := match get_actor who (w_actors w) with Some a => a | None => default_actor end in
                  if mem r (a_roles a) then w
                  else with_actors w (put_actor who (set_roles a (ins_sorted r (a_roles a))) (w_actors w))
      end
  | XUnassignRole who r =>
      match get_role r (w_roles w), get_actor who (w_actors w) with
      | Some _, Some a => if mem r (a_roles a) then with_actors w (put_actor who (set_roles a (del r (a_roles a))) (w_actors w)) else w
      | _, _ => w end
  | XRoleWl r perm add =>
      match get_role r (w_roles w) with
      | None => w
      | Some ro => if add then (if mem perm (r_wl ro) || mem perm (r_bl ro) then w
                                else with_roles w (put_role r (mkRole (ins_sorted perm (r_wl ro)) (r_bl ro)) (w_roles w)))
                   else (if mem perm (r_wl ro) then with_roles w (put_role r (mkRole (del perm (r_wl ro)) (r_bl ro)) (w_roles w)) else w)
      end
  | XRoleBl r perm add =>
      match get_role r (w_roles w) with
      | None => w
      | Some ro => if add then (if mem perm (r_wl ro) || mem perm (r_bl ro) then w
                                else with_roles w (put_role r (mkRole (r_wl ro) (ins_sorted perm (r_bl ro))) (w_roles w)))
                   else (if mem perm (r_bl ro) then with_roles w (put_role r (mkRole (r_wl ro) (del perm (r_bl ro))) (w_roles w)) else w)
      end
  end.

(* ---- x/recovery RotateRecoveryAddress, gov part: the network actor record (status, vote options,
   permissions and their index keys) moves from the old to the new address; spending-pool owner
   accounts are NOT renamed.  (The harness rotates only to addresses that have no actor record.) *)
Definition c_rotate (old new : Z) (w : world) : world :=
  match get_actor old (w_actors w) with
  | Some a => with_actors w (put_actor new a (filter (fun ka => negb (fst ka =? old)) (w_actors w)))
  | None => w end.

(* ---- the instantiated lifecycle *)
Definition cstate := state world ccontent.
Definition cop := op ccontent cext.
(* block times are in nanoseconds (Go time.Time); the configured periods are whole seconds *)
Definition NS : Z := 1000000000.

Record cflags := mkF { f_dur_err : bool;        (* durations handler returns the keeper error *)
                       f_quorum_panics : bool;  (* IsQuorum error => panic *)
                       f_dyn_veto : bool }.     (* dynamic-voter proposals: veto-capable voters from the allowed addresses *)
Definition c_params (f : cflags) (dec : tally -> vresult) : params world ccontent cext :=
  mkParams world ccontent cext valid_basic
       (fun w who c => w_can w who (prop_perm c) c) w_is_active
       (fun w who c => w_can w who (vote_perm c) c) w_nvoters (w_nveto (f_dyn_veto f))
       w_quorum (fun w c => NS * w_end_secs w c) (fun w c => NS * w_enact_secs w c)
       (fun w => n_endblocks (w_np w)) (fun w => n_enactblocks (w_np w)) (c_handler (f_dur_err f)) c_ext c_rotate dec (f_quorum_panics f).
Definition c_step (f : cflags) (dec : tally -> vresult) : ctx -> cop -> cstate -> outcome cstate :=
  step world ccontent cext (c_params f dec).
