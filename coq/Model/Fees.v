(* C09 -- fee admission, fee deduction, runTx cache layering, execution-fee registration and
   end-of-block return, as total functions.  Definitions only.  Sources:
     app/ante/ante.go                  NewAnteHandler (chain order), ValidateFeeRangeDecorator,
                                       ExecutionFeeRegistrationDecorator
     app/ante/sigverify.go             SetPubKeyDecorator, SigVerificationDecorator (sequence check)
     cosmos-sdk x/auth/ante/fee.go     DeductFeeDecorator / DeductFees        (modelled, trusted)
     cosmos-sdk baseapp runTx          ante branch / message branch           (modelled, trusted)
     cosmos-sdk x/bank keeper          SendCoins, InputOutputCoins            (modelled, trusted)
     x/feeprocessing/keeper/keeper.go  AddExecutionStart, ProcessExecutionFeeReturn,
                                       SendCoinsFromModuleToAccount (pay-back loop), payment history
     x/tokens/keeper/token_info.go     GetTokenInfo *)
From Sekai Require Import Base.Prelude Base.Dec Model.Filters.

(* ---------------------------------------------------------------- configuration *)
Record token : Type := mkToken { t_denom : string; t_rate : Z (* sdk.Dec, scaled 10^18 *); t_fee_enabled : bool }.
Fixpoint find_token (ts : list token) (d : string) : option token :=
  match ts with [] => None | t :: r => if String.eqb (t_denom t) d then Some t else find_token r d end.

(* custody settings of an account, as far as the ante handler and custody Send look at them
   (UsePassword / UseWhiteList / UseLimits are off) *)
Record cust : Type := mkCust { cu_enabled : bool; cu_custodians : option Z (* None: no custodians record *) }.

Record fcfg : Type := mkCfg {
  c_filt : filt;
  c_tokens : list token;                     (* tokens registry *)
  c_foreign : bool;                          (* EnableForeignFeePayments *)
  c_min_fee : Z;                             (* MinTxFee  (uint64) *)
  c_max_fee : Z;                             (* MaxTxFee  (uint64) *)
  c_exec : list (string * (Z * Z));          (* msg type -> (ExecutionFee, FailureFee), uint64 *)
  c_custody : list (string * cust);          (* accounts that have a custody record *)
  c_min_reward : Z                           (* MinCustodyReward (uint64) *)
}.
Fixpoint find_exec (l : list (string * (Z * Z))) (ty : string) : option (Z * Z) :=
  match l with [] => None | (k, v) :: r => if String.eqb k ty then Some v else find_exec r ty end.

Definition dadd (a b : Z) : outcome Z := let r := a + b in if dec_in_range r then Ok r else Panic "Int overflow".

(* ---------------------------------------------------------------- ValidateFeeRangeDecorator *)
Fixpoint fee_loop (c : fcfg) (fee : coins) (acc : Z) : outcome Z :=
  match fee with
  | [] => Ok acc
  | (d, a) :: r =>
      if (negb (c_foreign c) && negb (String.eqb d (f_native (c_filt c))))%bool
      then Err "foreign fee payments is disabled by governance"
      else match find_token (c_tokens c) d with
           | None => Err "currency you are trying to use was not whitelisted as fee payment"
           | Some t =>
               if negb (t_fee_enabled t) then Err "currency you are trying to use was not whitelisted as fee payment"
               else if frozen (c_filt c) d then Err "currency you are trying to use as fee is frozen"
               else do v <- dmul (dec_of_int a) (t_rate t);
                    do acc' <- dadd acc v;
                    fee_loop c r acc'
           end
  end.

(* executionMaxFee += max(ExecutionFee, FailureFee) in uint64 arithmetic *)
Fixpoint exec_sum (c : fcfg) (ms : list msg) (acc : Z) : Z :=
  match ms with
  | [] => acc
  | m :: r => match find_exec (c_exec c) (msg_type m) with
              | None => exec_sum c r acc
              | Some (e, f) => exec_sum c r (wrap64 (acc + Z.max e f))
              end
  end.

Definition validate_fee (c : fcfg) (fee : coins) (ms : list msg) : outcome unit :=
  do v <- fee_loop c fee 0;
  let ex := exec_sum c ms 0 in
  (* sdk.NewDec(int64(properties.MinTxFee)) etc.: the uint64 is cast to int64 *)
  if ((v <? dec_of_int (as_int64 (c_min_fee c))) || (dec_of_int (as_int64 (c_max_fee c)) <? v))%bool
  then Err "fee is out of range"
  else if v <? dec_of_int (as_int64 ex) then Err "fee is less than max execution fee"
  else Ok tt.

(* ---------------------------------------------------------------- state *)
Record acct : Type := mkAcct { a_seq : Z; a_haspk : bool }.
Record st : Type := mkSt {
  s_bal : list ((string * string) * Z);      (* (account, denom) -> balance; first binding wins *)
  s_acct : list (string * acct);             (* existing accounts; first binding wins *)
  s_exec : list (string * string * bool);    (* feeprocessing execution-status list: (msg type, fee payer, success) *)
  s_hist : list (string * coins);            (* feeprocessing fee payment history by address *)
  s_marks : list string                      (* keys written by non-transfer messages *)
}.
Definition collector : string := "fee_collector".

Definition key2_eqb (a b : string * string) : bool := (String.eqb (fst a) (fst b) && String.eqb (snd a) (snd b))%bool.
Fixpoint lookup_bal (l : list ((string * string) * Z)) (k : string * string) : Z :=
  match l with [] => 0 | (k', v) :: r => if key2_eqb k' k then v else lookup_bal r k end.
Definition bal (s : st) (a d : string) : Z := lookup_bal (s_bal s) (a, d).
Fixpoint lookup_str {A} (l : list (string * A)) (k : string) : option A :=
  match l with [] => None | (k', v) :: r => if String.eqb k' k then Some v else lookup_str r k end.
Definition get_acct (s : st) (a : string) : option acct := lookup_str (s_acct s) a.
Definition has_acct (s : st) (a : string) : bool := match get_acct s a with Some _ => true | None => false end.
Definition hist_of (s : st) (a : string) : coins := match lookup_str (s_hist s) a with Some h => h | None => [] end.

Definition set_bal (s : st) (a d : string) (v : Z) : st :=
  mkSt (((a, d), v) :: s_bal s) (s_acct s) (s_exec s) (s_hist s) (s_marks s).
Definition set_acct (s : st) (a : string) (x : acct) : st :=
  mkSt (s_bal s) ((a, x) :: s_acct s) (s_exec s) (s_hist s) (s_marks s).
Definition set_exec (s : st) (e : list (string * string * bool)) : st :=
  mkSt (s_bal s) (s_acct s) e (s_hist s) (s_marks s).
Definition set_hist (s : st) (a : string) (h : coins) : st :=
  mkSt (s_bal s) (s_acct s) (s_exec s) ((a, h) :: s_hist s) (s_marks s).
Definition add_mark (s : st) (k : string) : st :=
  mkSt (s_bal s) (s_acct s) (s_exec s) (s_hist s) (k :: s_marks s).

(* ---------------------------------------------------------------- coins *)
Fixpoint amt_of (cs : coins) (d : string) : Z :=
  match cs with [] => 0 | (d', a) :: r => (if String.eqb d' d then a else 0) + amt_of r d end.
(* sdk.Coins.IsValid on well-formed denominations: strictly increasing denoms, positive amounts *)
Fixpoint coins_sorted (cs : coins) : bool :=
  match cs with
  | [] => true
  | (d, _) :: r => match r with [] => true | (d', _) :: _ => (String.ltb d d' && coins_sorted r)%bool end
  end.
Definition coins_valid (cs : coins) : bool := (forallb (fun c => 0 <? snd c) cs && coins_sorted cs)%bool.
Definition coins_zero (cs : coins) : bool := forallb (fun c => snd c =? 0) cs.
Fixpoint has_denom (cs : coins) (d : string) : bool :=
  match cs with [] => false | (d', _) :: r => (String.eqb d' d || has_denom r d)%bool end.
(* Coins.Add of one coin into a canonical list *)
Fixpoint bump_coin (cs : coins) (d : string) (x : Z) : coins :=
  match cs with [] => [] | (d', a) :: r => if String.eqb d' d then (d', a + x) :: r else (d', a) :: bump_coin r d x end.
Fixpoint insert_coin (cs : coins) (d : string) (x : Z) : coins :=
  match cs with [] => [(d, x)] | (d', a) :: r => if String.ltb d d' then (d, x) :: cs else (d', a) :: insert_coin r d x end.
Definition add_coin (cs : coins) (d : string) (x : Z) : coins :=
  if has_denom cs d then bump_coin cs d x else insert_coin cs d x.
Definition coins_plus (cs more : coins) : coins := fold_left (fun h c => add_coin h (fst c) (snd c)) more cs.
(* Coins.Sub: pointwise, zero entries dropped; a negative entry is the SDK's panic *)
Definition coins_minus_raw (cs less : coins) : coins := map (fun c => (fst c, snd c - amt_of less (fst c))) cs.
Definition coins_minus (cs less : coins) : outcome coins :=
  let r := coins_minus_raw cs less in
  if (existsb (fun c => snd c <? 0) r || negb (forallb (fun c => has_denom cs (fst c)) less))%bool
  then Panic "negative coin amount"
  else Ok (filter (fun c => negb (snd c =? 0)) r).

(* ---------------------------------------------------------------- bank *)
Fixpoint sub_coins (s : st) (a : string) (cs : coins) : outcome st :=
  match cs with
  | [] => Ok s
  | (d, x) :: r => if bal s a d <? x then Err "insufficient funds" else sub_coins (set_bal s a d (bal s a d - x)) a r
  end.
Fixpoint add_coins (s : st) (a : string) (cs : coins) : st :=
  match cs with [] => s | (d, x) :: r => add_coins (set_bal s a d (bal s a d + x)) a r end.
Definition ensure_acct (s : st) (a : string) : st := if has_acct s a then s else set_acct s a (mkAcct 0 false).
(* SendCoins: subUnlockedCoins, addCoins, create the recipient account if it does not exist *)
Definition bank_send (s : st) (from to : string) (cs : coins) : outcome st :=
  do s1 <- sub_coins s from cs; Ok (ensure_acct (add_coins s1 to cs) to).

(* ---------------------------------------------------------------- message handlers *)
Fixpoint lookup_cust (l : list (string * cust)) (a : string) : option cust :=
  match l with [] => None | (k, v) :: r => if String.eqb k a then Some v else lookup_cust r a end.

Definition run_msg (nat_ : string) (cu : list (string * cust)) (s : st) (m : msg) : outcome st :=
  match m with
  | MSend f t a => if String.eqb t collector then Err "blocked address" else bank_send s f t a
  | MCustody f t a _ =>
      if String.eqb t collector then Err "blocked address"
      else match lookup_cust cu f with
           | Some k => if cu_enabled k then
                         match cu_custodians k with
                         | None => Panic "nil pointer dereference"       (* len(custodians.Addresses) on a nil list *)
                         | Some n => if 0 <? n then Ok (add_mark s "custody_pool") else bank_send s f t a
                         end
                       else bank_send s f t a
           | None => bank_send s f t a
           end
  (* tokens EthereumTx NativeSend: SendCoins of one native coin, no blocked-address check;
     a zero amount is refused by the bank (invalid coins) *)
  | MEth f t v => if 0 <? v then bank_send s f t [(nat_, v)] else Err "invalid coins"
  | MMulti f inp outs =>
      if existsb (fun o => String.eqb (fst o) collector) outs then Err "blocked address"
      else do s1 <- sub_coins s f inp;
           Ok (fold_left (fun x o => ensure_acct (add_coins x (fst o) (snd o)) (fst o)) outs s1)
  | MOther _ _ fails k => if fails then Err "handler error" else Ok (add_mark s k)
  end.
Fixpoint run_msgs (nat_ : string) (cu : list (string * cust)) (s : st) (ms : list msg) : outcome st :=
  match ms with [] => Ok s | m :: r => do s' <- run_msg nat_ cu s m; run_msgs nat_ cu s' r end.

(* Msg.ValidateBasic of the structurally modelled messages *)
Definition msg_valid (m : msg) : bool :=
  match m with
  | MSend _ _ a => (negb (is_nil a) && coins_valid a)%bool
  | MCustody _ _ a _ => (negb (is_nil a) && coins_valid a)%bool
  | MMulti _ inp outs => (negb (is_nil inp) && coins_valid inp && negb (is_nil outs)
                          && forallb (fun o => negb (is_nil (snd o)) && coins_valid (snd o)) outs)%bool
  | MEth _ _ v => 0 <=? v
  | MOther _ ss _ _ => negb (is_nil ss)
  end.

(* ---------------------------------------------------------------- transactions, ante chain *)
Record tx : Type := mkTx {
  t_fee : coins;
  t_msgs : list msg;
  t_seqs : list Z;          (* the sequence each signer signed with, in signer order *)
  t_sig_ok : bool;          (* all signatures verify (crypto is an input of the model) *)
  t_payer : string;         (* AuthInfo.Fee.Payer; "" = none (the first signer pays) *)
  t_gas : Z;                (* gas limit *)
  t_granter : bool          (* AuthInfo.Fee.Granter set *)
}.
Fixpoint dedup_add (acc : list string) (l : list string) : list string :=
  match l with [] => acc | x :: r => if str_in x acc then dedup_add acc r else dedup_add (acc ++ [x]) r end.
(* Tx.GetSigners: signers of all messages in order of first appearance *)
Definition msgs_signers (ms : list msg) : list string := dedup_add [] (flat_map msg_signers ms).
(* Tx.GetSigners: message signers in order of first appearance, then the explicit fee payer *)
Definition tx_signers (t : tx) : list string :=
  dedup_add [] (flat_map msg_signers (t_msgs t) ++ (if String.eqb (t_payer t) "" then [] else [t_payer t])).
Definition payer_of (t : tx) : string :=
  if String.eqb (t_payer t) "" then hd ""%string (tx_signers t) else t_payer t.

Definition set_pubkeys (s : st) (signers : list string) : st :=
  fold_left (fun x a => match get_acct x a with
                        | Some ac => if a_haspk ac then x else set_acct x a (mkAcct (a_seq ac) true)
                        | None => x end) signers s.
Definition incr_seqs (s : st) (signers : list string) : st :=
  fold_left (fun x a => match get_acct x a with
                        | Some ac => set_acct x a (mkAcct (a_seq ac + 1) (a_haspk ac))
                        | None => x end) signers s.
Fixpoint seqs_match (s : st) (signers : list string) (seqs : list Z) : bool :=
  match signers, seqs with
  | [], [] => true
  | a :: r, q :: r' => (match get_acct s a with Some ac => a_seq ac =? q | None => false end && seqs_match s r r')%bool
  | _, _ => false
  end.

(* SDK DeductFeeDecorator.  [wired] = the bank keeper handed to NewAnteHandler is the
   feeprocessing keeper (which records the payment history); on the current tree it is the plain
   bank keeper, so [wired = false] (Gen/AnteChain.v). *)
Definition deduct (wired : bool) (s : st) (payer : string) (fee : coins) : outcome st :=
  if coins_zero fee then Ok s
  else if negb (coins_valid fee) then Err "invalid fee amount"
  else do s1 <- sub_coins s payer fee;
       let s2 := add_coins s1 collector fee in
       Ok (if wired then set_hist s2 payer (coins_plus (hist_of s2 payer) fee) else s2).

(* ExecutionFeeRegistrationDecorator: AddExecutionStart for every message that has a fee entry *)
Fixpoint register_execs (c : fcfg) (execs : list (string * string * bool)) (ms : list msg) : list (string * string * bool) :=
  match ms with
  | [] => execs
  | m :: r => match find_exec (c_exec c) (msg_type m) with
              | None => register_execs c execs r
              | Some _ => register_execs c (execs ++ [(msg_type m, hd ""%string (msg_signers m), false)]) r
              end
  end.

(* CustodyDecorator, for signers whose custody record has UseWhiteList = UseLimits = false:
   custody send needs a native reward of at least MinCustodyReward * #custodians; a bank send is
   refused when custodians exist.  A custody record without a custodians record is a nil
   dereference. *)
Definition custody_msg (c : fcfg) (m : msg) : outcome unit :=
  match lookup_cust (c_custody c) (hd ""%string (msg_signers m)) with
  | Some k =>
      if cu_enabled k then
        match m with
        | MCustody _ _ _ reward =>
            match cu_custodians k with
            | None => Panic "nil pointer dereference"
            | Some n =>
                match reward with
                | [] => Err "no reward"
                | (d, a) :: _ =>
                    if wrap64 a <? wrap64 (c_min_reward c * n) then Err "to small reward"
                    else if negb (String.eqb d (f_native (c_filt c))) then Err "wrong reward denom"
                    else Ok tt
                end
            end
        | MSend _ _ _ =>
            match cu_custodians k with
            | None => Panic "nil pointer dereference"
            | Some n => if 0 <? n then Err "Custody module is enabled. Please use custody send instead." else Ok tt
            end
        | _ => Ok tt
        end
      else Ok tt
  | None => Ok tt
  end.
Fixpoint custody_check (c : fcfg) (ms : list msg) : outcome unit :=
  match ms with [] => Ok tt | m :: r => do _ <- custody_msg c m; custody_check c r end.

(* the ante chain, in the order of NewAnteHandler. *)
Definition ante (sh : shape) (wired : bool) (c : fcfg) (s : st) (t : tx) : outcome st :=
  let ms := t_msgs t in
  let signers := tx_signers t in
  match signers with
  | [] => Err "no signers"
  | _ :: _ =>
      let payer := payer_of t in
      (* baseapp validateBasicTxMsgs *)
      if (is_nil ms || negb (forallb msg_valid ms))%bool then Err "validate basic"
      (* SetUpContextDecorator installs a gas meter with the transaction's limit; the first store
         read of CustodyDecorator (before ZeroGasMeterDecorator) exhausts a zero limit *)
      else if t_gas t <=? 0 then Err "out of gas"
      else
      do _ <- custody_check c ms;
      (* ValidateBasicDecorator *)
      if existsb (fun x => snd x <? 0) (t_fee t) then Err "invalid fee provided"
      else if negb (Nat.eqb (List.length (t_seqs t)) (List.length signers)) then Err "wrong number of signers"
      else
      do _ <- validate_fee c (t_fee t) ms;
      (* SetPubKeyDecorator *)
      if negb (forallb (has_acct s) signers) then Err "unknown address"
      else
      let s1 := set_pubkeys s signers in
      (* DeductFeeDecorator: positive gas, no fee grants *)
      if t_gas t <=? 0 then Err "must provide positive gas"
      else if t_granter t then Err "fee grants are not enabled"
      else
      do s2 <- deduct wired s1 payer (t_fee t);
      do _ <- poor_check sh (c_filt c) ms;
      do _ <- bw_loop sh (c_filt c) ms;
      let s3 := set_exec s2 (register_execs c (s_exec s2) ms) in
      (* SigVerificationDecorator, IncrementSequenceDecorator *)
      if negb (seqs_match s3 signers (t_seqs t)) then Err "account sequence mismatch"
      else if negb (t_sig_ok t) then Err "signature verification failed"
      else Ok (incr_seqs s3 signers)
  end.

(* ---------------------------------------------------------------- baseapp runTx *)
Inductive tx_result : Type := TxOk | TxAnteRejected | TxAntePanic | TxMsgFailed | TxMsgPanic.

(* posthandler ExecutionDecorator (only when a post handler is installed, [post = true]): for
   each message in order, stop at the first one without a fee entry; otherwise mark the first
   still-unsuccessful execution of that (type, first signer) successful *)
Fixpoint mark_one (execs : list (string * string * bool)) (ty payer : string) : list (string * string * bool) :=
  match execs with
  | [] => []
  | (t0, p0, ok) :: r =>
      if (String.eqb t0 ty && String.eqb p0 payer && negb ok)%bool then (t0, p0, true) :: r
      else (t0, p0, ok) :: mark_one r ty payer
  end.
Fixpoint mark_success (c : fcfg) (execs : list (string * string * bool)) (ms : list msg) : list (string * string * bool) :=
  match ms with
  | [] => execs
  | m :: r => match find_exec (c_exec c) (msg_type m) with
              | None => execs
              | Some _ => mark_success c (mark_one execs (msg_type m) (hd ""%string (msg_signers m))) r
              end
  end.

(* the ante handler runs on a branch of the state that is written back iff it succeeds; the
   messages (and then the post handler) run on a second branch written back iff every message
   succeeds *)
Definition run_tx (sh : shape) (wired post : bool) (c : fcfg) (s : st) (t : tx) : st * tx_result :=
  match ante sh wired c s t with
  | Ok s1 => match run_msgs (f_native (c_filt c)) (c_custody c) s1 (t_msgs t) with
             | Ok s2 => (if post then set_exec s2 (mark_success c (s_exec s2) (t_msgs t)) else s2, TxOk)
             | Err _ => (s1, TxMsgFailed)
             | Panic _ => (s1, TxMsgPanic)
             end
  | Err _ => (s, TxAnteRejected)
  | Panic _ => (s, TxAntePanic)
  end.

(* ---------------------------------------------------------------- end of block: fee return *)
Definition ediv (a b : Z) : Z := if 0 <? b then a / b else - (a / (- b)).   (* big.Int.Div (Euclidean) *)
Definition opt_cons {A} (o : option A) (l : list A) : list A := match o with Some x => x :: l | None => l end.

(* value of [amt] at the registered rates (unregistered denominations are skipped) *)
Fixpoint rate_value (ts : list token) (cs : coins) (acc : Z) : outcome Z :=
  match cs with
  | [] => Ok acc
  | (d, a) :: r => match find_token ts d with
                   | None => rate_value ts r acc
                   | Some t => do v <- dmul (t_rate t) (dec_of_int a); do acc' <- dadd acc v; rate_value ts r acc'
                   end
  end.

(* the loop of feeprocessing Keeper.SendCoinsFromModuleToAccount over the payment history *)
Fixpoint payback_loop (ts : list token) (hist : coins) (total filled : Z) : outcome coins :=
  match hist with
  | [] => Ok []
  | (d, a) :: r =>
      match find_token ts d with
      | None => payback_loop ts r total filled
      | Some t =>
          let tofill := total - filled in
          do fill <- dmul (t_rate t) (dec_of_int a);
          do step <- (if tofill <? fill then
                        if t_rate t =? 0 then Panic "division by zero"
                        else let q := as_int64 (ediv tofill (t_rate t)) in
                             if 0 <? q then do f <- dmul (t_rate t) (dec_of_int q); do fl <- dadd filled f; Ok (fl, Some (d, q))
                             else Ok (filled, None)
                      else do fl <- dadd filled fill; Ok (fl, Some (d, a)));
          let '(filled', entry) := step in
          if total =? filled' then Ok (opt_cons entry [])
          else do rest <- payback_loop ts r total filled'; Ok (opt_cons entry rest)
      end
  end.
Definition payback (ts : list token) (hist amt : coins) : outcome coins :=
  do total <- rate_value ts amt 0; payback_loop ts hist total 0.

(* SendCoinsFromModuleToAccount(fee collector -> recipient, amt) of the feeprocessing keeper *)
Definition refund (c : fcfg) (s : st) (recipient : string) (amt : coins) : outcome st :=
  do pb <- payback (c_tokens c) (hist_of s recipient) amt;
  do h' <- coins_minus (hist_of s recipient) pb;
  let s1 := set_hist s recipient h' in
  if String.eqb recipient collector then Err "blocked address"
  else do s2 <- sub_coins s1 collector pb; Ok (ensure_acct (add_coins s2 recipient pb) recipient).

(* ProcessExecutionFeeReturn: a successful execution is returned FailureFee - ExecutionFee, an
   unsuccessful one ExecutionFee - FailureFee, when positive (int64 cast of the uint64
   difference).  An error of the transfer is a panic of the end blocker. *)
Fixpoint process_returns (c : fcfg) (s : st) (execs : list (string * string * bool)) : outcome st :=
  match execs with
  | [] => Ok s
  | (ty, payer, ok) :: r =>
      match find_exec (c_exec c) ty with
      | None => process_returns c s r
      | Some (e, f) =>
          let amount := if (ok && (e <? f))%bool then as_int64 (f - e)
                        else if (negb ok && (f <? e))%bool then as_int64 (e - f) else 0 in
          if 0 <? amount then
            match refund c s payer [(f_native (c_filt c), amount)] with
            | Ok s' => process_returns c s' r
            | Err e => Panic e
            | Panic p => Panic p
            end
          else process_returns c s r
      end
  end.
Definition end_block (c : fcfg) (s : st) : outcome st :=
  do s' <- process_returns c s (s_exec s); Ok (set_exec s' []).
