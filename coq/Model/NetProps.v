(* Network properties: the write paths built on the generated per-identifier functions.
   x/gov/keeper/keeper.go SetNetworkProperty / SetNetworkProperties,
   x/gov/keeper/msg_server.go SetNetworkProperties, x/gov/proposal_handler.go
   ApplySetNetworkPropertyProposalHandler.Apply, x/gov/genesis.go InitGenesis. *)
From Sekai Require Import Base.Prelude Base.Dec Model.NetPropsLib Gen.NetProps.

(* keeper.SetNetworkProperty: per-identifier assignment, then the validating whole-record setter.
   [None] = an error was returned and the stored record is unchanged. *)
Definition set (recs : list (string * string)) (ps : props) (p : pid) (v : Z * string) : option props :=
  match set_raw recs ps p v with
  | None => None
  | Some ps' => if validate ps' then Some ps' else None
  end.

(* identifiers are uint32 on the wire; codes outside the enum hit the default arm *)
Definition set_code recs ps (code : Z) v : option props :=
  match pid_of_code code with None => None | Some p => set recs ps p v end.
Definition get_code ps (code : Z) : option (Z * string) :=
  match pid_of_code code with None => None | Some p => get ps p end.

(* keeper.SetNetworkProperties (whole record): message with permission, genesis *)
Definition set_all (ps new : props) : option props := if validate new then Some new else None.

(* msg server: gated by the change permission; [msg_unique_guard] (read from the source by the
   translator) says whether it also applies the two unique-keys guards of SetNetworkProperty
   before the whole-record write *)
Definition msg_set_all (allowed : bool) (recs : list (string * string)) (ps new : props) : option props :=
  if allowed then
    if msg_unique_guard then
      if negb (String.eqb (ensure_old_unique_keys_not_removed (f_UniqueIdentityKeys ps) (f_UniqueIdentityKeys new)) "") then None
      else if negb (String.eqb (ensure_unique_keys recs (f_UniqueIdentityKeys ps) (f_UniqueIdentityKeys new)) "") then None
      else set_all ps new
    else set_all ps new
  else None.

(* proposal Apply: reject when unreadable or already equal, else SetNetworkProperty *)
Definition value_eqb (a b : Z * string) : bool := ((fst a =? fst b) && String.eqb (snd a) (snd b))%bool.
Definition apply_proposal recs ps (code : Z) (v : Z * string) : option props :=
  match get_code ps code with
  | None => None
  | Some cur => if value_eqb cur v then None else set_code recs ps code v
  end.

(* how GetNetworkProperty renders a field *)
Definition render (f : fval) : Z * string :=
  match f with
  | FNum z => (z, "")
  | FBool b => (bool_to_int b, "")
  | FDec d => (0, odec_string d)
  | FStr s => (0, s)
  end%string.

(* [get] as "render the field [read_ix] names" -- proved equal to the generated [get] *)
Definition get_spec (ps : props) (p : pid) : option (Z * string) :=
  match read_ix p with
  | None => None
  | Some i => option_map render (nth_error (fields ps) i)
  end.

(* what a caller asks for: the field value that [v] denotes for identifier [p] *)
Definition requested (p : pid) (v : Z * string) : option fval :=
  match read_ix p with
  | None => None
  | Some i =>
    match nth_error field_kinds i with
    | Some KNum => Some (FNum (fst v))
    | Some KBool => Some (FBool (negb (fst v =? 0)))
    | Some KDec => option_map (fun d => FDec (Some d)) (dec_of_string (snd v))
    | Some KStr => Some (FStr (snd v))
    | None => None
    end
  end.

Definition pid_eqb (p q : pid) : bool := pid_code p =? pid_code q.

(* ---------------- histories: every write path, in any order.
   [recs] (the identity registry's records, another module's state) may differ at every step. *)
Inductive np_op : Type :=
| OpSet (recs : list (string * string)) (code : Z) (v : Z * string)        (* keeper.SetNetworkProperty *)
| OpProposal (recs : list (string * string)) (code : Z) (v : Z * string)   (* a passed proposal being applied *)
| OpMsg (allowed : bool) (recs : list (string * string)) (new : props).     (* MsgSetNetworkProperties *)

Definition np_apply (ps : props) (o : np_op) : option props :=
  match o with
  | OpSet recs code v => set_code recs ps code v
  | OpProposal recs code v => apply_proposal recs ps code v
  | OpMsg allowed recs new => msg_set_all allowed recs ps new
  end.
(* an error leaves the stored record as it was *)
Definition np_step (ps : props) (o : np_op) : props :=
  match np_apply ps o with Some ps' => ps' | None => ps end.
(* genesis: InitGenesis stores the given record through the validating setter and panics on an
   error ([genesis_error_handling], pinned) -- an invalid genesis record starts no chain *)
Definition np_genesis (g : props) : option props := set_all g g.
Definition np_run (g : props) (ops : list np_op) : option props :=
  option_map (fun s => fold_left np_step ops s) (np_genesis g).
