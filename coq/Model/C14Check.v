(* C14: observation type, correspondence (the real ante handler followed by the real message
   handlers, vs. the model), and the decidable spec checker applied to the REAL observations. *)
From Sekai Require Import Base.Prelude Base.Dec Model.Filters Model.Fees Model.C09Check.

(* one transaction through the real ante handler (and, when admitted, the real handlers) *)
Inductive c14_case : Type :=
| C14Tx (c : fcfg) (accts : list (string * (Z * bool))) (bals : list ((string * string) * Z))
        (watch dens : list string) (t : tx) (o : tx_obs)
(* the freeze lists of [c] are first changed by passed TokensWhiteBlackChange proposals applied
   through the real proposal handler (each paired with the black / white list read back from
   the keeper afterwards), then the transaction runs *)
| C14Gov (c : fcfg) (props : list (wbprop * (list string * list string)))
         (accts : list (string * (Z * bool))) (bals : list ((string * string) * Z))
         (watch dens : list string) (t : tx) (o : tx_obs).

Definition cfg_with_bw (c : fcfg) (t : bwlist) : fcfg :=
  mkCfg (with_bw (c_filt c) t) (c_tokens c) (c_foreign c) (c_min_fee c) (c_max_fee c) (c_exec c) (c_custody c) (c_min_reward c).
Definition strs_eqb (a b : list string) : bool := list_eqb String.eqb a b.
(* the model's lists after each proposal vs. the lists read back from the real keeper *)
Fixpoint props_match (t : bwlist) (ps : list (wbprop * (list string * list string))) : option bwlist :=
  match ps with
  | [] => Some t
  | (p, (ob, ow)) :: r =>
      let t' := apply_prop t p in
      if (strs_eqb (bw_black t') ob && strs_eqb (bw_white t') ow)%bool then props_match t' r else None
  end.

Definition c14_case_matches (sh : shape) (wired : wiring) (k : c14_case) : bool :=
  match k with
  | C14Tx c accts bals ws ds t o =>
      match txs_match sh wired c ws ds (init_st accts bals []) [(t, o)] with Some _ => true | None => false end
  | C14Gov c props accts bals ws ds t o =>
      match props_match (f_bw (c_filt c)) props with
      | None => false
      | Some bw' =>
          match txs_match sh wired (cfg_with_bw c bw') ws ds (init_st accts bals []) [(t, o)] with Some _ => true | None => false end
      end
  end.
Fixpoint c14_mismatches_from (sh : shape) (wired : wiring) (n : nat) (cs : list c14_case) : list nat :=
  match cs with [] => [] | k :: r => if c14_case_matches sh wired k then c14_mismatches_from sh wired (S n) r
                                     else n :: c14_mismatches_from sh wired (S n) r end.
Definition c14_mismatches (sh : shape) (wired : wiring) (cs : list c14_case) : list nat := c14_mismatches_from sh wired 0 cs.

(* ---------------------------------------------------------------- the property on real observations *)
(* first message that hands a frozen denomination to an account other than its signer, with the
   recipient's observed balance of that denomination actually increased *)
Definition moves_frozen (f : filt) (o : tx_obs) (m : msg) : bool :=
  existsb (fun tr => (negb (str_in (fst tr) (msg_signers m))
                      && existsb (fun d => (spec_frozen f d && (0 <? lookup_bal (o_deltas o) (fst tr, d)))%bool) (denoms (snd tr)))%bool)
          (transfers (f_native f) m).
(* "on the allowed-message list or a native-token transfer within the configured limit" *)
Definition spec_allowed (f : filt) (m : msg) : bool :=
  (existsb (String.eqb (msg_type m)) (f_poor_msgs f)
   || match m with
      | MSend _ _ [(d, a)] => (String.eqb d (f_native f) && (a <=? f_max_send f))%bool
      | _ => false end)%bool.
Fixpoint first_bad {A} (p : A -> bool) (l : list A) (i : nat) : option (nat * A) :=
  match l with [] => None | x :: r => if p x then first_bad p r (S i) else Some (i, x) end.

Definition native_only (f : filt) (t : tx) : bool :=
  (forallb (fun x => String.eqb (fst x) (f_native f)) (t_fee t)
   && forallb (fun m => match m with
                        | MSend _ _ a => (negb (is_nil a) && forallb (fun x => String.eqb (fst x) (f_native f) && (0 <? snd x))%bool a
                                          && Nat.leb (List.length a) 1)%bool
                        | _ => false end) (t_msgs t))%bool.

Definition c14_tx_clauses (c : fcfg) (accts : list (string * (Z * bool))) (bals : list ((string * string) * Z))
           (ws ds : list string) (t : tx) (o : tx_obs) : list string :=
      let f := c_filt c in
      let ms := t_msgs t in
      let admitted := ((o_class o =? 0) || (o_class o =? 2) || (o_class o =? 4))%bool in
      if admitted then
        flag (negb (existsb (fun x => spec_frozen f (fst x)) (t_fee t))) "frozen_fee"
        ++ (if o_class o =? 0 then
              match find (moves_frozen f o) ms with
              | Some m => [("frozen_moves:" ++ msg_type m)%string]
              | None => [] end
            else [])
        ++ (if f_nvals f <? f_minvals f then
              match first_bad (spec_allowed f) ms 0 with
              | None => []
              | Some (i, m) =>
                  if two63 <=? f_minvals f then ["weak_disallowed:min-validators>=2^63"%string]
                  else let detail := match m with MSend _ _ (_ :: _ :: _) => ":coin-set-beyond-the-native-token"%string | _ => ""%string end in
                       match i with
                       | O => [("weak_disallowed:first:" ++ msg_type m ++ detail)%string]
                       | _ => [("weak_disallowed:later:" ++ msg_type m ++ detail)%string]
                       end
              end
            else [])
      else if o_class o =? 1 then
        (* the native token is never frozen: a clean native-only transaction on a healthy
           network with an in-range, covering fee and sufficient funds must not be refused *)
        let payer := spec_payer t in
        let need := amt_of (t_fee t) (f_native f) + zsum (map (fun m => match m with MSend fr _ a => if String.eqb fr payer then amt_of a (f_native f) else 0 | _ => 0 end) ms) in
        if (native_only f t && t_sig_ok t && negb (is_nil ms) && negb (is_nil (t_fee t))
            && String.eqb (t_payer t) "" && (0 <? t_gas t) && negb (t_granter t)
            && forallb (fun m => match find (fun e => String.eqb (fst e) (first_signer [m])) (c_custody c) with Some _ => false | None => true end) ms
            && forallb (fun m => String.eqb (first_signer [m]) payer) ms
            && match lookup_str accts payer, t_seqs t with Some (q, _), [q'] => q =? q' | _, _ => false end
            && forallb (spec_coin_ok c) (t_fee t)
            && (c_min_fee c * PREC <=? spec_value c (t_fee t)) && (spec_value c (t_fee t) <=? c_max_fee c * PREC)
            && (spec_cover c ms * PREC <=? spec_value c (t_fee t))
            && (need <=? lookup_bal bals (payer, f_native f))
            && forallb (fun x => 0 <? snd x) (t_fee t) && Nat.leb (List.length (t_fee t)) 1
            && negb (f_nvals f <? f_minvals f))%bool
        then ["native_blocked"%string] else []
      else [].

(* GOVERNANCE of the freeze lists, from the property's own words, as sets: after a passed "add"
   proposal EVERY named token is on the list, after "remove" NONE of the named ones remains, the
   tokens not named keep their status, and the other list is untouched *)
Definition mem (x : string) (l : list string) : bool := existsb (String.eqb x) l.
Definition same_set_except (named before after : list string) : bool :=
  (forallb (fun x => (mem x named || mem x after)%bool) before
   && forallb (fun x => (mem x named || mem x before)%bool) after)%bool.
Definition prop_ok (before after : list string) (p : wbprop) : bool :=
  ((if p_add p then forallb (fun x => mem x after) (p_tokens p) else forallb (fun x => negb (mem x after)) (p_tokens p))
   && same_set_except (p_tokens p) before after)%bool.
Definition prop_name (p : wbprop) : string :=
  ((if p_add p then "add-to-" else "remove-from-") ++ (if p_black p then "blacklist" else "whitelist"))%string.
(* the lists the proposals are meant to produce (set union / difference), used to judge the
   transaction that follows *)
Definition spec_apply (t : bwlist) (p : wbprop) : bwlist :=
  let upd := fun l => if p_add p then l ++ filter (fun x => negb (mem x l)) (p_tokens p)
                      else filter (fun x => negb (mem x (p_tokens p))) l in
  if p_black p then mkBW (upd (bw_black t)) (bw_white t) else mkBW (bw_black t) (upd (bw_white t)).
Fixpoint gov_clauses (t : bwlist) (ps : list (wbprop * (list string * list string))) : list string * bwlist :=
  match ps with
  | [] => ([], t)
  | (p, (ob, ow)) :: r =>
      let ok := if p_black p then (prop_ok (bw_black t) ob p && same_set_except [] (bw_white t) ow)%bool
                else (prop_ok (bw_white t) ow p && same_set_except [] (bw_black t) ob)%bool in
      let '(rest, t') := gov_clauses (mkBW ob ow) r in
      (flag ok ("freeze_list_governance:" ++ prop_name p)%string ++ rest, t')
  end.
Fixpoint spec_lists (t : bwlist) (ps : list (wbprop * (list string * list string))) : bwlist :=
  match ps with [] => t | (p, _) :: r => spec_lists (spec_apply t p) r end.

Definition c14_clauses (k : c14_case) : list string :=
  match k with
  | C14Tx c accts bals ws ds t o => c14_tx_clauses c accts bals ws ds t o
  | C14Gov c props accts bals ws ds t o =>
      fst (gov_clauses (f_bw (c_filt c)) props)
      ++ c14_tx_clauses (cfg_with_bw c (spec_lists (f_bw (c_filt c)) props)) accts bals ws ds t o
  end.

Fixpoint c14_violations_from (n : nat) (cs : list c14_case) : list (nat * list string) :=
  match cs with [] => [] | k :: r =>
    match c14_clauses k with [] => c14_violations_from (S n) r | cl => (n, cl) :: c14_violations_from (S n) r end end.
Definition c14_violations (cs : list c14_case) : list (nat * list string) := c14_violations_from 0 cs.
