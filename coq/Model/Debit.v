(* C03 -- model: a small bank ledger with escrowed claims, a mini-IR of handler effects
   (what a msg-server method does to balances and claim records), the static authorisation
   check [wf_auth], the hand models of custody approval and address rotation, and the types of
   the table regenerated from /repo by harness/cmd/gen_signers (Gen/DebitSites.v).
   Definitions only; proofs are in Proofs/Debit.v. *)
From Sekai Require Import Base.Prelude.

(* ------------------------------------------------------------------ ledger *)
Definition acct := Z.
Definition denom := string.
Definition coins := list (denom * Z).
Definition balances := acct -> denom -> Z.

Fixpoint amount_of (c : coins) (d : denom) : Z :=
  match c with
  | [] => 0
  | x :: r => if String.eqb (fst x) d then snd x + amount_of r d else amount_of r d
  end.
(* sdk.Coins.Validate: a negative amount makes the bank refuse the transfer *)
Definition coins_nonneg (c : coins) : bool := forallb (fun x => 0 <=? snd x) c.
Definition covers (b : balances) (a : acct) (c : coins) : bool :=
  forallb (fun x => amount_of c (fst x) <=? b a (fst x)) c.
Definition debit (b : balances) (a : acct) (c : coins) : balances :=
  fun a' d => if a' =? a then b a' d - amount_of c d else b a' d.
Definition credit (b : balances) (a : acct) (c : coins) : balances :=
  fun a' d => if a' =? a then b a' d + amount_of c d else b a' d.
(* bank.SendCoins / SendCoinsFromAccountToModule / SendCoinsFromModuleToAccount *)
Definition send (b : balances) (from to : acct) (c : coins) : outcome balances :=
  if negb (coins_nonneg c) then Err "invalid coins"
  else if negb (covers b from c) then Err "insufficient funds"
  else Ok (credit (debit b from c) to c).

(* ------------------------------------------------------------------ claims *)
(* A recorded claim: coins held in escrow by a module for [c_owner] (pending undelegation,
   unclaimed rewards, dApp bond, collective bond, identity-verification tip).  [c_payee] is the
   alternate beneficiary the owner named when creating it (the verifier of a tip). *)
Record claim := mkClaim { c_kind : string; c_id : Z; c_owner : acct; c_payee : option acct; c_coins : coins }.

Fixpoint coins_eqb (a b : coins) : bool :=
  match a, b with
  | [], [] => true
  | (d, x) :: a', (e, y) :: b' => String.eqb d e && (x =? y) && coins_eqb a' b'
  | _, _ => false
  end.
Definition oacct_eqb (a b : option acct) : bool :=
  match a, b with Some x, Some y => x =? y | None, None => true | _, _ => false end.
Definition claim_eqb (x y : claim) : bool :=
  String.eqb (c_kind x) (c_kind y) && (c_id x =? c_id y) && (c_owner x =? c_owner y)
  && oacct_eqb (c_payee x) (c_payee y) && coins_eqb (c_coins x) (c_coins y).

Record state := mkState { bal : balances; claims : list claim }.

Fixpoint find_claim (k : string) (id : Z) (l : list claim) : option claim :=
  match l with
  | [] => None
  | c :: r => if String.eqb (c_kind c) k && (c_id c =? id) then Some c else find_claim k id r
  end.
Fixpoint remove_claim (x : claim) (l : list claim) : list claim :=
  match l with
  | [] => []
  | c :: r => if claim_eqb c x then r else c :: remove_claim x r
  end.

Definition in_accts (a : acct) (l : list acct) : bool := existsb (Z.eqb a) l.

(* what account [a] is owed in denom [d] by the claims whose payee is not among [excl]
   ([excl] = the signers of the transaction under consideration; [] gives the plain total) *)
Definition counted (excl : list acct) (a : acct) (c : claim) : bool :=
  (c_owner c =? a) && match c_payee c with Some p => negb (in_accts p excl) | None => true end.
Fixpoint claimed_excl (excl : list acct) (l : list claim) (a : acct) (d : denom) : Z :=
  match l with
  | [] => 0
  | c :: r => if counted excl a c then amount_of (c_coins c) d + claimed_excl excl r a d else claimed_excl excl r a d
  end.
Definition claimed (l : list claim) (a : acct) (d : denom) : Z := claimed_excl [] l a d.
Definition wealth (s : state) (a : acct) (d : denom) : Z := bal s a d + claimed (claims s) a d.

(* ------------------------------------------------------------------ messages and the IR *)
Record msg := mkMsg {
  m_signers : list acct;      (* GetSigners(), in order *)
  m_addrs : list acct;        (* the other address-valued fields *)
  m_ids : list Z;             (* object ids named by the message *)
  m_coins : list coins;       (* coin-valued fields (or amounts the handler computes from them) *)
  m_flags : list bool         (* state conditions the handler tests (matured, permission, exists ...) *)
}.

Inductive aexp :=
| ESigner (i : nat)           (* i-th signer of the message *)
| EField (i : nat)            (* another address field of the message *)
| ERecOwner                   (* owner field of the stored record just loaded *)
| ERecPayee                   (* payee field of the stored record just loaded *)
| EMod (m : acct).            (* a module / escrow account *)
Inductive cexp := CMsg (i : nat) | CRec | CConst (c : coins).

Inductive instr :=
| ILoad (k : string) (i : nat)            (* record := store[k, m_ids[i]]; Err when absent *)
| IRequire (f : nat)                      (* Err unless m_flags[f] *)
| IGuardOwner (e : aexp)                  (* Err unless record.owner = e *)
| IGuardPayee (e : aexp)                  (* Err unless record.payee = e *)
| ISend (from to : aexp) (c : cexp)       (* bank transfer *)
| INewClaim (k : string) (i : nat) (owner : aexp) (payee : option aexp) (from : aexp) (m : acct) (c : cexp)
                                          (* escrow c from [from] into module m, record claim (k, m_ids[i]) *)
| IPayClaim (m : acct) (to : aexp)        (* module m pays the loaded record's coins to [to]; record deleted *)
| IDropClaim.                             (* loaded record deleted, nothing paid *)
Definition handler := list instr.

Definition eval_a (m : msg) (r : option claim) (e : aexp) : option acct :=
  match e with
  | ESigner i => nth_error (m_signers m) i
  | EField i => nth_error (m_addrs m) i
  | ERecOwner => option_map c_owner r
  | ERecPayee => match r with Some c => c_payee c | None => None end
  | EMod a => Some a
  end.
Definition eval_c (m : msg) (r : option claim) (e : cexp) : option coins :=
  match e with
  | CMsg i => nth_error (m_coins m) i
  | CRec => option_map c_coins r
  | CConst c => Some c
  end.

Definition env := option claim.

Definition step (m : msg) (i : instr) (es : env * state) : outcome (env * state) :=
  let '(r, s) := es in
  match i with
  | ILoad k ix =>
      match nth_error (m_ids m) ix with
      | None => Err "bad operand"
      | Some id => match find_claim k id (claims s) with
                   | None => Err "record not found"
                   | Some c => Ok (Some c, s) end
      end
  | IRequire f => match nth_error (m_flags m) f with Some true => Ok (r, s) | _ => Err "condition" end
  | IGuardOwner e =>
      match r, eval_a m r e with
      | Some c, Some a => if c_owner c =? a then Ok (r, s) else Err "not owner"
      | _, _ => Err "bad operand" end
  | IGuardPayee e =>
      match r, eval_a m r e with
      | Some c, Some a => if oacct_eqb (c_payee c) (Some a) then Ok (r, s) else Err "not payee"
      | _, _ => Err "bad operand" end
  | ISend from to c =>
      match eval_a m r from, eval_a m r to, eval_c m r c with
      | Some f, Some t, Some cs => do b <- send (bal s) f t cs; Ok (r, mkState b (claims s))
      | _, _, _ => Err "bad operand" end
  | INewClaim k ix owner payee from md c =>
      match nth_error (m_ids m) ix, eval_a m r owner, eval_a m r from, eval_c m r c with
      | Some id, Some o, Some f, Some cs =>
          match payee with
          | Some pe => match eval_a m r pe with
                       | Some p => do b <- send (bal s) f md cs;
                                   Ok (r, mkState b (claims s ++ [mkClaim k id o (Some p) cs]))
                       | None => Err "bad operand" end
          | None => do b <- send (bal s) f md cs; Ok (r, mkState b (claims s ++ [mkClaim k id o None cs]))
          end
      | _, _, _, _ => Err "bad operand" end
  | IPayClaim md to =>
      match r with
      | None => Err "bad operand"
      | Some c => match eval_a m r to with
                  | None => Err "bad operand"
                  | Some t => do b <- send (bal s) md t (c_coins c);
                              Ok (None, mkState b (remove_claim c (claims s))) end
      end
  | IDropClaim =>
      match r with
      | None => Err "bad operand"
      | Some c => Ok (None, mkState (bal s) (remove_claim c (claims s))) end
  end.

Fixpoint run (m : msg) (h : handler) (es : env * state) : outcome (env * state) :=
  match h with
  | [] => Ok es
  | i :: r => do es' <- step m i es; run m r es'
  end.
Definition exec (h : handler) (m : msg) (s : state) : outcome state :=
  do es <- run m h (None, s); Ok (snd es).

(* ------------------------------------------------------------------ static authorisation check *)
(* flags: og = "the loaded record's owner was compared with a signer", pg likewise for the payee *)
Definition is_signer_exp (e : aexp) : bool := match e with ESigner _ => true | _ => false end.
Definition from_ok (og pg : bool) (e : aexp) : bool :=
  match e with
  | ESigner _ => true
  | EMod _ => true
  | ERecOwner => og
  | ERecPayee => pg
  | EField _ => false
  end.
Definition instr_ok (og pg : bool) (i : instr) : bool :=
  match i with
  | ISend from _ _ => from_ok og pg from
  | INewClaim _ _ _ _ from _ _ => from_ok og pg from
  | IPayClaim _ to => match to with ERecOwner => true | _ => og || pg end
  | IDropClaim => og
  | _ => true
  end.
Definition flags_after (og pg : bool) (i : instr) : bool * bool :=
  match i with
  | ILoad _ _ => (false, false)
  | IGuardOwner e => (og || is_signer_exp e, pg)
  | IGuardPayee e => (og, pg || is_signer_exp e)
  | IPayClaim _ _ => (false, false)
  | IDropClaim => (false, false)
  | _ => (og, pg)
  end.
Fixpoint wf_from (og pg : bool) (h : handler) : bool :=
  match h with
  | [] => true
  | i :: r => instr_ok og pg i && let '(og', pg') := flags_after og pg i in wf_from og' pg' r
  end.
Definition wf_auth (h : handler) : bool := wf_from false false h.

(* module / escrow accounts are a fixed set of ids *)
Section Modules.
Variable is_module : acct -> bool.
(* every EMod operand of the handler is a module account *)
Definition aexp_mod_ok (e : aexp) : bool := match e with EMod a => is_module a | _ => true end.
Definition instr_mods_ok (i : instr) : bool :=
  match i with
  | ISend f t _ => aexp_mod_ok f && aexp_mod_ok t
  | INewClaim _ _ o _ f md _ => aexp_mod_ok f && is_module md
  | IPayClaim md t => is_module md && aexp_mod_ok t
  | _ => true
  end.
Definition mods_ok (h : handler) : bool := forallb instr_mods_ok h.
End Modules.

(* ------------------------------------------------------------------ handlers as the code has them *)
(* module account ids used by the hand models (the harness uses the same numbering) *)
Definition MOD_MULTISTAKING : acct := 1001.
Definition MOD_FEES : acct := 1002.
Definition MOD_GOV : acct := 1003.
Definition MOD_LAYER2 : acct := 1004.
Definition MOD_COLLECTIVES : acct := 1005.
Definition MOD_SPENDING : acct := 1006.
Definition MOD_RECOVERY : acct := 1007.
Definition MOD_BASKET : acct := 1008.
Definition MOD_MINT : acct := 1009.
Definition std_is_module (a : acct) : bool := 1000 <=? a.

(* x/multistaking/keeper/msg_server.go ClaimUndelegation: found, owner = msg.Sender (since commit
   86992ce), matured, pay msg.Sender *)
Definition h_claim_undelegation : handler :=
  [ILoad "undelegation" 0; IGuardOwner (ESigner 0); IRequire 0; IPayClaim MOD_MULTISTAKING (ESigner 0)].
(* the variant WITHOUT the owner comparison (the code before 86992ce); kept to show that the
   comparison is what the theorem rests on, and as the model a regression would correspond to *)
Definition h_claim_undelegation_unguarded : handler :=
  [ILoad "undelegation" 0; IRequire 0; IPayClaim MOD_MULTISTAKING (ESigner 0)].
(* ClaimMaturedUndelegations, one iteration: skips records of other owners *)
Definition h_claim_matured_one : handler :=
  [ILoad "undelegation" 0; IGuardOwner (ESigner 0); IRequire 0; IPayClaim MOD_MULTISTAKING (ESigner 0)].
(* ClaimRewards: rewards record keyed by the sender *)
Definition h_claim_rewards : handler :=
  [ILoad "reward" 0; IGuardOwner (ESigner 0); IPayClaim MOD_FEES (ESigner 0)].
(* gov identity_registrar: request (tip escrowed, verifier recorded), cancel, handle *)
Definition h_tip_request : handler :=
  [IRequire 0; INewClaim "tip" 0 (ESigner 0) (Some (EField 0)) (ESigner 0) MOD_GOV (CMsg 0)].
Definition h_tip_cancel : handler :=
  [ILoad "tip" 0; IGuardOwner (ESigner 0); IPayClaim MOD_GOV ERecOwner].
Definition h_tip_handle : handler :=
  [ILoad "tip" 0; IGuardPayee (ESigner 0); IPayClaim MOD_GOV (ESigner 0)].
(* layer2: bond / reclaim by the bonder; JoinDappVerifierWithBond takes the bond from msg.Interx *)
Definition h_l2_reclaim : handler :=
  [ILoad "l2bond" 0; IGuardOwner (ESigner 0); IPayClaim MOD_LAYER2 (ESigner 0)].
Definition h_l2_join_verifier : handler :=
  [IRequire 0; ISend (EField 0) (EMod MOD_LAYER2) (CMsg 0)].
Definition h_l2_join_verifier_fixed : handler :=
  [IRequire 0; ISend (ESigner 0) (EMod MOD_LAYER2) (CMsg 0)].
(* collectives: withdraw pays the recorded contributor *)
Definition h_collective_withdraw : handler :=
  [ILoad "cbond" 0; IGuardOwner (ESigner 0); IPayClaim MOD_COLLECTIVES ERecOwner].
(* custody reward: paid from msg.TargetAddress to the caller *)
Definition h_custody_reward : handler :=
  [ISend (EField 0) (ESigner 0) (CMsg 0)].
(* bank send *)
Definition h_bank_send : handler := [ISend (ESigner 0) (EField 0) (CMsg 0)].

(* begin/end-block effects (no signer): mint -> fee collector -> validators / delegators,
   multistaking slash, layer2 premint, collectives reward distribution and dissolution,
   identity/undelegation housekeeping pays recorded owners *)
Definition block_handlers : list handler :=
  [ [ISend (EMod MOD_MINT) (EMod MOD_FEES) (CMsg 0)];
    [ISend (EMod MOD_FEES) (EField 0) (CMsg 0)];
    [ISend (EMod MOD_FEES) (EMod MOD_RECOVERY) (CMsg 0)];
    [ISend (EMod MOD_MULTISTAKING) (EMod MOD_FEES) (CMsg 0)];
    [ISend (EMod MOD_LAYER2) (EField 0) (CMsg 0)];
    [ISend (EMod MOD_COLLECTIVES) (EMod MOD_SPENDING) (CMsg 0)];
    [ILoad "cbond" 0; IPayClaim MOD_COLLECTIVES ERecOwner];
    [ILoad "reward" 0; IPayClaim MOD_FEES ERecOwner] ].

(* ------------------------------------------------------------------ custody approval (as the code is) *)
Record cust_entry := mkCE { ce_owner : acct; ce_to : acct; ce_coins : coins; ce_reward : coins;
                            ce_votes : Z; ce_confirmed : bool }.
Record cust_cfg := mkCC { cc_enabled : bool; cc_usepw : bool; cc_mode : Z; cc_custodians : list acct }.

Definition reward_share (e : cust_entry) (n : Z) : coins :=
  match ce_reward e with (d, x) :: _ => [(d, x / n)] | [] => [] end.

(* x/custody/keeper/msg_server.go ApproveTransaction for a caller who has not voted on this hash
   (a repeat returns early without any effect).  Since commit 30f99e5 a caller who is not a
   listed custodian of the target is refused first; [custody_approve_any] is the body without
   that check (the code before 30f99e5).
   Result: balances, the entry left in the pool (None = released and deleted). *)
Definition custody_approve_any (cfg : cust_cfg) (e : cust_entry) (caller : acct) (b : balances)
  : outcome (balances * option cust_entry) :=
  let n := Z.of_nat (List.length (cc_custodians cfg)) in
  match ce_reward e with
  | [] => Panic "index out of range: tx.Reward[0]"
  | _ =>
    if n =? 0 then Panic "division by zero: reward / len(custodians)" else
    let votes := ce_votes e + 1 in
    let allow_c := if cc_enabled cfg then (cc_mode cfg <=? votes * 100 / n) else true in
    let allow_p := if cc_usepw cfg then ce_confirmed e else true in
    do b1 <- send b (ce_owner e) caller (reward_share e n);
    if allow_c && allow_p then
      do b2 <- send b1 (ce_owner e) (ce_to e) (ce_coins e); Ok (b2, None)
    else Ok (b1, Some (mkCE (ce_owner e) (ce_to e) (ce_coins e) (ce_reward e) votes (ce_confirmed e)))
  end.

Definition custody_approve (cfg : cust_cfg) (e : cust_entry) (caller : acct) (b : balances)
  : outcome (balances * option cust_entry) :=
  if negb (in_accts caller (cc_custodians cfg)) then Err "sender is not a custodian"
  else custody_approve_any cfg e caller b.

(* the approvals the property counts: distinct listed custodians *)
Definition legit_threshold (cfg : cust_cfg) (legit_votes : Z) : bool :=
  let n := Z.of_nat (List.length (cc_custodians cfg)) in
  (0 <? n) && (cc_mode cfg <=? legit_votes * 100 / n).

(* ------------------------------------------------------------------ address rotation guards *)
Section Rotation.
Variable hash : string -> string.       (* hex(sha256(unhex(.))): external, nothing assumed *)
(* RotateRecoveryAddress: proof of the recovery secret *)
Definition rotate_by_secret (challenge proof : string) (has_rr_token rotated_before : bool) : outcome unit :=
  if has_rr_token then Err "address has validator recovery token"
  else if negb (String.eqb (hash proof) challenge) then Err "invalid proof"
  else if rotated_before then Err "target already has rotation history"
  else Ok tt.
(* RotateValidatorByHalfRRTokenHolder: rrAmount*2 < supply is refused *)
Definition rotate_by_rr (token_exists : bool) (holder_amount supply : Z) (rotated_before : bool) : outcome unit :=
  if negb token_exists then Err "recovery token does not exist"
  else if holder_amount * 2 <? supply then Err "not enough RR tokens"
  else if rotated_before then Err "target already has rotation history"
  else Ok tt.
End Rotation.

(* ------------------------------------------------------------------ table emitted by the translator *)
Inductive origin :=
| OSigner (field : string)          (* a field returned by GetSigners of the message *)
| OMsgField (field : string)        (* another field of the message *)
| OStored (expr : string)           (* a field of a record read from the store *)
| OModule (name : string)           (* a module account (constant name) *)
| OUnknown (expr : string).
Inductive bank_call := BSend | BToModule | BFromModule | BModToMod | BBurn | BMint.
Record debit_site := mkSite {
  s_fn : string;                    (* function containing the call (msg-server method or keeper callee) *)
  s_call : bank_call;
  s_from : origin;
  s_to : origin;
  s_amt : origin;                   (* where the amount comes from *)
  s_guarded : bool                  (* a field of the stored record is compared with a signer field *)
}.

Definition origin_tag (o : origin) : string :=
  match o with
  | OSigner f => "signer:" ++ f | OMsgField f => "field:" ++ f | OStored e => "stored:" ++ e
  | OModule m => "module:" ++ m | OUnknown e => "unknown:" ++ e end.
Definition is_stored (o : origin) : bool := match o with OStored _ => true | _ => false end.
(* a site is fine when the debited side is the signer or a module; and a pay-out from a module
   goes to the signer (of his own record: not a stored amount, or guarded), to the recorded
   owner, or to a module *)
Definition site_ok (s : debit_site) : bool :=
  match s_call s with
  | BMint | BBurn => true
  | BSend | BToModule =>
      match s_from s with OSigner _ | OModule _ => true | OStored _ => s_guarded s | _ => false end
  | BFromModule | BModToMod =>
      match s_to s with
      | OSigner _ => negb (is_stored (s_amt s)) || s_guarded s
      | OStored _ | OModule _ => true
      | _ => false
      end
  end.
Definition site_key (h : string) (s : debit_site) : string :=
  h ++ "/" ++ s_fn s ++ "/" ++ origin_tag (s_from s) ++ "->" ++ origin_tag (s_to s).

(* the abstract handler made of the bank calls of a method (amounts and conditions abstracted) *)
Definition aexp_of (o : origin) : aexp :=
  match o with
  | OSigner _ => ESigner 0 | OMsgField _ => EField 0 | OStored _ => ERecOwner
  | OModule _ => EMod 1000 | OUnknown _ => EField 1 end.
Definition load_prefix (s : debit_site) : list instr :=
  if is_stored (s_from s) || is_stored (s_to s) || is_stored (s_amt s)
  then [ILoad "rec" 0] ++ (if s_guarded s then [IGuardOwner (ESigner 0)] else []) else [].
Definition instrs_of_site (s : debit_site) : list instr :=
  match s_call s with
  | BMint | BBurn => []
  | BSend | BToModule => load_prefix s ++ [ISend (aexp_of (s_from s)) (aexp_of (s_to s)) (CMsg 0)]
  | BFromModule | BModToMod =>
      if is_stored (s_amt s) && negb (match s_to s with OModule _ => true | _ => false end)
      then load_prefix s ++ [IPayClaim 1000 (aexp_of (s_to s))]
      else load_prefix s ++ [ISend (EMod 1000) (aexp_of (s_to s)) (CMsg 0)]
  end.
