(* C18 -- x/ubi: records, the period gate of the end blocker, upsert / remove proposals.
   Written from x/ubi/abci.go, x/ubi/keeper/ubi.go, x/ubi/proposal_handler.go.
   Only the default denomination matters: [us_books] maps an existing spending pool to its
   recorded balance of it.  uint64 arithmetic wraps ([wrap64]); int64(uint64) is [as_int64]. *)
From Sekai Require Import Base.Prelude Base.Dec.

Record urec := mkU {
  u_start : Z; u_end : Z; u_last : Z; u_amount : Z; u_period : Z; u_pool : Z; u_dyn : bool }.

Record ustate := mkUS {
  us_recs : list (Z * urec);          (* sorted by name: store iteration order *)
  us_books : list (Z * Z);            (* existing pools -> recorded default-denom balance *)
  us_minted : Z }.                    (* total minted so far (= supply increase) *)

Fixpoint uget {A} (k : Z) (l : list (Z * A)) : option A :=
  match l with [] => None | (k', v) :: r => if k' =? k then Some v else uget k r end.
Fixpoint uset {A} (k : Z) (v : A) (l : list (Z * A)) : list (Z * A) :=
  match l with [] => [(k, v)] | (k', v') :: r => if k' =? k then (k, v) :: r else (k', v') :: uset k v r end.
(* records are kept sorted by identifier *)
Fixpoint uins {A} (k : Z) (v : A) (l : list (Z * A)) : list (Z * A) :=
  match l with
  | [] => [(k, v)]
  | (k', v') :: r => if k' =? k then (k, v) :: r else if k <? k' then (k, v) :: (k', v') :: r else (k', v') :: uins k v r
  end.
Fixpoint udel {A} (k : Z) (l : list (Z * A)) : list (Z * A) :=
  match l with [] => [] | (k', v') :: r => if k' =? k then r else (k', v') :: udel k r end.

(* the period gate of EndBlocker (uint64 arithmetic).  [gate_exact] says which variant the tree has
   (decided by a probe in the harness): [false] = `now > last+period` with the sum wrapping around,
   [true] = the repaired `now > last && now-last > period` (commit 05a7d1b). *)
Definition ubi_due_gen (gate_exact : bool) (now : Z) (r : urec) : bool :=
  (if gate_exact then (u_last r <? now) && (u_period r <? now - u_last r)
   else wrap64 (u_last r + u_period r) <? now)
  && ((u_end r =? 0) || (u_last r <? u_end r)).
Definition ubi_due_wrap := ubi_due_gen false.
(* the gate the property asks for (exact arithmetic) *)
Definition ubi_due_exact (now : Z) (r : urec) : bool :=
  (u_last r + u_period r <? now) && ((u_end r =? 0) || (u_last r <? u_end r)).

Section Gate.
Variable gate_exact : bool.
Definition ubi_due := ubi_due_gen gate_exact.
(* [bigint] (probe; commit b963c04): the payout amount and the hard-cap sum are computed in sdk.Int
   (no int64 cast, no uint64 wrap-around) and a zero period is refused by the upsert proposal *)
Variable bigint : bool.

Definition ubi_amount (r : urec) : Z := (if bigint then u_amount r else as_int64 (u_amount r)) * 1000000.
Definition touch (now : Z) (r : urec) : urec :=
  mkU (u_start r) (u_end r) now (u_amount r) (u_period r) (u_pool r) (u_dyn r).

(* ProcessUBIRecord inside a cache context: [Ok None] = error return, nothing written.
   Result: the new state and the amount minted into the pool. *)
Definition ubi_process (now id : Z) (r : urec) (s : ustate) : outcome (option (ustate * Z)) :=
  let recs' := uset id (touch now r) (us_recs s) in
  let amt := ubi_amount r in
  let pay (x : Z) : outcome (option (ustate * Z)) :=
    if x <? 0 then Panic "negative coin amount"
    else if x =? 0 then Ok None                      (* Coins{0ukex} is invalid: bank send fails *)
    else match uget (u_pool r) (us_books s) with
         | None => Ok None                           (* pool does not exist *)
         | Some b => Ok (Some (mkUS recs' (uset (u_pool r) (b + x) (us_books s)) (us_minted s + x), x))
         end in
  if u_dyn r then
    match uget (u_pool r) (us_books s) with
    | None => Ok None
    | Some b => if amt <=? b then Ok (Some (mkUS recs' (us_books s) (us_minted s), 0)) else pay (amt - b)
    end
  else pay amt.

(* EndBlocker: records are read once, then processed in order *)
Fixpoint ubi_loop (now : Z) (l : list (Z * urec)) (s : ustate) (paid : list (Z * Z)) : outcome (ustate * list (Z * Z)) :=
  match l with
  | [] => Ok (s, paid)
  | (id, r) :: rest =>
      if ubi_due now r then
        do o <- ubi_process now id r s;
        match o with
        | Some (s', x) => ubi_loop now rest s' (paid ++ [(id, x)])
        | None => ubi_loop now rest s paid
        end
      else ubi_loop now rest s paid
  end.
Definition ubi_endblock (now : Z) (s : ustate) : outcome (ustate * list (Z * Z)) :=
  ubi_loop now (us_recs s) s [].

(* UpsertUBIProposal.Apply *)
Definition YEAR : Z := 31556952.
Fixpoint ubi_sum (l : list (Z * urec)) (acc : Z) : outcome Z :=
  match l with
  | [] => Ok acc
  | (_, r) :: rest =>
      if u_period r =? 0 then Panic "integer divide by zero"
      else ubi_sum rest (if bigint then acc + u_amount r * YEAR / u_period r
                         else wrap64 (acc + wrap64 (u_amount r * YEAR) / u_period r))
  end.
Definition ubi_upsert (hardcap id : Z) (r : urec) (s : ustate) : outcome ustate :=
  match uget (u_pool r) (us_books s) with
  | None => Err "spending pool does not exist"
  | Some _ =>
      if bigint && (u_period r =? 0) then Err "ubi sum overflows hardcap" else
      do sum <- ubi_sum (us_recs s) 0;
      if u_period r =? 0 then Panic "integer divide by zero" else
      if hardcap <? (if bigint then sum + u_amount r * YEAR / u_period r
                     else wrap64 (sum + wrap64 (u_amount r * YEAR) / u_period r)) then Err "ubi sum overflows hardcap" else
      Ok (mkUS (uins id (mkU (u_start r) (u_end r) (u_start r) (u_amount r) (u_period r) (u_pool r) false) (us_recs s))
               (us_books s) (us_minted s))
  end.
Definition ubi_remove (id : Z) (s : ustate) : outcome ustate :=
  match uget id (us_recs s) with
  | None => Err "ubi record does not exist"
  | Some _ => Ok (mkUS (udel id (us_recs s)) (us_books s) (us_minted s))
  end.

Inductive ubi_op : Type :=
| UEndBlock
| UUpsert (id : Z) (r : urec)
| URemove (id : Z).

(* one step: new state and the payments made (record, amount) *)
Definition ubi_apply (hardcap now : Z) (o : ubi_op) (s : ustate) : outcome (ustate * list (Z * Z)) :=
  match o with
  | UEndBlock => ubi_endblock now s
  | UUpsert id r => do s' <- ubi_upsert hardcap id r s; Ok (s', [])
  | URemove id => do s' <- ubi_remove id s; Ok (s', [])
  end.
Definition ubi_step (hardcap : Z) (s : ustate) (e : Z * ubi_op) : ustate :=
  match ubi_apply hardcap (fst e) (snd e) s with Ok (s', _) => s' | _ => s end.
End Gate.
