(* C18 -- x/ubi: records, the period gate of the end blocker, upsert / remove proposals.
   Written from x/ubi/abci.go, x/ubi/keeper/ubi.go, x/ubi/proposal_handler.go.
   Only the default denomination matters: [books] maps a spending pool to its recorded balance of
   it; [None] = the pool does not exist.  uint64 arithmetic wraps ([wrap64]); int64(uint64) is
   [as_int64]. *)
From Sekai Require Import Base.Prelude Base.Dec.

Record urec := mkU {
  u_start : Z; u_end : Z; u_last : Z; u_amount : Z; u_period : Z; u_pool : Z; u_dyn : bool }.

Record ustate := mkUS {
  us_recs : list (Z * urec);          (* sorted by name: store iteration order *)
  us_books : list (Z * Z);            (* existing pools -> recorded default-denom balance *)
  us_minted : Z }.                    (* total minted so far (= supply increase) *)

Fixpoint uget {A} (k : Z) (l : list (Z * A)) : option A :=
  match l with [] => None | (k', v) :: r => if k' =? k then Some v else uget k r end.
Fixpoint uset {A} (k : Z) (v : A) (l : list (Z * A)) : list (Z * A) :=
  match l with [] => [(k, v)] | (k', v') :: r => if k' =? k then (k, v) :: r else (k', v') :: uset k v r end.
(* records are kept sorted by identifier (insertion keeps the order) *)
Fixpoint uins {A} (k : Z) (v : A) (l : list (Z * A)) : list (Z * A) :=
  match l with
  | [] => [(k, v)]
  | (k', v') :: r => if k' =? k then (k, v) :: r else if k <? k' then (k, v) :: (k', v') :: r else (k', v') :: uins k v r
  end.
Fixpoint udel {A} (k : Z) (l : list (Z * A)) : list (Z * A) :=
  match l with [] => [] | (k', v') :: r => if k' =? k then r else (k', v') :: udel k r end.

(* the period gate of EndBlocker (uint64 arithmetic) *)
Definition ubi_due (now : Z) (r : urec) : bool :=
  (wrap64 (u_last r + u_period r) <? now) && ((u_end r =? 0) || (u_last r <? u_end r)).
(* the gate the property asks for (exact arithmetic) *)
Definition ubi_due_exact (now : Z) (r : urec) : bool :=
  (u_last r + u_period r <? now) && ((u_end r =? 0) || (u_last r <? u_end r)).

Definition ubi_amount (r : urec) : Z := as_int64 (u_amount r) * 1000000.

(* ProcessUBIRecord inside a cache context: [Ok None] = error, nothing written *)
Definition ubi_process (now : Z) (r : urec) (s : ustate) : outcome (option ustate) :=
  let r' := mkU (u_start r) (u_end r) now (u_amount r) (u_period r) (u_pool r) (u_dyn r) in
  let amt := ubi_amount r in
  let recs' := fun id => uset id r' (us_recs s) in
  fun_id_dummy <- Ok tt;
  Ok None.
