(* C19: correspondence (model vs. observed behaviour of the real keeper / msg server / proposal
   handler / genesis import) and the decidable spec checker applied to REAL observations. *)
From Sekai Require Import Base.Prelude Base.Dec Model.NetPropsLib Gen.NetProps Model.NetProps.

Definition odec_eqb (a b : odec) : bool :=
  match a, b with Some x, Some y => x =? y | None, None => true | _, _ => false end.
Definition fval_eqb (a b : fval) : bool :=
  match a, b with
  | FNum x, FNum y => x =? y
  | FBool x, FBool y => Bool.eqb x y
  | FDec x, FDec y => odec_eqb x y
  | FStr x, FStr y => String.eqb x y
  | _, _ => false
  end.
Fixpoint list_eqb {A} (e : A -> A -> bool) (l m : list A) : bool :=
  match l, m with [] , [] => true | x :: l', y :: m' => (e x y && list_eqb e l' m')%bool | _, _ => false end.
Definition props_eqb (a b : props) : bool := list_eqb fval_eqb (fields a) (fields b).
Definition oval_eqb (a b : option (Z * string)) : bool :=
  match a, b with Some x, Some y => value_eqb x y | None, None => true | _, _ => false end.

(* observed records are encoded as patches (field index, value) against the starting record *)
Definition patch := list (nat * fval).
Definition apply_patch (ps : props) (d : patch) : props := fold_left (fun a e => set_ix (fst e) (snd e) a) d ps.

(* one step of a history on the real chain (ABCI: DeliverTx of the message, proposals through
   submit / vote / EndBlocker); patches are against the history's starting record *)
Inductive c19_step : Type :=
| HMsg (allowed : bool) (new : patch) (ok : bool) (after : patch)
| HProp (code : Z) (v : Z * string) (submitted ok : bool) (after : patch)
| HOther (after : patch).                      (* blocks and transactions that are no write path *)
(* the same with the records spelled out *)
Inductive c19_rstep : Type :=
| RMsg (allowed : bool) (new : props) (ok : bool) (after : props)
| RProp (code : Z) (v : Z * string) (submitted ok : bool) (after : props)
| ROther (after : props).
Definition rstep_after (s : c19_rstep) : props :=
  match s with RMsg _ _ _ a => a | RProp _ _ _ _ a => a | ROther a => a end.

Inductive c19_case : Type :=
| CSet (cfg rec : nat) (code : Z) (v : Z * string) (ok : bool) (after : patch) (gets : list (Z * option (Z * string)))
| CProp (cfg rec : nat) (code : Z) (v : Z * string) (ok : bool) (after : patch)
| CMsg (cfg rec : nat) (allowed : bool) (new : patch) (ok : bool) (after : patch)
| CGen (cfg : nat) (new : patch) (ok : bool)
| CGenApp (cfg : nat) (new : patch) (ok : bool) (after : patch)    (* genesis through InitChain *)
| CHist (cfg rec : nat) (steps : list c19_step).                  (* a history through ABCI *)

Definition resolve (base : props) (s : c19_step) : c19_rstep :=
  match s with
  | HMsg a new ok after => RMsg a (apply_patch base new) ok (apply_patch base after)
  | HProp code v sub ok after => RProp code v sub ok (apply_patch base after)
  | HOther after => ROther (apply_patch base after)
  end.

Section Run.
Variable cfgs : list props.
Variable recsets : list (list (string * string)).
Definition cfg_at (i : nat) : option props := nth_error cfgs i.
Definition recs_at (i : nat) : list (string * string) := nth i recsets [].

(* ---------------- model vs observation *)
Definition result_matches (before : props) (m : option props) (ok : bool) (after : props) : bool :=
  match m with
  | Some ps' => (ok && props_eqb ps' after)%bool
  | None => (negb ok && props_eqb before after)%bool
  end.

Definition rstep_matches (recs : list (string * string)) (cur : props) (s : c19_rstep) : bool :=
  match s with
  | RMsg allowed new ok after => result_matches cur (msg_set_all allowed recs cur new) ok after
  | RProp code v submitted ok after =>
      if submitted then result_matches cur (apply_proposal recs cur code v) ok after
      else props_eqb cur after
  | ROther after => props_eqb cur after
  end.
(* every step is judged from the record the real chain held before it *)
Fixpoint rhist_matches (recs : list (string * string)) (cur : props) (l : list c19_rstep) : bool :=
  match l with [] => true | s :: r => (rstep_matches recs cur s && rhist_matches recs (rstep_after s) r)%bool end.

Definition case_matches (c : c19_case) : bool :=
  match c with
  | CHist cfg rec steps =>
      match cfg_at cfg with None => false | Some ps => rhist_matches (recs_at rec) ps (map (resolve ps) steps) end
  | CSet cfg rec code v ok after gets =>
      match cfg_at cfg with None => false | Some ps =>
        let after := apply_patch ps after in
        (result_matches ps (set_code (recs_at rec) ps code v) ok after
         && forallb (fun g => oval_eqb (get_code after (fst g)) (snd g)) gets)%bool end
  | CProp cfg rec code v ok after =>
      match cfg_at cfg with None => false | Some ps =>
        result_matches ps (apply_proposal (recs_at rec) ps code v) ok (apply_patch ps after) end
  | CMsg cfg rec allowed new ok after =>
      match cfg_at cfg with None => false | Some ps =>
        result_matches ps (msg_set_all allowed (recs_at rec) ps (apply_patch ps new)) ok (apply_patch ps after) end
  | CGen cfg new ok =>
      match cfg_at cfg with None => false | Some ps => Bool.eqb (validate (apply_patch ps new)) ok end
  | CGenApp cfg new ok after =>
      match cfg_at cfg with None => false | Some ps =>
        (Bool.eqb (validate (apply_patch ps new)) ok
         && (negb ok || props_eqb (apply_patch ps new) (apply_patch ps after)))%bool end
  end.

Fixpoint mismatches_from (n : nat) (cs : list c19_case) : list nat :=
  match cs with [] => [] | c :: r => if case_matches c then mismatches_from (S n) r else n :: mismatches_from (S n) r end.
Definition c19_mismatches (cs : list c19_case) : list nat := mismatches_from 0 cs.

(* ---------------- the property itself, checked on what the real code did.
   The spec names the field of an identifier by NAME (enum constant = struct field), and spells
   the validity rules out by hand -- it does not use the generated get/set/validate. *)
Fixpoint index_of (x : string) (l : list string) (n : nat) : option nat :=
  match l with [] => None | y :: r => if String.eqb x y then Some n else index_of x r (S n) end.
Definition spec_ix (p : pid) : option nat := index_of (pid_name p) field_names 0.

Definition spec_requested (p : pid) (v : Z * string) : option fval :=
  match spec_ix p with None => None | Some i =>
    match nth_error field_kinds i with
    | Some KNum => Some (FNum (fst v))
    | Some KBool => Some (FBool (negb (fst v =? 0)))
    | Some KDec => option_map (fun d => FDec (Some d)) (dec_of_string (snd v))
    | Some KStr => Some (FStr (snd v))
    | None => None end end.

Definition frac01 (d : odec) : bool := match d with Some z => (0 <=? z) && (z <=? PREC) | None => false end.
Definition frac_half (d : odec) : bool := match d with Some z => (0 <=? z) && (z <=? HALF) | None => false end.
(* validity rules of the property text: required values non-zero, min <= max, fractions within
   their ranges, period orderings *)
Definition valid_specb (ps : props) : bool :=
  negb (f_MinTxFee ps =? 0) && negb (f_MaxTxFee ps =? 0) && (f_MinTxFee ps <=? f_MaxTxFee ps)
  && frac01 (f_VoteQuorum ps) && frac01 (f_VetoThreshold ps)
  && negb (f_MinimumProposalEndTime ps =? 0) && negb (f_ProposalEnactmentTime ps =? 0)
  && negb (f_MinProposalEndBlocks ps =? 0) && negb (f_MinProposalEnactmentBlocks ps =? 0)
  && negb (f_MischanceRankDecreaseAmount ps =? 0) && negb (f_MaxMischance ps =? 0)
  && frac01 (f_InactiveRankDecreasePercent ps)
  && frac_half (f_ValidatorsFeeShare ps) && frac_half (f_InflationRate ps)
  && frac01 (f_MaxJailedPercentage ps) && frac01 (f_MaxSlashingPercentage ps)
  && match f_MaxAnnualInflation ps with Some z => 0 <=? z | None => false end
  && frac01 (f_DappVerifierBond ps) && frac01 (f_DappPoolSlippageDefault ps)
  && frac01 (f_DappInactiveRankDecreasePercent ps)
  && negb (f_MinValidators ps =? 0) && negb (f_PoorNetworkMaxBankSend ps =? 0)
  && negb (f_UnjailMaxTime ps =? 0)
  && unique_keys_block_ok (f_UniqueIdentityKeys ps)
  && String.eqb (f_UniqueIdentityKeys ps) (to_lower (f_UniqueIdentityKeys ps))
  && (2629800 <=? f_InflationPeriod ps) && (f_InflationPeriod ps <=? 31557600)
  && (604800 <=? f_UnstakingPeriod ps) && (f_UnstakingPeriod ps <=? 31557600)
  && (f_UnstakingPeriod ps <=? f_SlashingPeriod ps)
  && match f_MaxJailedPercentage ps with Some z => z * 3 <? PREC | None => false end
  && (f_UnjailMaxTime ps <=? f_SlashingPeriod ps).

Fixpoint others_go (i : option nat) (n : nat) (l m : list fval) : bool :=
  match l, m with
  | [], [] => true
  | x :: l', y :: m' => ((match i with Some k => Nat.eqb k n | None => false end) || fval_eqb x y) && others_go i (S n) l' m'
  | _, _ => false
  end.
Definition others_unchanged (i : option nat) (a b : props) : bool := others_go i O (fields a) (fields b).

(* clauses: "valid" stored record valid; "readback" requested value reads back; "frame" nothing
   else changed; "reject" a rejected request changed nothing; "gate" no permission => no change;
   "get" the per-identifier read reports the stored field *)
Definition set_clauses (ps : props) (code : Z) (v : Z * string) (ok : bool) (after : props)
           (gets : list (Z * option (Z * string))) : list string :=
  (if ok then
     (if valid_specb after then [] else ["valid"%string]) ++
     match pid_of_code code with
     | None => ["frame"%string]            (* unknown identifier accepted *)
     | Some p =>
         (match spec_requested p v, spec_ix p with
          | Some f, Some i => match nth_error (fields after) i with
                              | Some g => if fval_eqb f g then [] else ["readback"%string]
                              | None => ["readback"%string] end
          | _, _ => ["readback"%string] end) ++
         (if others_unchanged (spec_ix p) ps after then [] else ["frame"%string])
     end
   else if props_eqb ps after then [] else ["reject"%string]) ++
  (if forallb (fun g =>
        match pid_of_code (fst g) with
        | None => match snd g with None => true | Some _ => false end
        | Some q => match snd g, spec_ix q with
                    | Some r, Some i => match nth_error (fields after) i with
                                        | Some f => value_eqb (render f) r | None => false end
                    | None, _ => true          (* unreadable identifiers are allowed to be rejected *)
                    | Some _, None => false end
        end) gets then [] else ["get"%string]).

(* history clauses: "gate" a record changed without permission / outside a write path; the
   others as for single requests, each judged from the record before the step *)
Definition rstep_clauses (cur : props) (s : c19_rstep) : list string :=
  match s with
  | RMsg allowed new ok after =>
      if ok then (if allowed then [] else ["gate"%string]) ++
                 (if valid_specb after then [] else ["valid"%string]) ++
                 (if props_eqb new after then [] else ["readback"%string])
      else if props_eqb cur after then [] else ["reject"%string]
  | RProp code v submitted ok after =>
      if (submitted && ok)%bool then set_clauses cur code v true after []
      else if props_eqb cur after then [] else ["reject"%string]
  | ROther after => if props_eqb cur after then [] else ["gate"%string]
  end.
Fixpoint rhist_clauses (cur : props) (l : list c19_rstep) : list string :=
  match l with [] => [] | s :: r => rstep_clauses cur s ++ rhist_clauses (rstep_after s) r end.

Definition case_clauses (c : c19_case) : list string :=
  match c with
  | CHist cfg rec steps =>
      match cfg_at cfg with None => ["cfg"%string] | Some ps =>
        (if valid_specb ps then [] else ["valid"%string]) ++ rhist_clauses ps (map (resolve ps) steps) end
  | CSet cfg rec code v ok after gets =>
      match cfg_at cfg with None => ["cfg"%string] | Some ps => set_clauses ps code v ok (apply_patch ps after) gets end
  | CProp cfg rec code v ok after =>
      match cfg_at cfg with None => ["cfg"%string] | Some ps => set_clauses ps code v ok (apply_patch ps after) [] end
  | CMsg cfg rec allowed new ok after =>
      match cfg_at cfg with None => ["cfg"%string] | Some ps =>
        let new := apply_patch ps new in let after := apply_patch ps after in
        if ok then (if allowed then [] else ["gate"%string]) ++
                   (if valid_specb after then [] else ["valid"%string]) ++
                   (if props_eqb new after then [] else ["readback"%string])
        else if props_eqb ps after then [] else ["reject"%string] end
  | CGen cfg new ok =>
      match cfg_at cfg with None => ["cfg"%string] | Some ps =>
        if ok then (if valid_specb (apply_patch ps new) then [] else ["valid"%string]) else [] end
  | CGenApp cfg new ok after =>
      match cfg_at cfg with None => ["cfg"%string] | Some ps =>
        if ok then (if valid_specb (apply_patch ps after) then [] else ["valid"%string]) ++
                   (if props_eqb (apply_patch ps new) (apply_patch ps after) then [] else ["readback"%string])
        else [] end
  end.

Fixpoint violations_from (n : nat) (cs : list c19_case) : list (nat * list string) :=
  match cs with [] => [] | c :: r =>
    match case_clauses c with [] => violations_from (S n) r | cl => (n, cl) :: violations_from (S n) r end end.
Definition c19_violations (cs : list c19_case) : list (nat * list string) := violations_from 0 cs.
End Run.
