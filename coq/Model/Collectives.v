(* C18 -- x/collectives: contributors' bonds, locks, donation share, withdrawal, the donation
   book and its proposal, removal.  Written from x/collectives/keeper/{msg_server,collective,
   keeper}.go and x/collectives/proposal_handler.go.

   Accounts: users are >= 0; the collectives module account is CMODULE; collective [c] owns the
   bond address [caddr c] and the donation address [daddr c].  Coins as in Model/Spending.v.
   The network property MinCollectiveBond is 0 in the harness configuration, so the bond-value
   threshold of CreateCollective always passes and the status stays Active (not part of C18). *)
From Sekai Require Import Base.Prelude Base.Dec Model.Spending.

Definition CMODULE : Z := -2.
Definition caddr (c : Z) : Z := -10 - 2 * c.
Definition daddr (c : Z) : Z := -11 - 2 * c.

Record contrib := mkCC { cc_bonds : fcoins; cc_lock : Z; cc_don : Z; cc_dlock : bool }.
Record coll := mkColl {
  co_bonds : fcoins;
  co_donations : fcoins;            (* the recorded donation balance *)
  co_any : bool; co_wroles : list Z; co_waccts : list Z;     (* deposit whitelist *)
  co_contribs : list (Z * contrib) }.                       (* sorted by account: store order *)
Record cstate := mkCS { cs_colls : list (Z * coll); cs_bank : bank }.

Section Cfg.
(* which variant of ApplyCollectiveRemoveProposalHandler.Apply the tree has (probe): [true] = the error
   of ExecuteCollectiveRemove is returned, so the gov router drops the cache context; [false] = the
   error is discarded and partial transfers stay *)
Variable remove_atomic : bool.
Variable actors : list (Z * list Z).
Variable U : list Z.
Definition croles_of (a : Z) : list Z := match zget a actors with Some r => r | None => [] end.

(* calcPortion: NewDecFromInt(amount).Mul(portion).RoundInt() per coin; NewCoin panics on negative *)
Fixpoint portion_on (ds : list Z) (b : fcoins) (por : Z) : outcome fcoins :=
  match ds with
  | [] => Ok czero
  | d :: r =>
      if b d =? 0 then portion_on r b por else
      do x <- dmul (dec_of_int (b d)) por;
      if round_int x <? 0 then Panic "negative coin amount" else
      do rest <- portion_on r b por; Ok (cadd (csingle d (round_int x)) rest)
  end.
Definition portion (b : fcoins) (por : Z) : outcome fcoins := portion_on U b por.
(* Coins.IsAllPositive on a canonical coin set: non-empty *)
Definition nonempty (c : fcoins) : bool := existsb (fun d => 0 <? c d) U.
Definition cge (a b : fcoins) : bool := cge_on U a b.

Definition send_if (b : bank) (from to : Z) (amt : fcoins) : outcome bank :=
  if nonempty amt then
    if cge (b from) amt then Ok (bank_send b from to amt) else Err "insufficient funds"
  else Ok b.

Fixpoint zins {A} (k : Z) (v : A) (l : list (Z * A)) : list (Z * A) :=
  match l with
  | [] => [(k, v)]
  | (k', v') :: r => if k' =? k then (k, v) :: r else if k <? k' then (k, v) :: (k', v') :: r else (k', v') :: zins k v r
  end.

Definition rotate_contrib (a a' : Z) (C : coll) : coll :=
  match zget a (co_contribs C) with
  | None => C
  | Some cc => mkColl (co_bonds C) (co_donations C) (co_any C) (co_wroles C) (co_waccts C) (zins a' cc (zdel a (co_contribs C)))
  end.
Definition set_coll (c : Z) (C : coll) (s : cstate) (b : bank) : cstate := mkCS (zset c C (cs_colls s)) b.

(* msg server CreateCollective (ValidateBasic passed; bond threshold 0) *)
Definition co_create (a c : Z) (bonds : lcoins) (any : bool) (wroles waccts : list Z) (s : cstate) : outcome cstate :=
  if zhas c (cs_colls s) then Err "collective already exists" else
  if negb (coins_valid bonds) then Err "invalid coins" else
  if negb (cge (cs_bank s a) (cof bonds)) then Err "insufficient funds" else
  Ok (mkCS (cs_colls s ++ [(c, mkColl (cof bonds) czero any wroles waccts [(a, mkCC (cof bonds) 0 0 false)])])
           (bank_send (cs_bank s) a (caddr c) (cof bonds))).

(* msg server ContributeCollective *)
Definition whitelisted (C : coll) (a : Z) : bool :=
  co_any C || existsb (Z.eqb a) (co_waccts C)
  || existsb (fun r => existsb (Z.eqb r) (croles_of a)) (co_wroles C).
Definition co_contribute (a c : Z) (bonds : lcoins) (s : cstate) : outcome cstate :=
  match zget c (cs_colls s) with
  | None => Err "collective does not exist"
  | Some C =>
      if negb (coins_valid bonds) then Err "invalid coins" else
      if negb (cge (cs_bank s a) (cof bonds)) then Err "insufficient funds" else
      let b1 := bank_send (cs_bank s) a (caddr c) (cof bonds) in
      if negb (whitelisted C a) then Err "not whitelisted" else
      do r <- match zget a (co_contribs C) with
              | Some cc =>
                  do dc <- portion (cof bonds) (cc_don cc);
                  do b2 <- send_if b1 (caddr c) (daddr c) dc;
                  Ok (mkCC (cadd (cc_bonds cc) (cof bonds)) (cc_lock cc) (cc_don cc) (cc_dlock cc), b2)
              | None => Ok (mkCC (cof bonds) 0 0 false, b1)
              end;
      Ok (set_coll c (mkColl (cadd (co_bonds C) (cof bonds)) (co_donations C) (co_any C) (co_wroles C) (co_waccts C)
                             (zins a (fst r) (co_contribs C))) s (snd r))
  end.

(* msg server DonateCollective.  `cc.Donation != msg.Donation` compares two sdk.Dec structs, i.e.
   their *big.Int pointers: it is always true, so a locked donation rejects every request. *)
Definition ONE_YEAR : Z := 86400 * 365.
Definition co_donate (now a c lock don : Z) (dlock : bool) (s : cstate) : outcome cstate :=
  if (don <? 0) || (PREC <? don) then Err "invalid donation value" else
  match zget c (cs_colls s) with
  | None => Err "not collective contributer"
  | Some C =>
      match zget a (co_contribs C) with
      | None => Err "not collective contributer"
      | Some cc =>
          if now + ONE_YEAR <? lock then Err "lock period cannot exceed one year" else
          if lock <? cc_lock cc then Err "lock period can only be increased" else
          if cc_dlock cc then Err "donation locked" else
          do b' <- (if don <? cc_don cc then
                      do mv <- portion (cc_bonds cc) (cc_don cc - don); send_if (cs_bank s) (daddr c) (caddr c) mv
                    else if cc_don cc <? don then
                      do mv <- portion (cc_bonds cc) (don - cc_don cc); send_if (cs_bank s) (caddr c) (daddr c) mv
                    else Ok (cs_bank s));
          Ok (set_coll c (mkColl (co_bonds C) (co_donations C) (co_any C) (co_wroles C) (co_waccts C)
                                 (zset a (mkCC (cc_bonds cc) lock don dlock) (co_contribs C))) s b')
      end
  end.

(* keeper.WithdrawCollective: what is sent back, from which address *)
Definition withdraw_parts (cc : contrib) : outcome (fcoins * fcoins) :=
  do cb <- portion (cc_bonds cc) (PREC - cc_don cc);
  do db <- portion (cc_bonds cc) (cc_don cc);
  Ok (cb, db).
(* bank.SendCoins debits the sender one denomination after the other and stops at the first one it
   cannot cover: a failed multi-denomination transfer whose error is swallowed leaves the earlier
   denominations debited (and credited to nobody). *)
Fixpoint partial_sub (ds : list Z) (bal amt : fcoins) : fcoins :=
  match ds with
  | [] => bal
  | d :: r => if amt d <=? 0 then partial_sub r bal amt
              else if amt d <=? bal d then partial_sub r (fun x => if x =? d then bal x - amt d else bal x) amt
              else bal
  end.
Definition send_partial (b : bank) (from : Z) (amt : fcoins) : bank :=
  fun a => if a =? from then partial_sub U (b a) amt else b a.
(* The two transfers happen one after the other; when the second fails the first has already been
   made ([WErr] carries the bank after what was done so far). *)
Inductive wres : Type := WOk (bonds' : fcoins) (b : bank) | WErr (partial : bank) | WPanic (m : string).
Definition withdraw_core (a c : Z) (bonds0 : fcoins) (cc : contrib) (b : bank) : wres :=
  match withdraw_parts cc with
  | Panic m => WPanic m
  | Err m => WPanic m
  | Ok (cb, db) =>
      match send_if b (caddr c) a cb with
      | Ok b1 =>
          match send_if b1 (daddr c) a db with
          | Ok b2 =>
              if negb (cge bonds0 cb && cge (csub bonds0 cb) db) then WPanic "negative coin amount (collective bonds)"
              else WOk (csub (csub bonds0 cb) db) b2
          | _ => WErr (send_partial b1 (daddr c) db)
          end
      | _ => WErr (send_partial b (caddr c) cb)
      end
  end.
Definition with_bonds (C : coll) (bonds : fcoins) (a : Z) : coll :=
  mkColl bonds (co_donations C) (co_any C) (co_wroles C) (co_waccts C) (zdel a (co_contribs C)).
(* msg server WithdrawCollective: an error reverts the whole transaction *)
Definition co_withdraw (now a c : Z) (s : cstate) : outcome cstate :=
  match zget c (cs_colls s) with
  | None => Err "not collective contributer"
  | Some C =>
      match zget a (co_contribs C) with
      | None => Err "not collective contributer"
      | Some cc =>
          if now <? cc_lock cc then Err "bonds locked on the collective" else
          match withdraw_core a c (co_bonds C) cc (cs_bank s) with
          | WOk bonds' b' => Ok (set_coll c (with_bonds C bonds' a) s b')
          | WErr _ => Err "insufficient funds"
          | WPanic m => Panic m
          end
      end
  end.

(* ProposalCollectiveSendDonation.Apply -> keeper.SendDonation *)
Definition co_send_donation (c to : Z) (amt : lcoins) (s : cstate) : outcome cstate :=
  match zget c (cs_colls s) with
  | None => Err "collective does not exist"
  | Some C =>
      if negb (coins_valid amt) then Err "invalid coins" else
      if negb (cge_on (cdenoms amt) (co_donations C) (cof amt)) then Err "not enough donation rewards pool" else
      if negb (cge_on (cdenoms amt) (cs_bank s CMODULE) (cof amt)) then Err "insufficient module funds" else
      Ok (set_coll c (mkColl (co_bonds C) (csub (co_donations C) (cof amt)) (co_any C) (co_wroles C) (co_waccts C)
                             (co_contribs C)) s (bank_send (cs_bank s) CMODULE to (cof amt)))
  end.

(* ProposalCollectiveRemove.Apply -> ExecuteCollectiveRemove (no pending staking rewards): every
   contributor is paid back from the SAME stale collective record, locks are not consulted; the
   error of ExecuteCollectiveRemove is discarded by Apply, so a failure half-way keeps what was
   done so far and the collective. *)
Fixpoint remove_loop (c : Z) (bonds0 : fcoins) (l : list (Z * contrib)) (C : coll) (b : bank) : outcome (coll * bank * bool) :=
  match l with
  | [] => Ok (C, b, true)
  | (a, cc) :: r =>
      match withdraw_core a c bonds0 cc b with
      | WOk bonds' b' => remove_loop c bonds0 r (with_bonds C bonds' a) b'
      | WErr bp => Ok (C, bp, false)          (* the error is discarded by Apply: partial transfers stay *)
      | WPanic m => Panic m
      end
  end.
Definition co_remove (c : Z) (s : cstate) : outcome cstate :=
  match zget c (cs_colls s) with
  | None => Err "collective does not exist"
  | Some C =>
      do r <- remove_loop c (co_bonds C) (co_contribs C) C (cs_bank s);
      let '(C', b', done) := r in
      if done then Ok (mkCS (zdel c (cs_colls s)) b')
      else if remove_atomic then Err "removal failed: nothing written" else Ok (set_coll c C' s b')
  end.

Inductive co_op : Type :=
| CCreate (a c : Z) (bonds : lcoins) (any : bool) (wroles waccts : list Z)
| CContribute (a c : Z) (bonds : lcoins)
| CDonate (a c lock don : Z) (dlock : bool)
| CWithdraw (a c : Z)
| CSendDonation (c to : Z) (amt : lcoins)      (* passed proposal *)
| CRemove (c : Z)                              (* passed proposal *)
| CSeed (c : Z) (amt : lcoins)                 (* environment: donated rewards booked + held by the module *)
| CRotate (a a' : Z) (pre_ok : bool).          (* x/recovery MsgRotateRecoveryAddress (see Model/Spending.v ORotate) *)

Definition co_apply (now : Z) (o : co_op) (s : cstate) : outcome cstate :=
  match o with
  | CCreate a c bonds any wr wa => co_create a c bonds any wr wa s
  | CContribute a c bonds => co_contribute a c bonds s
  | CDonate a c lock don dlock => co_donate now a c lock don dlock s
  | CWithdraw a c => co_withdraw now a c s
  | CSendDonation c to amt => co_send_donation c to amt s
  | CRemove c => co_remove c s
  | CSeed c amt =>
      match zget c (cs_colls s) with
      | None => Err "collective does not exist"
      | Some C => if negb (coins_valid amt) then Err "invalid coins" else
                  Ok (set_coll c (mkColl (co_bonds C) (cadd (co_donations C) (cof amt)) (co_any C) (co_wroles C)
                                         (co_waccts C) (co_contribs C)) s
                               (fun a => if a =? CMODULE then cadd (cs_bank s a) (cof amt) else cs_bank s a))
      end
  | CRotate a a' pre_ok =>
      (* every contributor record of the old address is deleted and written under the new address *)
      if negb pre_ok || (a =? a') then Err "rotation refused" else
      Ok (mkCS (map (fun e => (fst e, rotate_contrib a a' (snd e))) (cs_colls s)) (bank_rotate (cs_bank s) a a'))
  end.
Definition co_step (s : cstate) (e : Z * co_op) : cstate :=
  match co_apply (fst e) (snd e) s with Ok s' => s' | _ => s end.
End Cfg.
