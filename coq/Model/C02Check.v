(* C02: (1) observation type, (2) model-vs-real comparison, (3) the decidable spec checker
   applied to what the REAL application did (ABCI DeliverTx).  The checker is written from the
   property text and does not call the model's step functions ([ante], [sig_verify], ...); it
   shares with the model only the data types of transactions and the abstract sign documents. *)
From Sekai Require Import Base.Prelude Model.Auth.

(* ---------- finite oracle tables recorded by the harness (graphs of the crypto functions on
   the inputs that occur; computed with the SDK / go-ethereum libraries, not through app/ante) *)
Record tabs := mkTabs {
  tb_apk : list (pkey * addr);                    (* PubKey.Address() *)
  tb_ver : list (pkey * signdoc * sigv);          (* triples on which VerifySignature succeeds *)
  tb_rec : list (digest * sigv * addr);           (* Ethereum recovery results *)
  tb_eth : list (Z * addr)                        (* raw transaction id -> recovered sender *)
}.

Definition pkey_eqb (a b : pkey) : bool :=
  match a, b with Secp x, Secp y => x =? y | Ed x, Ed y => x =? y | Multi x, Multi y => x =? y | _, _ => false end.
Definition mode_eqb (a b : mode) : bool :=
  match a, b with MDirect, MDirect => true | MAmino, MAmino => true | MOther, MOther => true
  | MMultiDirect, MMultiDirect => true | MMultiAmino, MMultiAmino => true | _, _ => false end.
Definition doc_eqb (a b : signdoc) : bool :=
  match a, b with SignDoc m c n s t, SignDoc m' c' n' s' t' =>
    mode_eqb m m' && (c =? c') && (n =? n') && (s =? s') && (t =? t') end.
Definition digest_eqb (a b : digest) : bool :=
  match a, b with
  | DEip m s, DEip m' s' => (m =? m') && (s =? s')
  | DRaw d, DRaw d' => doc_eqb d d'
  | _, _ => false end.

Definition t_verify (T : tabs) (k : pkey) (d : signdoc) (g : sigv) : bool :=
  existsb (fun e => match e with (k', d', g') => pkey_eqb k k' && doc_eqb d d' && (g =? g') end) (tb_ver T).
Fixpoint find_rec (l : list (digest * sigv * addr)) (d : digest) (g : sigv) : option addr :=
  match l with [] => None | (d', g', a) :: r => if digest_eqb d d' && (g =? g') then Some a else find_rec r d g end.
Definition t_recover (T : tabs) (d : digest) (g : sigv) : option addr := find_rec (tb_rec T) d g.
Fixpoint find_apk (l : list (pkey * addr)) (k : pkey) : addr :=
  match l with [] => -1 | (k', a) :: r => if pkey_eqb k k' then a else find_apk r k end.
Definition t_addr_of_pk (T : tabs) (k : pkey) : addr := find_apk (tb_apk T) k.
Fixpoint find_eth (l : list (Z * addr)) (i : Z) : option addr :=
  match l with [] => None | (j, a) :: r => if i =? j then Some a else find_eth r i end.
Definition t_eth_sender (T : tabs) (i : Z) : option addr := find_eth (tb_eth T) i.

(* ---------- observations *)
Record obs := mkObs { o_pub : option pkey; o_seq : Z; o_num : Z; o_bal : Z }.
Definition ostate := list (addr * obs).
(* class: 0 accepted (code 0), 1 rejected, 2 rejected by a recovered panic, 3 panic escaped DeliverTx *)
(* so_envrej: the chain's mode filters (weak network: only small bond-denom sends and listed governance
   messages) reject this transaction -- computed by the harness from the documented rule; the model of the
   authentication steps does not contain those filters *)
Record stepobs := mkStep { so_tx : tx; so_signers : list addr; so_class : Z; so_post : ostate; so_envrej : bool }.
(* h_check: class of CheckTx on the first transaction, run on the committed state (= h_init); -1 when not run *)
(* h_check_tx: the transaction given to CheckTx when it differs from the first delivered one *)
Record c02_case := mkHist { h_genesis : bool; h_tabs : tabs; h_check : Z; h_check_tx : option tx; h_init : ostate; h_steps : list stepobs }.
Definition check_tx_of (h : c02_case) : option tx :=
  match h_check_tx h, h_steps h with
  | Some t, _ => Some t
  | None, o :: _ => Some (so_tx o)
  | None, [] => None
  end.

Definition opk_eqb (a b : option pkey) : bool :=
  match a, b with Some x, Some y => pkey_eqb x y | None, None => true | _, _ => false end.
Fixpoint list_eqb {A B} (e : A -> B -> bool) (l : list A) (m : list B) : bool :=
  match l, m with [], [] => true | x :: l', y :: m' => e x y && list_eqb e l' m' | _, _ => false end.

(* ---------- (2) model vs. real *)
Definition state_of (o : ostate) : state := map (fun e => (fst e, mkAcc (o_pub (snd e)) (o_seq (snd e)) (o_num (snd e)))) o.
Definition acc_matches (e : addr * account) (f : addr * obs) : bool :=
  (fst e =? fst f) && opk_eqb (a_pub (snd e)) (o_pub (snd f)) && (a_seq (snd e) =? o_seq (snd f)) && (a_num (snd e) =? o_num (snd f)).
Definition class_of (r : outcome state) : Z := match r with Ok _ => 0 | Err _ => 1 | Panic _ => 2 end.

Section Variant.
Variable v : variant.
(* class when a mode filter rejects: the message validation of baseapp (before the ante chain) may panic first *)
Definition envrej_class (T : tabs) (t : tx) : Z :=
  match validate_basic (t_eth_sender T) t with Panic _ => 2 | _ => 1 end.
Fixpoint steps_match (T : tabs) (c : ctxt) (s : state) (l : list stepobs) : bool :=
  match l with
  | [] => true
  | o :: r =>
      let res := ante (t_verify T) (t_recover T) (t_addr_of_pk T) (t_eth_sender T) v c s (so_tx o) in
      let s' := if so_envrej o then s else match res with Ok s' => s' | _ => s end in
      list_eqb Z.eqb (signers (so_tx o)) (so_signers o)
      && ((if so_envrej o then envrej_class T (so_tx o) else class_of res) =? so_class o)
      && list_eqb acc_matches s' (so_post o)
      && steps_match T c s' r
  end.
Definition first_envrej (h : c02_case) : bool := match h_steps h with o :: _ => so_envrej o | [] => false end.
Definition check_matches (h : c02_case) : bool :=
  match check_tx_of h with
  | Some t =>
      (h_check h <? 0) ||
      (if first_envrej h then envrej_class (h_tabs h) t =? h_check h
       else class_of (ante (t_verify (h_tabs h)) (t_recover (h_tabs h)) (t_addr_of_pk (h_tabs h)) (t_eth_sender (h_tabs h)) v
                           (mkCtx 0 (h_genesis h)) (state_of (h_init h)) t) =? h_check h)
  | None => true
  end.
Definition case_matches (h : c02_case) : bool :=
  check_matches h && steps_match (h_tabs h) (mkCtx 0 (h_genesis h)) (state_of (h_init h)) (h_steps h).
End Variant.

(* which variant of the code is running is determined by the harness with two probe transactions
   (recorded in pre.v as [code_variant]); every case of the run must then agree with it *)
Fixpoint mism_from (v : variant) (n : nat) (cs : list c02_case) : list nat :=
  match cs with [] => [] | c :: r => if case_matches v c then mism_from v (S n) r else n :: mism_from v (S n) r end.
Definition c02_mismatches (v : variant) (cs : list c02_case) : list nat := mism_from v 0 cs.

(* ---------- (3) the property, checked on what the real code did *)
Fixpoint oget (s : ostate) (a : addr) : option obs :=
  match s with [] => None | (b, x) :: r => if b =? a then Some x else oget r a end.

(* "authorised exactly that transaction for its current sequence number":
   the slot claims the signer's current sequence and
   (i)   some key whose address is the signer verifies the slot's signature over the sign document
         of this transaction at that sequence, or
   (ii)  the transaction has one message and one signer and the slot's signature is an Ethereum
         signature, over the EIP-712 digest of (message, sequence) [DIRECT] or over the sign bytes
         [other modes], recovering to the signer, or
   (iii) the single message is a raw Ethereum transaction whose recovered sender is the signer,
         whose nonce is that sequence and whose chain id is 8789 *)
Definition authorisedb (T : tabs) (genesis : bool) (pre : ostate) (t : tx) (nsigners : nat) (a : addr) (x : slot) : bool :=
  match oget pre a with
  | None => false
  | Some o =>
      (s_seq x =? o_seq o) &&
      let doc := SignDoc (s_mode x) 0 (if genesis then 0 else o_num o) (o_seq o) (t_id t) in
      ( existsb (fun e => match e with (k, d, g) => doc_eqb doc d && (s_sig x =? g) && (t_addr_of_pk T k =? a) end) (tb_ver T)
        || (Nat.eqb nsigners 1 &&
            match s_mode x, t_msgs t with
            | MDirect, [MPlain id _] => match t_recover T (DEip id (o_seq o)) (s_sig x) with Some r => r =? a | None => false end
            | MDirect, _ => false
            | _, _ => match t_recover T (DRaw doc) (s_sig x) with Some r => r =? a | None => false end
            end)
        || match s_mode x, t_msgs t with
           | MDirect, [MEth _ _ raw] =>
               r_ok raw && (r_nonce raw =? o_seq o) && (r_chain raw =? 8789)
               && match t_eth_sender T (r_id raw) with Some r => r =? a | None => false end
           | _, _ => false
           end )
  end.

Definition is_raw_eth_tx (t : tx) : bool := match t_msgs t with [MEth _ _ _] => true | _ => false end.

Definition raw_sender_is (T : tabs) (t : tx) (a : addr) : bool :=
  match t_msgs t with
  | [MEth _ _ raw] => match t_eth_sender T (r_id raw) with Some r => r =? a | None => false end
  | _ => false end.
(* clause names for unauthorised signers say where the failure sits *)
Fixpoint auth_clauses (T : tabs) (g : bool) (pre : ostate) (t : tx) (n : nat) (i : nat) (sg : list addr) (sl : list slot) : list string :=
  match sg with
  | [] => []
  | a :: sg' =>
      let ok := match sl with x :: _ => authorisedb T g pre t n a x | [] => false end in
      (if ok then []
       else if is_raw_eth_tx t then
         (match i with
          | O => if raw_sender_is T t a then ["auth.ethraw.nonce"%string]      (* right sender, wrong nonce / chain id / slot sequence *)
                 else ["auth.ethraw.sender"%string]                             (* the raw transaction is not the signer's *)
          | _ => ["auth.ethraw.cosigner"%string] end)
       else ["auth"%string])
      ++ auth_clauses T g pre t n (S i) sg' (tl sl)
  end.

Definition obs_same (a b : obs) : bool :=
  opk_eqb (o_pub a) (o_pub b) && (o_seq a =? o_seq b) && (o_num a =? o_num b) && (o_bal a =? o_bal b).
Definition ostate_same (a b : ostate) : bool := list_eqb (fun e f => (fst e =? fst f) && obs_same (snd e) (snd f)) a b.

(* after an accepted transaction: every signer's sequence grew by one (mod 2^64), nobody else's
   changed; a key on record is never replaced *)
Definition seq_ok (sg : list addr) (pre post : ostate) : bool :=
  forallb (fun e => match oget post (fst e) with
                    | None => false
                    | Some p => if mem_addr (fst e) sg then o_seq p =? wrap64 (o_seq (snd e) + 1) else o_seq p =? o_seq (snd e)
                    end) pre.
Definition key_ok (pre post : ostate) : bool :=
  forallb (fun e => match o_pub (snd e), oget post (fst e) with
                    | Some k, Some p => opk_eqb (Some k) (o_pub p)
                    | None, Some _ => true
                    | _, None => false end) pre.

Fixpoint dedup_str (l : list string) : list string :=
  match l with [] => [] | x :: r => if str_in x r then dedup_str r else x :: dedup_str r end.

(* clauses of one step that do not depend on the earlier steps *)
Definition step_clauses (T : tabs) (g : bool) (pre : ostate) (o : stepobs) : list string :=
  let t := so_tx o in
  if so_class o =? 0 then
    auth_clauses T g pre t (List.length (so_signers o)) O (so_signers o) (t_slots t)
    ++ (if seq_ok (so_signers o) pre (so_post o) then [] else ["sequence"%string])
    ++ (if key_ok pre (so_post o) then [] else ["key"%string])
  else
    (if ostate_same pre (so_post o) then [] else ["frame"%string])
    ++ (if so_class o =? 3 then ["panic"%string] else []).

(* accepted content ids so far are threaded through the history *)
Fixpoint hist_clauses (T : tabs) (g : bool) (pre : ostate) (accepted : list Z) (l : list stepobs) : list string :=
  match l with
  | [] => []
  | o :: r =>
      let t := so_tx o in
      step_clauses T g pre o
      ++ (if (so_class o =? 0) && existsb (Z.eqb (t_id t)) accepted then ["replay"%string] else [])
      ++ hist_clauses T g (so_post o) (if so_class o =? 0 then t_id t :: accepted else accepted) r
  end.
(* CheckTx admitting a transaction is held to the same authorisation rule *)
Definition check_clauses (h : c02_case) : list string :=
  match check_tx_of h with
  | Some t => if h_check h =? 0 then
                auth_clauses (h_tabs h) (h_genesis h) (h_init h) t (List.length (signers t)) O (signers t) (t_slots t)
              else if h_check h =? 3 then ["panic"%string] else []
  | None => []
  end.

(* "authorised EXACTLY that transaction": two transactions with different signed content (body or
   auth-info bytes: fee, memo, ...) were both admitted from the same state -- one by CheckTx, one by
   DeliverTx -- on the strength of the same authorisation (the same signature in the same slot, or
   the same raw Ethereum transaction).  The clause names the signing scheme. *)
Fixpoint share_sig (l m : list slot) : bool :=
  match l, m with x :: l', y :: m' => (s_sig x =? s_sig y) || share_sig l' m' | _, _ => false end.
Definition raw_id_of (t : tx) : option Z := match t_msgs t with MEth _ _ raw :: _ => Some (r_id raw) | _ => None end.
Definition msg_ident (m : msg) : Z := match m with MPlain i _ => i | MEth i _ _ => i end.
Definition same_msgs (t1 t2 : tx) : bool := list_eqb Z.eqb (map msg_ident (t_msgs t1)) (map msg_ident (t_msgs t2)).
(* which signing scheme the shared authorisation belongs to (read off the transaction the signer made) *)
Definition scheme_of (T : tabs) (g : bool) (pre : ostate) (t1 : tx) : string :=
  match raw_id_of t1, t_slots t1, signers t1 with
  | Some _, _, _ => "ethraw"%string
  | None, [x], [a] =>
      (* one DIRECT slot whose signature is NOT a key signature of the sign document: EIP-712 *)
      if mode_eqb (s_mode x) MDirect &&
         negb (match oget pre a with
               | Some o => existsb (fun e => match e with (k, d, s) =>
                             doc_eqb (SignDoc (s_mode x) 0 (if g then 0 else o_num o) (o_seq o) (t_id t1)) d
                             && (s_sig x =? s) && (t_addr_of_pk T k =? a) end) (tb_ver T)
               | None => false end)
      then "eip712"%string else "key"%string
  | _, _, _ => "key"%string
  end.
(* what was changed around the shared signature: the message list, or only fee / memo / ... *)
Definition exact_clauses (h : c02_case) : list string :=
  match h_check_tx h, h_steps h with
  | Some t1, o :: _ =>
      let t2 := so_tx o in
      if (h_check h =? 0) && (so_class o =? 0) && negb (t_id t1 =? t_id t2)
         && list_eqb Z.eqb (signers t1) (so_signers o)
         && (share_sig (t_slots t1) (t_slots t2)
             || match raw_id_of t1, raw_id_of t2 with Some i, Some j => i =? j | _, _ => false end) then
        [("exact." ++ scheme_of (h_tabs h) (h_genesis h) (h_init h) t1 ++
          (if same_msgs t1 t2 then ".fee-memo-not-signed" else ".msgs-not-signed"))%string]
      else []
  | _, _ => []
  end.
Definition case_clauses (h : c02_case) : list string :=
  dedup_str (check_clauses h ++ exact_clauses h ++ hist_clauses (h_tabs h) (h_genesis h) (h_init h) [] (h_steps h)).

(* ---------- EFFECTS (beyond the ante model: message execution).  After an accepted transaction no tracked
   account OUTSIDE its signer list may have a lower balance, another sequence or another key -- whatever inner
   payload (a raw Ethereum transaction signed by somebody else) the messages carry.  An inner payload that has
   been accepted once has no effect on its signer a second time under any envelope. *)
Definition raw_ids (t : tx) : list Z :=
  flat_map (fun m => match m with MEth _ _ raw => [r_id raw] | _ => [] end) (t_msgs t).
Definition offenders (sg : list addr) (pre post : ostate) : list addr :=
  flat_map (fun e => if mem_addr (fst e) sg then []
                     else match oget post (fst e) with
                          | Some p => if (o_bal p <? o_bal (snd e)) || negb (o_seq p =? o_seq (snd e)) || negb (opk_eqb (o_pub p) (o_pub (snd e)))
                                      then [fst e] else []
                          | None => [fst e] end) pre.
Definition payload_signer_in (T : tabs) (off : list addr) (i : Z) : bool :=
  match t_eth_sender T i with Some a => mem_addr a off | None => false end.
Fixpoint effect_hist (T : tabs) (pre : ostate) (seen_raw : list Z) (l : list stepobs) : list string :=
  match l with
  | [] => []
  | o :: r =>
      (if so_class o =? 0 then
         match offenders (so_signers o) pre (so_post o) with
         | [] => []
         | off =>
             if existsb (fun i => existsb (Z.eqb i) seen_raw && payload_signer_in T off i) (raw_ids (so_tx o))
             then ["effects.inner-payload-replayed"%string]
             else if existsb (payload_signer_in T off) (raw_ids (so_tx o))
             then ["effects.inner-payload-signer-debited"%string]
             else ["effects.nonsigner-changed"%string]
         end
       else [])
      ++ effect_hist T (so_post o) (if so_class o =? 0 then raw_ids (so_tx o) ++ seen_raw else seen_raw) r
  end.
Definition effect_clauses (h : c02_case) : list string := effect_hist (h_tabs h) (h_init h) [] (h_steps h).
Definition all_clauses (h : c02_case) : list string := dedup_str (case_clauses h ++ effect_clauses h).

Fixpoint viol_from (n : nat) (cs : list c02_case) : list (nat * list string) :=
  match cs with [] => [] | c :: r =>
    match all_clauses c with [] => viol_from (S n) r | cl => (n, cl) :: viol_from (S n) r end end.
Definition c02_violations (cs : list c02_case) : list (nat * list string) := viol_from 0 cs.
