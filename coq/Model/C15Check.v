(* C15: the decidable spec checker of the status machine applied to the REAL observations (same
   observation type and correspondence as C05).  Written from the property text; it keeps its own
   ghost bookkeeping (consecutive misses, jail time, end of inactivity, "jailed and not released")
   and does not call the model's step functions. *)
From Sekai Require Import Base.Prelude Base.Dec Model.Validators Model.C05Check.

Definition c15_case := c05_case.

(* ghost bookkeeping of the checker, per validator address *)
Record ghost := mkG {
  g_run : list (Z * Z);      (* consecutive missed blocks while active and in the commit *)
  g_jailt : list (Z * Z);    (* time of the last transition into jail *)
  g_until : list (Z * Z);    (* end of the inactivity period *)
  g_held : list Z;           (* jailed and not yet released by an unjail proposal or a rank reset *)
  g_mc0 : list (Z * Z);      (* largest MischanceConfidence in force during the current run of misses *)
  g_maxm0 : list (Z * Z)     (* largest MaxMischance in force during the current run of misses *)
}.
Definition mkG4 (g : ghost) (a b c : list (Z * Z)) (d : list Z) : ghost := mkG a b c d (g_mc0 g) (g_maxm0 g).
Definition zget (v : Z) (l : list (Z * Z)) : Z := match lookup v l with Some x => x | None => 0 end.

Definition status_of (vals : list (Z * vrec)) (v : Z) : option status := option_map v_status (lookup v vals).
Definition ostatus_eqb (a : option status) (b : status) : bool := match a with Some x => status_eqb x b | None => false end.

Local Open Scope string_scope.

Definition edge_name (o : op) (a : option status) (b : status) : string :=
  "edge:" ++ op_label o ++ ":" ++ (match a with Some x => status_name x | None => "NONE" end) ++ "->" ++ status_name b.

(* allowed status change of validator [v] (consensus key [k]) under an accepted operation *)
Definition edge_allowed (s : state) (o : op) (r : res) (v k : Z) (a : option status) (b : status) : bool :=
  match r with
  | ROk =>
    match o, a with
    | OPause t, Some SActive => (v =? t)%Z && status_eqb b SPaused
    | OUnpause t, Some SPaused => (v =? t)%Z && status_eqb b SActive
    | OActivate t, Some SInactive => (v =? t)%Z && status_eqb b SActive
    | OVotes vs, Some SActive => status_eqb b SInactive && existsb (fun x : Z * bool => (fst x =? k)%Z && negb (snd x)) vs
    | OEvidence es, Some _ => status_eqb b SJailed && existsb (fun e : Z * Z * Z => (fst (fst e) =? k)%Z) es
    | OUnjail t, Some SJailed => (v =? t)%Z && status_eqb b SInactive
    | OReset, Some _ => status_eqb b SActive
    | OUpPause vs, Some SActive => smem v vs && status_eqb b SPaused
    | OEndBlock, None => status_eqb b SActive && match lookup v (st_pend s) with Some _ => true | None => false end
    | ORotate t t', None => (v =? t')%Z && ostatus_eqb (status_of (st_vals s) t) b     (* the record moves unchanged *)
    | _, _ => false
    end
  | _ => false
  end.

Definition too_old (cfg : config) (s : state) (ih it : Z) : bool :=
  ((c_ev_age_dur cfg * NS <? st_time s - it) && (c_ev_age_blocks cfg <? st_height s - ih))%Z.

Definition step_clauses (cfg : config) (g : ghost) (s s' : state) (o : op) (r : res) : list string :=
  let vals := st_vals s in let vals' := st_vals s' in
  (* rank and streak never negative *)
  let c_neg := flat_map (fun e : Z * vrec =>
                 ((if (v_rank (snd e) <? 0)%Z then ["negative-rank"] else []) ++
                  (if (v_streak (snd e) <? 0)%Z then ["negative-streak"] else []))%list) vals' in
  (* status changes only along allowed edges; nobody disappears *)
  let c_edge := flat_map (fun e : Z * vrec =>
                  let v := fst e in let b := v_status (snd e) in
                  let a := status_of vals v in
                  if ostatus_eqb a b then [] else
                  if edge_allowed s o r v (v_cons (snd e)) a b then [] else [edge_name o a b]) vals' in
  let c_gone := if forallb (fun e : Z * vrec => match lookup (fst e) vals' with Some _ => true | None => false end
                                            || match o with ORotate t _ => (fst e =? t)%Z | _ => false end) vals then [] else ["validator-removed"] in
  (* a validator held in jail becomes active only through a rank reset (an unjail releases it first) *)
  let c_escape := flat_map (fun e : Z * vrec =>
                  let v := fst e in
                  if is_active (v_status (snd e)) && negb (ostatus_eqb (status_of vals v) SActive) && smem v (g_held g)
                     && negb (match o with OReset | ORotate _ _ => true | _ => false end)
                  then ["jail-escape:" ++ op_label o] else []) vals' in
  let c_op :=
    match o, r with
    | OVotes vs, ROk =>
        flat_map (fun x : Z * bool =>
          match vals_with_key vals (fst x) with
          | [v] =>
            match lookup v vals, lookup v vals' with
            | Some a, Some b =>
              if negb (is_active (v_status a)) then [] else
              if snd x then
                (if is_active (v_status b) && (v_rank a <=? v_rank b)%Z && (v_streak b =? v_streak a + 1)%Z then [] else ["signer-punished"])
              else
                (* consecutive misses, this one included, against the allowance IN FORCE at this block;
                   a settings change in the middle of the run is named in the clause *)
                let run := (zget v (g_run g) + 1)%Z in
                let fresh := (zget v (g_run g) =? 0)%Z in
                let mc0 := if fresh then c_mc cfg else zget v (g_mc0 g) in
                let maxm0 := if fresh then c_maxm cfg else zget v (g_maxm0 g) in
                if (c_mc cfg + c_maxm cfg <? run)%Z
                then (if status_eqb (v_status b) SInactive then [] else
                      ["downtime-missed" ++ (if (c_mc cfg <? mc0)%Z then ":confidence-lowered-mid-run"
                                             else if (c_maxm cfg <? maxm0)%Z then ":max-mischance-lowered-mid-run" else "")])
                else (if is_active (v_status b) then [] else
                      ["downtime-early" ++ (if (mc0 <? c_mc cfg)%Z then ":confidence-raised-mid-run"
                                            else if (maxm0 <? c_maxm cfg)%Z then ":max-mischance-raised-mid-run" else "")])
            | _, _ => []
            end
          | _ => []
          end) vs
    | OEvidence es, ROk =>
        flat_map (fun e : Z * Z * Z =>
          let '(k, ih, it) := e in
          if too_old cfg s ih it then [] else
          match vals_with_key vals k with
          | [v] => if ostatus_eqb (status_of vals' v) SJailed then [] else ["evidence-not-jailed"]
          | _ => []
          end) es
    | OActivate t, ROk =>
        ((if ostatus_eqb (status_of vals t) SInactive then [] else ["activate-not-inactive"]) ++
         (if (st_time s <? zget t (g_until g))%Z then ["activate-early"] else []))%list
    | OUnjail t, ROk =>
        ((if ostatus_eqb (status_of vals t) SJailed then [] else ["unjail-not-jailed"]) ++
         (if (zget t (g_jailt g) + c_unjail_max cfg * NS <? st_time s)%Z then ["unjail-late"] else []))%list
    | OPause t, ROk => if ostatus_eqb (status_of vals t) SActive then [] else ["pause-not-active"]
    | OUnpause t, ROk => if ostatus_eqb (status_of vals t) SPaused then [] else ["unpause-not-paused"]
    | _, _ => []
    end in
  (c_neg ++ c_edge ++ c_gone ++ c_escape ++ c_op)%list.

Definition zset (v x : Z) (l : list (Z * Z)) : list (Z * Z) := upd v x l.

(* ghost bookkeeping after the step *)
Definition zmove (v v' : Z) (l : list (Z * Z)) : list (Z * Z) :=
  match lookup v l with Some x => upd v' x (del v l) | None => del v' l end.
Definition ghost_next (cfg : config) (g : ghost) (s s' : state) (o : op) (r : res) : ghost :=
  let vals := st_vals s in let vals' := st_vals s' in
  match o with
  | ORotate t t' => (* the checker's counters follow the record to its new address *)
      mkG (zmove t t' (g_run g)) (zmove t t' (g_jailt g)) (zmove t t' (g_until g))
          (if smem t (g_held g) then sadd t' (sdel t (g_held g)) else sdel t' (g_held g))
          (zmove t t' (g_mc0 g)) (zmove t t' (g_maxm0 g))
  | _ =>
  (* operation-specific counters *)
  let g1 :=
    match o, r with
    | OVotes vs, ROk =>
        (* validators with a missed vote: the largest settings in force over their run of misses *)
        let missers := flat_map (fun x : Z * bool =>
                        match vals_with_key vals (fst x) with
                        | [v] => if ostatus_eqb (status_of vals v) SActive && negb (snd x) then [v] else []
                        | _ => [] end) vs in
        let bump (now : Z) (l : list (Z * Z)) :=
          fold_left (fun a v => if (zget v (g_run g) =? 0)%Z then zset v now a else zset v (Z.max now (zget v a)) a) missers l in
        mkG (fold_left (fun a (x : Z * bool) =>
               match vals_with_key vals (fst x) with
               | [v] => if ostatus_eqb (status_of vals v) SActive
                        then (if snd x then zset v 0 a else zset v (zget v a + 1) a) else a
               | _ => a end) vs (g_run g))
            (g_jailt g) (g_until g) (g_held g)
            (bump (c_mc cfg) (g_mc0 g)) (bump (c_maxm cfg) (g_maxm0 g))
    | OGenesis over, ROk =>
        (* signing infos edited in the genesis file are inputs of the new chain: the run of misses of
           their validators starts from the imported counters, under the settings in force *)
        let tg := flat_map (fun e : Z * sinfo => match vals_with_key vals (fst e) with
                                                 | [v] => [(v, (si_conf (snd e) + si_misch (snd e))%Z)] | _ => [] end) over in
        mkG (fold_left (fun a (e : Z * Z) => zset (fst e) (snd e) a) tg (g_run g)) (g_jailt g) (g_until g) (g_held g)
            (fold_left (fun a (e : Z * Z) => zset (fst e) (c_mc cfg) a) tg (g_mc0 g))
            (fold_left (fun a (e : Z * Z) => zset (fst e) (c_maxm cfg) a) tg (g_maxm0 g))
    | OEvidence es, ROk =>
        mkG4 g (g_run g) (g_jailt g)
            (fold_left (fun a (e : Z * Z * Z) =>
               let '(k, ih, it) := e in
               if too_old cfg s ih it then a else
               match vals_with_key vals k with [v] => zset v (st_time s) a | _ => a end) es (g_until g))
            (g_held g)
    | OActivate t, ROk => mkG4 g (zset t 0 (g_run g)) (g_jailt g) (g_until g) (g_held g)
    | OUnjail t, ROk => mkG4 g (g_run g) (g_jailt g) (g_until g) (sdel t (g_held g))
    | OReset, ROk => mkG [] (g_jailt g) [] [] [] []
    | _, _ => g
    end in
  (* transitions observed in this step *)
  fold_left (fun a (e : Z * vrec) =>
    let v := fst e in let b := v_status (snd e) in
    if ostatus_eqb (status_of vals v) b then a else
    match b with
    | SJailed => mkG4 a (g_run a) (zset v (st_time s) (g_jailt a)) (g_until a) (sadd v (g_held a))
    | SInactive => match o with
                   | OVotes _ => mkG4 a (g_run a) (g_jailt a) (zset v (st_time s + c_downtime cfg * NS)%Z (g_until a)) (g_held a)
                   | _ => a end
    | SActive => mkG4 a (g_run a) (g_jailt a) (g_until a) (sdel v (g_held a))   (* an escape is reported once *)
    | _ => a
    end) vals' g1
  end.

Fixpoint c15_clauses (cfg : config) (g : ghost) (s : state) (l : list (op * obs)) : list string :=
  match l with
  | [] => []
  | (o, b) :: r =>
    let s' := observe s o b in
    (step_clauses cfg g s s' o (o_res b) ++ c15_clauses (next_cfg cfg o) (ghost_next cfg g s s' o (o_res b)) s' r)%list
  end.

Section Run.
Variable cfgs : list config.
Variable init : state.
Definition c15_mismatches (cs : list c15_case) : list nat := c05_mismatches cfgs init cs.
Definition c15_case_clauses (c : c15_case) : list string :=
  match c with Case ci steps =>
    match nth_error cfgs ci with None => ["cfg"] | Some cfg => c15_clauses cfg (mkG [] [] [] [] [] []) init steps end end.
Fixpoint c15_violations_from (n : nat) (cs : list c15_case) : list (nat * list string) :=
  match cs with [] => [] | c :: r =>
    match c15_case_clauses c with [] => c15_violations_from (S n) r | cl => (n, cl) :: c15_violations_from (S n) r end end.
Definition c15_violations (cs : list c15_case) : list (nat * list string) := c15_violations_from 0 cs.
End Run.
