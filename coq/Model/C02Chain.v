(* C02Chain.v -- data types for the regenerated description of the ante chain (Gen/C02AnteChain.v,
   written by harness/cmd/gen_c02ante from app/ante/*.go) and the decidable conditions on it.
   Definitions only. *)
From Sekai Require Import Base.Prelude.

(* shape of one `return` statement of a decorator's AnteHandle *)
Inductive ret_shape :=
| RNext                    (* return next(<ctx>, tx, simulate): the chain continues with the SAME tx / simulate *)
| RErr                     (* return <ctx>, <non-nil error>: a wrapped / constructed error, or an error variable guarded by `if err != nil` *)
| ROkNoNext                (* return <ctx>, nil: ACCEPTS without running the rest of the chain *)
| ROther (what : string).  (* anything else: altered next arguments, naked return, unguarded error variable ... *)

(* one decorator of NewAnteHandler: where its code lives and its name *)
Inductive origin := Custom | Sdk.
Record chain_entry := mkEntry { ce_origin : origin; ce_name : string }.

Definition ret_ok (r : ret_shape) : bool := match r with RNext | RErr => true | _ => false end.
Definition is_next (r : ret_shape) : bool := match r with RNext => true | _ => false end.

(* every return either continues the chain or rejects, and at least one continues *)
Definition decorator_continues (rs : list ret_shape) : bool := forallb ret_ok rs && existsb is_next rs.

Fixpoint lookup_returns (tbl : list (string * list ret_shape)) (n : string) : option (list ret_shape) :=
  match tbl with [] => None | (m, rs) :: r => if String.eqb m n then Some rs else lookup_returns r n end.

(* every custom decorator of the chain has been analysed and continues on every accepting path *)
Definition chain_continues (chain : list chain_entry) (tbl : list (string * list ret_shape)) : bool :=
  forallb (fun e => match ce_origin e with
                    | Sdk => true
                    | Custom => match lookup_returns tbl (ce_name e) with Some rs => decorator_continues rs | None => false end
                    end) chain.

(* [want] occurs in [names] as a subsequence (order preserved) *)
Fixpoint subseq (want names : list string) : bool :=
  match want, names with
  | [], _ => true
  | _ :: _, [] => false
  | w :: want', n :: names' => if String.eqb w n then subseq want' names' else subseq want names'
  end.

Definition origin_tag (o : origin) : string := match o with Custom => "custom:" | Sdk => "sdk:" end.
Definition entry_tag (e : chain_entry) : string := (origin_tag (ce_origin e) ++ ce_name e)%string.

(* the authentication steps the model Auth.ante is the projection of, in chain order *)
Definition auth_steps : list string :=
  ["sdk:ValidateBasicDecorator"; "custom:SetPubKeyDecorator"; "sdk:SigGasConsumeDecorator";
   "custom:SigVerificationDecorator"; "sdk:IncrementSequenceDecorator"]%string.
(* the SDK decorators (cosmos-sdk v0.47.6, pinned by go.mod) known to call next on every accepting path *)
Definition sdk_known : list string :=
  ["SetUpContextDecorator"; "ExtensionOptionsDecorator"; "ValidateBasicDecorator"; "TxTimeoutHeightDecorator";
   "ValidateMemoDecorator"; "ConsumeGasForTxSizeDecorator"; "ValidateSigCountDecorator"; "DeductFeeDecorator";
   "SigGasConsumeDecorator"; "IncrementSequenceDecorator"]%string.
Definition sdk_all_known (chain : list chain_entry) : bool :=
  forallb (fun e => match ce_origin e with Sdk => str_in (ce_name e) sdk_known | Custom => true end) chain.

Definition is_nil_str (l : list string) : bool := match l with [] => true | _ => false end.
Definition chain_ok (chain : list chain_entry) (tbl : list (string * list ret_shape)) (errors : list string) : bool :=
  is_nil_str errors && chain_continues chain tbl && sdk_all_known chain && subseq auth_steps (map entry_tag chain).
