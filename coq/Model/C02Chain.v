(* C02Chain.v -- data types for the regenerated description of the ante chain (Gen/C02AnteChain.v,
   written by harness/cmd/gen_c02ante from app/ante/*.go) and the decidable conditions on it.
   Definitions only. *)
From Sekai Require Import Base.Prelude.

(* shape of one `return` statement of a decorator's AnteHandle *)
Inductive ret_shape :=
| RNext                    (* return next(<ctx>, tx, simulate): the chain continues with the SAME tx / simulate *)
| RErr                     (* return <ctx>, <non-nil error>: a wrapped / constructed error, or an error variable guarded by `if err != nil` *)
| ROkNoNext                (* return <ctx>, nil: ACCEPTS without running the rest of the chain *)
| ROther (what : string).  (* anything else: altered next arguments, naked return, unguarded error variable ... *)

(* one decorator of NewAnteHandler: where its code lives and its name *)
Inductive origin := Custom | Sdk.
Record chain_entry := mkEntry { ce_origin : origin; ce_name : string }.

Definition ret_ok (r : ret_shape) : bool := match r with RNext | RErr => true | _ => false end.
Definition is_next (r : ret_shape) : bool := match r with RNext => true | _ => false end.

(* every return either continues the chain or rejects, and at least one continues *)
Definition decorator_continues (rs : list ret_shape) : bool := forallb ret_ok rs && existsb is_next rs.

Fixpoint lookup_returns (tbl : list (string * list ret_shape)) (n : string) : option (list ret_shape) :=
  match tbl with [] => None | (m, rs) :: r => if String.eqb m n then Some rs else lookup_returns r n end.

(* every custom decorator of the chain has been analysed and continues on every accepting path *)
Definition chain_continues (chain : list chain_entry) (tbl : list (string * list ret_shape)) : bool :=
  forallb (fun e => match ce_origin e with
                    | Sdk => true
                    | Custom => match lookup_returns tbl (ce_name e) with Some rs => decorator_continues rs | None => false end
                    end) chain.

(* [want] occurs in [names] as a subsequence (order preserved) *)
Fixpoint subseq (want names : list string) : bool :=
  match want, names with
  | [], _ => true
  | _ :: _, [] => false
  | w :: want', n :: names' => if String.eqb w n then subseq want' names' else subseq want names'
  end.

Definition origin_tag (o : origin) : string := match o with Custom => "custom:" | Sdk => "sdk:" end.
Definition entry_tag (e : chain_entry) : string := (origin_tag (ce_origin e) ++ ce_name e)%string.

(* the authentication steps the model Auth.ante is the projection of, in chain order *)
Definition auth_steps : list string :=
  ["sdk:ValidateBasicDecorator"; "custom:SetPubKeyDecorator"; "sdk:SigGasConsumeDecorator";
   "custom:SigVerificationDecorator"; "sdk:IncrementSequenceDecorator"]%string.
(* the SDK decorators (cosmos-sdk v0.47.6, pinned by go.mod) known to call next on every accepting path *)
Definition sdk_known : list string :=
  ["SetUpContextDecorator"; "ExtensionOptionsDecorator"; "ValidateBasicDecorator"; "TxTimeoutHeightDecorator";
   "ValidateMemoDecorator"; "ConsumeGasForTxSizeDecorator"; "ValidateSigCountDecorator"; "DeductFeeDecorator";
   "SigGasConsumeDecorator"; "IncrementSequenceDecorator"]%string.
Definition sdk_all_known (chain : list chain_entry) : bool :=
  forallb (fun e => match ce_origin e with Sdk => str_in (ce_name e) sdk_known | Custom => true end) chain.

Definition is_nil_str (l : list string) : bool := match l with [] => true | _ => false end.
Definition chain_ok (chain : list chain_entry) (tbl : list (string * list ret_shape)) (errors : list string) : bool :=
  is_nil_str errors && chain_continues chain tbl && sdk_all_known chain && subseq auth_steps (map entry_tag chain).

(* ---- the code the model Auth.v was written from, pinned by fingerprint (sha256 prefix of each function
   printed from its AST, comments excluded).  An edit to any of them asks for the model, the harness
   oracles and these values to be looked at again. *)
Definition c02_pinned_fingerprints : list (string * string) := [
  ("app/ante/sigverify.go:GenEIP712SignBytesFromMsg", "948d90ce29ff45ef");
  ("app/ante/sigverify.go:GetSignerAcc", "31f84b5321933232");
  ("app/ante/sigverify.go:NewSetPubKeyDecorator", "99060ebf93e49b7e");
  ("app/ante/sigverify.go:NewSigVerificationDecorator", "6483f9fd98ebebf7");
  ("app/ante/sigverify.go:OnlyLegacyAminoSigners", "7befbcc9e3c0bb56");
  ("app/ante/sigverify.go:SetPubKeyDecorator.AnteHandle", "523b184d68d64640");
  ("app/ante/sigverify.go:SigVerificationDecorator.AnteHandle", "e9fbe607b4f3b1e2");
  ("app/ante/sigverify.go:VerifyEthereumSignature", "bc6053c1ec9dcd4b");
  ("app/ante/sigverify.go:init", "ae435a7bfa89e27d");
  ("app/ante/sigverify.go:signatureDataToBz", "4f18324fec4f4c84");
  ("app/ante/ante.go:NewAnteHandler", "9fd0d52c5534ce92");
  ("x/tokens/types/msg_eth_tx.go:GetSenderAddrFromRawTxBytes", "07910cb81f8fd2d5");
  ("x/tokens/types/msg_eth_tx.go:MsgEthereumTx.AsMessage", "c021aa249bf7d52c");
  ("x/tokens/types/msg_eth_tx.go:MsgEthereumTx.AsTransaction", "e657fd0967658fa8");
  ("x/tokens/types/msg_eth_tx.go:MsgEthereumTx.FromEthereumTx", "ef3c699d6f5e41ea");
  ("x/tokens/types/msg_eth_tx.go:MsgEthereumTx.GetEthSender", "2d11010d58180a87");
  ("x/tokens/types/msg_eth_tx.go:MsgEthereumTx.GetMsgs", "a1380a8d39ecced7");
  ("x/tokens/types/msg_eth_tx.go:MsgEthereumTx.GetSignBytes", "113be67d37fc0ff9");
  ("x/tokens/types/msg_eth_tx.go:MsgEthereumTx.GetSigners", "59561f83d6a04779");
  ("x/tokens/types/msg_eth_tx.go:MsgEthereumTx.Route", "e47c40ed412f6e97");
  ("x/tokens/types/msg_eth_tx.go:MsgEthereumTx.Type", "53e088d7b4cce603");
  ("x/tokens/types/msg_eth_tx.go:MsgEthereumTx.ValidateBasic", "aa9c16981c35ccd0");
  ("x/tokens/types/msg_eth_tx.go:validateTx", "0ec9dee9a5cff032");
  ("types/Msg.go:MsgType", "52e577bb74833531")]%string.
(* ---- every call site in non-test code of app/, x/, types/ that writes an account's key, sequence, number
   or record.  Only SetPubKeyDecorator does (plus a test helper compiled into package app); the SDK's own
   IncrementSequence / bank account creation are outside /repo.  A new writer (e.g. address rotation starting to
   move keys or sequences) breaks this obligation. *)
Definition c02_pinned_writers : list string := [
  "app/ante/sigverify.go:SetPubKeyDecorator.AnteHandle:SetAccount";
  "app/ante/sigverify.go:SetPubKeyDecorator.AnteHandle:SetPubKey";
  "app/test_helpers.go:saveAccount:NewAccountWithAddress";
  "app/test_helpers.go:saveAccount:SetAccount"]%string.

Fixpoint strs_eqb (l m : list string) : bool :=
  match l, m with [], [] => true | x :: l', y :: m' => String.eqb x y && strs_eqb l' m' | _, _ => false end.
Fixpoint pairs_eqb (l m : list (string * string)) : bool :=
  match l, m with
  | [], [] => true
  | (a, b) :: l', (c, d) :: m' => String.eqb a c && String.eqb b d && pairs_eqb l' m'
  | _, _ => false end.
Definition audited_code_pinned (fps : list (string * string)) (writers : list string) : bool :=
  pairs_eqb fps c02_pinned_fingerprints && strs_eqb writers c02_pinned_writers.
