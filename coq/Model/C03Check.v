(* C03: the observation type written by harness/cmd/c03 (one per DeliverTx / BeginBlock /
   EndBlock of the real application), the correspondence check of the handler models of
   Model/Debit.v against what the real code did, and the decidable spec checker
   [c03_violations], written from the property text (it does not call the model's [exec]). *)
From Sekai Require Import Base.Prelude Model.Debit Gen.DebitSites.
Local Open Scope string_scope.
Local Open Scope list_scope.
Local Open Scope Z_scope.

(* authorisation facts read from the state BEFORE the transaction *)
Inductive c03_fact :=
| FCustody (owner benef : Z) (cs reward : coins) (legit_votes n mode : Z) (enabled pw_ok : bool)
           (caller_is_fresh_custodian : bool) (recorded_votes : Z) (caller_listed : bool)
    (* the pending custody transfer named by an approve/confirm message of this transaction.
       [legit_votes] = DISTINCT listed custodians whose approval of it was accepted so far, from
       the harness' ghost record of accepted messages (not from the module's vote store);
       number of custodians, required percentage; is the caller a listed custodian who has not
       approved yet; votes the module has on record; is the caller listed at all *)
| FRotate (owner new : Z) (proof_ok : bool)
| FRotateRR (owner new : Z) (holder_amount supply : Z)
| FPool (share_denom native_denom : string) (keep : Z)
| FEscrow (kind : string) (module : Z) (d : string) (pending_after balance_after pending_before balance_before : Z)
    (* what the module's escrow account holds in [d] and the sum of the pending entries of this
       claim kind owned by accounts that did not sign, after and before the step *)
| FRightful (kind : string) (accepted : bool)
| FAuthorised (a : Z) (cs : coins).
    (* the only signature material of the transaction that account [a] produced covers a debit of
       at most [cs] (inner payload / first message, plus the fee): [a] is not among [k_signers] *)
    (* the signer settled a pending entry of his own (per the harness' ghost record of accepted
       messages): was the transaction accepted *)
    (* a staking pool's share token: staking x of the native denom mints x * keep / 10^18 shares *)

(* inputs of the handler model for single-message transactions of a modelled kind *)
Record c03_model := mkModel {
  mi_handler : Z;
  mi_msg : msg;
  mi_bal : list (Z * string * Z);                 (* pre-state balances of the accounts involved *)
  mi_claims : list claim;                         (* pre-state claims of the kind involved *)
  mi_fee : Z;                                     (* ukex fee charged to the first signer by the ante handler *)
  mi_ok : bool                                    (* the transaction was accepted *)
}.

Record c03_case := mkCase {
  k_phase : Z;                                    (* 0 = DeliverTx, 1 = BeginBlock, 2 = EndBlock+Commit, 3 = genesis round trip *)
  k_signers : list Z;
  k_bal : list (Z * string * Z * Z);              (* account, denom, before, after -- changed entries only *)
  k_claims : list (Z * string * Z * option Z * string * Z * Z);
                                                  (* owner, kind, id, payee, denom, before, after -- changed only *)
  k_facts : list c03_fact;
  k_model : option c03_model
}.

Definition is_user (a : Z) : bool := a <? 1000.

(* ------------------------------------------------------------------ correspondence *)
(* two handler models follow the REGENERATED table: ClaimUndelegation corresponds to the guarded
   model as long as the msg server compares the undelegation's owner with the sender (a regression
   makes the unguarded variant the corresponding one, and the monitor then reports the debit);
   JoinDappVerifierWithBond corresponds to the repaired model once it debits the signer *)
Definition sites_of (h : string) : list debit_site :=
  flat_map (fun e => if String.eqb (fst e) h then snd e else []) handlers.
Definition claim_undelegation_guarded : bool :=
  existsb s_guarded (sites_of "multistaking.ClaimUndelegation").
Definition join_verifier_debits_signer : bool :=
  forallb (fun s => match s_call s, s_from s with BToModule, OSigner _ => true | BToModule, _ => false | _, _ => true end)
          (sites_of "layer2.JoinDappVerifierWithBond").

Definition handler_of (n : Z) : option handler :=
  match n with
  | 1 => Some (if claim_undelegation_guarded then h_claim_undelegation else h_claim_undelegation_unguarded)
  | 2 => Some h_claim_rewards
  | 3 => Some h_tip_request
  | 4 => Some h_tip_cancel
  | 5 => Some h_tip_handle
  | 6 => Some h_l2_reclaim
  | 7 => Some (if join_verifier_debits_signer then h_l2_join_verifier_fixed else h_l2_join_verifier)
  | 8 => Some h_bank_send
  | 9 => Some h_claim_matured_one
  | 10 => Some h_collective_withdraw
  | _ => None
  end.

Fixpoint lookup_bal (l : list (Z * string * Z)) (a : Z) (d : string) : Z :=
  match l with
  | [] => 0
  | (a', d', v) :: r => if (a' =? a) && String.eqb d' d then v else lookup_bal r a d
  end.
Fixpoint lookup_delta (l : list (Z * string * Z * Z)) (a : Z) (d : string) : option (Z * Z) :=
  match l with
  | [] => None
  | (a', d', b, f) :: r => if (a' =? a) && String.eqb d' d then Some (b, f) else lookup_delta r a d
  end.
Definition claim_amount (l : list claim) (k : string) (id : Z) (o : Z) (d : string) : Z :=
  fold_right (fun c acc => if String.eqb (c_kind c) k && (c_id c =? id) && (c_owner c =? o)
                           then amount_of (c_coins c) d + acc else acc) 0 l.

Definition FEE_DENOM : string := "ukex".
Definition model_matches (c : c03_case) (mi : c03_model) : bool :=
  match handler_of (mi_handler mi) with
  | None => false
  | Some h =>
    (* the ante handler charges the fee to the first signer BEFORE the message handler runs *)
    let payer := hd 0 (k_signers c) in
    let fee a d := if String.eqb d FEE_DENOM then
                     (if a =? payer then - mi_fee mi else 0) + (if a =? MOD_FEES then mi_fee mi else 0) else 0 in
    let s0 := mkState (fun a d => lookup_bal (mi_bal mi) a d + fee a d) (mi_claims mi) in
    let r := exec h (mi_msg mi) s0 in
    let s1 := match r with Ok s => s | _ => s0 end in
    Bool.eqb (is_ok r) (mi_ok mi)
    (* every observed balance row of an account the model was given (and of every user) is the
       model's prediction; unchanged given balances are predicted unchanged *)
    && forallb (fun e => let '(a, d, b, f) := e in
                 if existsb (fun x => let '(a', _, _) := x in a' =? a) (mi_bal mi)
                 then (b =? lookup_bal (mi_bal mi) a d) && (f =? bal s1 a d)
                 else negb (is_user a)) (k_bal c)
    && forallb (fun e => let '(a, d, v) := e in
                 match lookup_delta (k_bal c) a d with
                 | Some _ => true
                 | None => bal s1 a d =? v end) (mi_bal mi)
    (* claims: every observed change is predicted, every given claim ends as predicted *)
    && forallb (fun e => let '(o, k, id, _, d, b, f) := e in
                 (claim_amount (mi_claims mi) k id o d =? b) && (claim_amount (claims s1) k id o d =? f)) (k_claims c)
    && forallb (fun cl => forallb (fun x =>
                 let d := fst x in
                 let f := claim_amount (claims s1) (c_kind cl) (c_id cl) (c_owner cl) d in
                 let b := claim_amount (mi_claims mi) (c_kind cl) (c_id cl) (c_owner cl) d in
                 (f =? b) || existsb (fun e => let '(o, k, id, _, d', _, f') := e in
                                       (o =? c_owner cl) && String.eqb k (c_kind cl) && (id =? c_id cl) && String.eqb d' d && (f' =? f))
                                     (k_claims c)) (c_coins cl)) (mi_claims mi)
  end.

Definition case_matches (c : c03_case) : bool :=
  match k_model c with None => true | Some mi => model_matches c mi end.

Fixpoint mismatches_from (n : nat) (cs : list c03_case) : list nat :=
  match cs with [] => [] | c :: r => if case_matches c then mismatches_from (S n) r else n :: mismatches_from (S n) r end.
Definition c03_mismatches (cs : list c03_case) : list nat := mismatches_from 0 cs.

(* ------------------------------------------------------------------ the property, on real observations *)
Definition signed (c : c03_case) (a : Z) : bool := in_accts a (k_signers c).

Definition bal_delta (c : c03_case) (a : Z) (d : string) : Z :=
  match lookup_delta (k_bal c) a d with Some (b, f) => f - b | None => 0 end.

(* custody: has the pending transfer of [o] reached its threshold counting only listed
   custodians (the caller's own approval included when he is one and has not voted yet) *)
Definition custody_threshold (f : c03_fact) : bool :=
  match f with
  | FCustody _ _ _ _ legit n mode enabled pw_ok fresh _ _ =>
      (if enabled && (0 <? n) then mode * n <=? (legit + (if fresh then 1 else 0)) * 100 else true) && pw_ok
  | _ => false
  end.
Definition custody_share (reward : coins) (n : Z) (d : string) : Z :=
  match reward with (rd, x) :: _ => if String.eqb rd d && (0 <? n) then x / n else 0 | [] => 0 end.

Fixpoint custody_fact_of (o : Z) (fs : list c03_fact) : option c03_fact :=
  match fs with
  | [] => None
  | (FCustody o' _ _ _ _ _ _ _ _ _ _ _ as f) :: r => if o' =? o then Some f else custody_fact_of o r
  | _ :: r => custody_fact_of o r
  end.
Fixpoint rotate_fact_of (o : Z) (fs : list c03_fact) : option (Z * bool) :=
  match fs with
  | [] => None
  | FRotate o' nw ok :: r => if o' =? o then Some (nw, ok) else rotate_fact_of o r
  | FRotateRR o' nw amt sup :: r => if o' =? o then Some (nw, sup <=? amt * 2) else rotate_fact_of o r
  | _ :: r => rotate_fact_of o r
  end.

Fixpoint authorised_of (a : Z) (fs : list c03_fact) : option coins :=
  match fs with
  | [] => None
  | FAuthorised a' cs :: r => if a' =? a then Some cs else authorised_of a r
  | _ :: r => authorised_of a r
  end.

(* one decreased balance of a user who did not sign: which clause (if any) does it break *)
Definition coin_clause (c : c03_case) (a : Z) (d : string) (b f : Z) : list string :=
  if (b <=? f) || negb (is_user a) || signed c a then [] else
  let drop := b - f in
  match authorised_of a (k_facts c) with
  | Some cs => if drop <=? amount_of cs d then [] else ["debit-exceeds-what-was-signed"]
  | None =>
  match custody_fact_of a (k_facts c) with
  | Some (FCustody _ benef cs reward legit n mode enabled pw_ok fresh recorded listed as fact) =>
      let share := if fresh then custody_share reward n d else 0 in
      let full_share := custody_share reward n d in
      (* who was paid a reward share that is not due: a stranger, or a listed custodian whose
         approval had already been counted (a repeat must neither be paid nor counted again) *)
      let undue := if fresh then [] else if 0 <? full_share then
                     (if listed then ["custody-repeat-approval-rewarded"] else ["custody-reward-to-non-custodian"]) else [] in
      (* a caller who is not on the custodian list IN FORCE (never was, or was removed / dropped)
         can neither be paid nor complete a release, whatever the recorded votes say *)
      if negb listed then
        "custody-reward-to-non-custodian" ::
        (if drop <=? amount_of reward d then [] else ["custody-release-by-non-custodian"])
      else
      if custody_threshold fact then
        (* released: at most the requested amount plus the caller's reward share, and the
           requested amount arrives at the recorded beneficiary *)
        (if drop <=? amount_of cs d + (if fresh then share else full_share) then [] else ["custody-release-exceeds-request"]) ++
        undue ++
        (* (a beneficiary who signed this transaction also paid its fee, which went to the fee collector) *)
        (if (benef =? a) || (amount_of cs d <=? bal_delta c benef d + (if signed c benef then Z.max 0 (bal_delta c MOD_FEES d) else 0))
            || (drop <=? full_share) then []
         else ["custody-release-not-to-beneficiary"])
      else
        (* distinct listed custodians (the caller included when his approval is new) fall short
           of the configured share: nothing but a due reward share may leave the owner *)
        if fresh then (if drop <=? share then []
                       else if recorded =? legit then ["custody-threshold-arithmetic"]
                       else ["custody-release-below-threshold"])
        else if drop <=? full_share then undue
        else undue ++ [if listed then "custody-repeat-approval-released" else "custody-release-below-threshold"]
  | _ =>
      match rotate_fact_of a (k_facts c) with
      | Some (nw, true) => if drop <=? bal_delta c nw d then [] else ["rotation-not-to-new-address"]
      | Some (_, false) => ["rotation-without-proof"]
      | None => ["coins"]
      end
  end
  end.

(* claims: per (owner, denom), the net change of the owner's claims (those whose recorded payee
   signed are the payee's to release) plus the change of his balance must not be negative *)
Definition claim_row := (Z * string * Z * option Z * string * Z * Z)%type.
Definition row_owner (e : claim_row) : Z := let '(o, _, _, _, _, _, _) := e in o.
Definition row_kind (e : claim_row) : string := let '(_, k, _, _, _, _, _) := e in k.
Definition row_denom (e : claim_row) : string := let '(_, _, _, _, d, _, _) := e in d.
Definition row_delta (e : claim_row) : Z := let '(_, _, _, _, _, b, f) := e in f - b.
Definition row_payee_signed (c : c03_case) (e : claim_row) : bool :=
  let '(_, _, _, p, _, _, _) := e in match p with Some x => signed c x | None => false end.

Definition claims_net (c : c03_case) (skip_kind : string) (o : Z) (d : string) : Z :=
  fold_right (fun e acc => if (row_owner e =? o) && String.eqb (row_denom e) d && negb (row_payee_signed c e)
                              && negb (String.eqb (row_kind e) skip_kind)
                           then row_delta e + acc else acc) 0 (k_claims c).

Definition claim_clause (c : c03_case) (skip_kind : string) (e : claim_row) : list string :=
  let o := row_owner e in let d := row_denom e in
  if (0 <=? row_delta e) || negb (is_user o) || signed c o || row_payee_signed c e
     || String.eqb (row_kind e) skip_kind then [] else
  if 0 <=? claims_net c skip_kind o d + bal_delta c o d then [] else
  match rotate_fact_of o (k_facts c) with
  | Some (nw, true) => if 0 <=? claims_net c skip_kind o d + claims_net c skip_kind nw d then []
                       else ["rotation-claims-not-to-new-address"]
  | Some (_, false) => [String.append "rotation-below-half-" (row_kind e)]
  | None => [String.append "claim-" (row_kind e)]
  end.

(* value (in native units of [d]) of the staked shares account [o] gained in this step *)
Definition share_credit (c : c03_case) (o : Z) (d : string) : Z :=
  fold_right (fun f acc => match f with
      | FPool sd nd keep =>
          if String.eqb nd d && (0 <? keep) then
            let gained := bal_delta c o sd + claims_net c "" o sd in
            (if 0 <? gained then (gained * 1000000000000000000 + keep - 1) / keep + 1 else 0) + acc
          else acc
      | _ => acc end) 0 (k_facts c).
Definition block_claim_clause (c : c03_case) (e : claim_row) : list string :=
  let o := row_owner e in let d := row_denom e in
  if (0 <=? row_delta e) || negb (is_user o) then [] else
  if 0 <=? claims_net c "" o d + bal_delta c o d + share_credit c o d then []
  else [String.append "block-claim-" (row_kind e)].

(* a rotation moves claims: per claim kind and denom the old and the new address together hold
   after the transaction exactly what they held before (nothing lost, reset or duplicated) *)
Definition kind_net (c : c03_case) (k : string) (o : Z) (d : string) : Z :=
  fold_right (fun e acc => if (row_owner e =? o) && String.eqb (row_denom e) d && String.eqb (row_kind e) k
                           then row_delta e + acc else acc) 0 (k_claims c).
Definition rotation_clauses (c : c03_case) : list string :=
  flat_map (fun f =>
    let check old nw :=
      flat_map (fun e => if ((row_owner e =? old) || (row_owner e =? nw))
                            && negb (kind_net c (row_kind e) old (row_denom e) + kind_net c (row_kind e) nw (row_denom e) =? 0)
                         then [String.append "rotation-claim-not-preserved-" (row_kind e)] else []) (k_claims c) in
    match f with
    | FRotate old nw _ => check old nw
    | FRotateRR old nw _ _ => check old nw
    | _ => [] end) (k_facts c).

(* every non-signer's escrowed entry stays backed, and a rightful settlement is not refused *)
Definition escrow_clauses (c : c03_case) : list string :=
  flat_map (fun f => match f with
    | FEscrow k _ _ pa ba pb bb =>
        (* the step that opens or widens a shortfall is the one reported *)
        if pa - ba <=? Z.max 0 (pb - bb) then [] else [String.append "escrow-unbacked-" k]
    | FRightful k ok => if ok then [] else [String.append "rightful-settlement-refused-" k]
    | _ => [] end) (k_facts c).

Fixpoint dedup (l : list string) : list string :=
  match l with [] => [] | x :: r => if str_in x r then dedup r else x :: dedup r end.

Definition case_clauses (c : c03_case) : list string :=
  dedup (escrow_clauses c ++
  if k_phase c =? 0 then
    flat_map (fun e => let '(a, d, b, f) := e in coin_clause c a d b f) (k_bal c) ++
    flat_map (claim_clause c "") (k_claims c) ++ rotation_clauses c
  else if k_phase c =? 3 then
    (* genesis export + import of the modules holding the monitored claims: right afterwards every
       balance and every claim record is what it was *)
    map (fun e => String.append "genesis-claim-" (row_kind e)) (k_claims c) ++
    (match k_bal c with [] => [] | _ => ["genesis-coins"] end)
  else
    (* begin / end of block: nobody signed; user balances never go down; a user's recorded claims
       (every kind, per denom) may only grow, be paid out to their owner, or be converted into
       staked shares of the same owner at the pool's rate (auto-compounding of rewards) *)
    flat_map (fun e => let '(a, d, b, f) := e in
                if (b <=? f) || negb (is_user a) then [] else ["block-coins"]) (k_bal c) ++
    flat_map (block_claim_clause c) (k_claims c)).
Fixpoint violations_from (n : nat) (cs : list c03_case) : list (nat * list string) :=
  match cs with [] => [] | c :: r =>
    match case_clauses c with [] => violations_from (S n) r | cl => (n, cl) :: violations_from (S n) r end end.
Definition c03_violations (cs : list c03_case) : list (nat * list string) := violations_from 0 cs.
