(* Layer-2 dApp bonds and LP pool: executable model of
     x/layer2/keeper/msg_server.go   CreateDappProposal / BondDappProposal / ReclaimDappBondProposal /
                                     RedeemDappPoolTx / SwapDappPoolTx / ConvertDappPoolTx (message level)
     x/layer2/keeper/abci.go         EndBlocker (bootstrap part) / FinishDappBootstrap
     x/layer2/keeper/dapp.go         GetUserDappBonds (prefix iteration) / ExecuteDappRemove
     x/layer2/keeper/lp_swap_redeem_convert.go  RedeemDappPoolTx / SwapDappPoolTx / ConvertDappPoolTx (keeper level)
     x/layer2/types/layer2.go        GetSpendingPoolLpDeposit / GetLpTokenSupply
   Definitions only.  The three [variant] bits say which of the defects found in the unchanged tree
   are present in the tree under test (the harness determines them with three probes); [as_is] is the
   tree before the repairs, [repaired] the tree with all patches of /verif/fixes applied. *)
From Sekai Require Import Base.Prelude Base.Dec.

Record variant := mkVariant {
  v_prefix : bool;            (* GetUserDappBonds iterates the raw key prefix name++..., and "" is a legal dApp name *)
  v_zero_blocks : bool;       (* ExecuteDappRemove sends zero-amount bond records (the send fails, nobody is refunded) *)
  v_create_unchecked : bool;  (* CreateDappProposal does not compare the creation bond with MaxDappBond *)
  v_convert_stale : bool;     (* ConvertDappPoolTx swaps into the target record read BEFORE the redemption *)
  v_create_negative : bool;   (* CreateDappProposal accepts a negative bond from a holder of the bond-free permission *)
  v_upsert_raw : bool;        (* the upsert-dApp proposal stores the proposal's record wholesale: TotalBond, Status, CreationTime, ... *)
  v_fee_unchecked : bool      (* CreateDappProposal accepts any PoolFee, also negative or above 1 *)
}.
Definition as_is : variant := mkVariant true true true true true true true.       (* the tree before any repair *)
Definition repaired : variant := mkVariant false false false false false false false.

(* network properties used by the module *)
Record config := mkConfig { c_min_raw : Z; c_max_raw : Z; c_duration : Z;
  c_liq_period : Z; c_liq_thr_raw : Z (* DappLiquidationPeriod / Threshold *); c_ft_fee : Z (* MintingFtFee *); c_vbond : Z (* DappVerifierBond, Dec *) }.
Definition liq_thr (c : config) : Z := as_int64 (c_liq_thr_raw c) * 1000000.
(* sdk.NewInt(int64(properties.MinDappBond)).Mul(sdk.NewInt(1000_000)) *)
Definition min_thr (c : config) : Z := as_int64 (c_min_raw c) * 1000000.
Definition max_thr (c : config) : Z := as_int64 (c_max_raw c) * 1000000.

(* ---------------------------------------------------------------- bank ledger *)
Definition ledger := list (string * string * Z).          (* account, denom, balance; first entry wins *)
Definition key_eqb (a d a' d' : string) : bool := (String.eqb a a' && String.eqb d d')%bool.
Fixpoint bal (a d : string) (l : ledger) : Z :=
  match l with
  | [] => 0
  | (a', d', z) :: r => if key_eqb a d a' d' then z else bal a d r
  end.
Definition set_bal (a d : string) (z : Z) (l : ledger) : ledger := (a, d, z) :: l.

(* bech32 is case-insensitive as a whole string: a message may spell its sender in upper case.  The bank account is
   the decoded address (here: the lower-case spelling), the layer2 records are keyed by the spelling as sent *)
Definition acct (u : string) : string := to_lower u.
Definition MOD : string := "#layer2".       (* the layer2 module account *)
Definition SPEND : string := "#spending".   (* the spending module account *)
Definition SUPPLY : string := "#supply".    (* pseudo account: total supply per denom *)
Definition UKEX : string := "ukex".

(* bank SendCoins of one coin: Coins{c}.IsValid() demands a positive amount *)
Definition send (from to den : string) (amt : Z) (l : ledger) : outcome ledger :=
  if amt <=? 0 then Err "invalid coins"
  else if bal from den l <? amt then Err "insufficient funds"
  else let l1 := set_bal from den (bal from den l - amt) l in
       Ok (set_bal to den (bal to den l1 + amt) l1).
(* tokens keeper MintCoins / BurnCoins on the layer2 module account *)
Definition mint (den : string) (amt : Z) (l : ledger) : outcome ledger :=
  if amt <=? 0 then Err "invalid coins"
  else let l1 := set_bal MOD den (bal MOD den l + amt) l in
       Ok (set_bal SUPPLY den (bal SUPPLY den l1 + amt) l1).
Definition burn (den : string) (amt : Z) (l : ledger) : outcome ledger :=
  if amt <=? 0 then Err "invalid coins"
  else if bal MOD den l <? amt then Err "insufficient funds"
  else let l1 := set_bal MOD den (bal MOD den l - amt) l in
       Ok (set_bal SUPPLY den (bal SUPPLY den l1 - amt) l1).

(* ---------------------------------------------------------------- dApps and user bonds *)
(* PremintTime, Pool.Drip, LiquidationStart, EnableBondVerifiers *)
Record dextra := mkX { x_ptime : Z; x_drip : Z; x_liq : Z; x_bv : bool }.
Record dapp := mkDapp {
  d_name : string; d_total : Z; d_status : Z (* 0 Bootstrap, 1 Active, 2 Paused, 3 Halted *); d_ctime : Z;
  d_lp : string (* "lp/"+Denom *); d_lp_ok : bool (* sdk.ValidateDenom(d_lp) = nil *);
  d_ratio : Z (* Pool.Ratio, Dec *); d_premint : Z; d_postmint : Z; d_fee : Z (* PoolFee, Dec *); d_team : string;
  d_x : dextra }.
Definition with_total (d : dapp) (t : Z) : dapp :=
  mkDapp (d_name d) t (d_status d) (d_ctime d) (d_lp d) (d_lp_ok d) (d_ratio d) (d_premint d) (d_postmint d) (d_fee d) (d_team d) (d_x d).
Definition with_status (d : dapp) (s : Z) : dapp :=
  mkDapp (d_name d) (d_total d) s (d_ctime d) (d_lp d) (d_lp_ok d) (d_ratio d) (d_premint d) (d_postmint d) (d_fee d) (d_team d) (d_x d).
Definition with_x (d : dapp) (x : dextra) : dapp :=
  mkDapp (d_name d) (d_total d) (d_status d) (d_ctime d) (d_lp d) (d_lp_ok d) (d_ratio d) (d_premint d) (d_postmint d) (d_fee d) (d_team d) x.
Definition with_liq (d : dapp) (t : Z) : dapp := with_x d (mkX (x_ptime (d_x d)) (x_drip (d_x d)) t (x_bv (d_x d))).
Definition with_ptime (d : dapp) (t : Z) : dapp := with_x d (mkX t (x_drip (d_x d)) (x_liq (d_x d)) (x_bv (d_x d))).

Definition bonds_t := list (string * string * Z).          (* dApp name, user, amount *)
Record state := mkState { now : Z; dapps : list dapp; bonds : bonds_t; led : ledger }.

Definition find_dapp (n : string) (ds : list dapp) : option dapp := find (fun d => String.eqb (d_name d) n) ds.
Definition remove_dapp (n : string) (ds : list dapp) : list dapp := filter (fun d => negb (String.eqb (d_name d) n)) ds.
(* the store iterates dApps in byte order of their names *)
Fixpoint insert_dapp (d : dapp) (ds : list dapp) : list dapp :=
  match ds with
  | [] => [d]
  | e :: r => if String.leb (d_name d) (d_name e) then d :: e :: r else e :: insert_dapp d r
  end.
Definition set_dapp (d : dapp) (ds : list dapp) : list dapp := insert_dapp d (remove_dapp (d_name d) ds).

Definition bmatch (d u : string) (e : string * string * Z) : bool := key_eqb d u (fst (fst e)) (snd (fst e)).
Definition bond_amt (d u : string) (bs : bonds_t) : Z := zsum (map snd (filter (bmatch d u) bs)).
Definition has_bond (d u : string) (bs : bonds_t) : bool := existsb (bmatch d u) bs.
Definition del_bond (d u : string) (bs : bonds_t) : bonds_t := filter (fun e => negb (bmatch d u e)) bs.
Definition set_bond (d u : string) (a : Z) (bs : bonds_t) : bonds_t := (d, u, a) :: del_bond d u bs.
Definition of_dapp (d : string) (e : string * string * Z) : bool := String.eqb (fst (fst e)) d.
Definition sum_bonds (d : string) (bs : bonds_t) : Z := zsum (map snd (filter (of_dapp d) bs)).

(* GetUserDappBonds(name): KVStorePrefixIterator(prefix ++ name) over keys prefix ++ dappName ++ user *)
Definition covers (v : variant) (n : string) (e : string * string * Z) : bool :=
  if v_prefix v then String.prefix n (fst (fst e) ++ snd (fst e)) else String.eqb (fst (fst e)) n.
Definition covered (v : variant) (n : string) (bs : bonds_t) : bonds_t := filter (covers v n) bs.
(* DeleteUserDappBond(ctx, dapp.Name, userBond.User) for every iterated record *)
Fixpoint del_all (n : string) (cs : bonds_t) (bs : bonds_t) : bonds_t :=
  match cs with [] => bs | e :: r => del_all n r (del_bond n (snd (fst e)) bs) end.

(* ExecuteDappRemove: pay every iterated record back; any failing send fails the whole removal *)
Fixpoint pay_all (skip_nonpos : bool) (cs : bonds_t) (l : ledger) : outcome ledger :=
  match cs with
  | [] => Ok l
  | e :: r => if (skip_nonpos && (snd e <=? 0))%bool then pay_all skip_nonpos r l
              else do l1 <- send MOD (acct (snd (fst e))) UKEX (snd e) l; pay_all skip_nonpos r l1
  end.
Definition refund (v : variant) (n : string) (st : state) : outcome state :=
  let cs := covered v n (bonds st) in
  do l <- pay_all (negb (v_zero_blocks v)) cs (led st);
  Ok (mkState (now st) (remove_dapp n (dapps st)) (del_all n cs (bonds st)) l).

(* dapp.GetSpendingPoolLpDeposit() = NewDecFromInt(TotalBond).Mul(Pool.Ratio).RoundInt() *)
Definition lp_deposit (d : dapp) : outcome Z := do x <- dmul (dec_of_int (d_total d)) (d_ratio d); Ok (round_int x).

(* FinishDappBootstrap, success branch *)
Definition launch (v : variant) (d : dapp) (st : state) : outcome state :=
  if negb (d_lp_ok d) then Ok st else
  do dep <- lp_deposit d;
  let supply := dep + d_postmint d + d_premint d in
  if supply <? 0 then Panic "negative coin amount" else
  do l1 <- match mint (d_lp d) supply (led st) with Ok l => Ok l | _ => Panic "mint" end;
  let l2 := match send MOD SPEND (d_lp d) dep l1 with Ok l => l | _ => l1 end in
  let bs := del_all (d_name d) (covered v (d_name d) (bonds st)) (bonds st) in
  do l3 <- (if 0 <? d_premint d
            then match send MOD (acct (d_team d)) (d_lp d) (d_premint d) l2 with Ok l => Ok l | _ => Panic "premint" end
            else Ok l2);
  Ok (mkState (now st) (set_dapp (with_ptime (with_status d 3) (now st)) (dapps st)) bs l3).

Definition finish (v : variant) (c : config) (d : dapp) (st : state) : outcome state :=
  if d_total d <? min_thr c
  then match refund v (d_name d) st with Ok st' => Ok st' | Err _ => Ok st | Panic s => Panic s end
  else launch v d st.
Definition expired (c : config) (t : Z) (d : dapp) : bool :=
  ((d_status d =? 0) && (wrap64 (d_ctime d + c_duration c) <=? t))%bool.
(* EndBlocker, the part for an ACTIVE dApp (copy d read at the start of the block; no session exists in the
   modelled histories): the "postmint" payout -- it sends Issuance.Premint, every block, once
   PremintTime+Drip has passed -- and the halt when LiquidationStart+DappLiquidationPeriod has passed *)
Definition active_step (c : config) (d : dapp) (st : state) : outcome state :=
  if negb (d_status d =? 1) then Ok st else
  do s1 <- (if ((wrap64 (x_ptime (d_x d) + x_drip (d_x d)) <? now st) && (0 <? d_postmint d))%bool
            then if d_premint d <? 0 then Panic "negative coin amount"
                 else match send MOD (acct (d_team d)) (d_lp d) (d_premint d) (led st) with
                      | Ok l => Ok (mkState (now st) (set_dapp d (dapps st)) (bonds st) l)
                      | _ => Panic "postmint" end
            else Ok st);
  if wrap64 (x_liq (d_x d) + c_liq_period c) <? now st
  then Ok (mkState (now s1) (set_dapp (with_status d 3) (dapps s1)) (bonds s1) (led s1))
  else Ok s1.
(* EndBlocker: the dApp list is read once, the loop works on those copies *)
Fixpoint end_loop (v : variant) (c : config) (ds : list dapp) (st : state) : outcome state :=
  match ds with
  | [] => Ok st
  | d :: r => do s <- (if expired c (now st) d then finish v c d st else Ok st);
              do s2 <- active_step c d s; end_loop v c r s2
  end.
Definition end_block (v : variant) (c : config) (st : state) : outcome state := end_loop v c (dapps st) st.

(* ---------------------------------------------------------------- messages *)
Record dparams := mkParams { p_lp : string; p_lp_ok : bool; p_ratio : Z; p_premint : Z; p_postmint : Z; p_fee : Z; p_team : string;
  p_drip : Z; p_bv : bool }.

Definition create (v : variant) (c : config) (st : state) (u : string) (priv foreign : bool) (n : string) (amt : Z) (p : dparams)
  : outcome state :=
  if (priv && foreign)%bool then Err "outside the modelled inputs" else
  if (negb (v_fee_unchecked v) && ((p_fee p <? 0) || (PREC <? p_fee p)))%bool then Err "invalid pool fee" else
  if (negb (v_create_negative v) && (amt <? 0))%bool then Err "low amount" else
  if (negb priv && foreign)%bool then Err "invalid dapp bond denom" else
  if (negb priv && (amt * 100 <? min_thr c))%bool then Err "low amount" else
  if (negb (v_create_unchecked v) && (max_thr c <? amt))%bool then Err "max dapp bond reached" else
  if (negb (v_prefix v) && String.eqb n "")%bool then Err "empty dapp name" else
  do l <- (if 0 <? amt then send (acct u) MOD UKEX amt (led st) else Ok (led st));
  if (match find_dapp n (dapps st) with Some _ => negb (String.eqb n "") | None => false end) then Err "dapp already exists" else
  let d := mkDapp n amt 0 (now st) (p_lp p) (p_lp_ok p) (p_ratio p) (p_premint p) (p_postmint p) (p_fee p) (p_team p)
                  (mkX 0 (p_drip p) 0 (p_bv p)) in
  Ok (mkState (now st) (set_dapp d (dapps st)) (set_bond n u amt (bonds st)) l).

(* GetDapp(name).Name == "": a dApp stored under the empty name is "not found" *)
Definition get_dapp (n : string) (st : state) : option dapp :=
  if String.eqb n "" then None else find_dapp n (dapps st).

Definition bond (c : config) (st : state) (u n : string) (foreign : bool) (amt : Z) : outcome state :=
  match get_dapp n st with
  | None => Err "dapp does not exist"
  | Some d =>
    if foreign then Err "invalid dapp bond denom" else
    let t := d_total d + amt in
    if max_thr c <? t then Err "max dapp bond reached" else
    do l <- send (acct u) MOD UKEX amt (led st);
    let a := if has_bond n u (bonds st) then bond_amt n u (bonds st) + amt else amt in
    Ok (mkState (now st) (set_dapp (with_total d t) (dapps st)) (set_bond n u a (bonds st)) l)
  end.

Definition reclaim (st : state) (u n : string) (foreign : bool) (amt : Z) : outcome state :=
  match get_dapp n st with
  | None => Err "dapp does not exist"
  | Some d =>
    if negb (has_bond n u (bonds st)) then Err "user dapp bond does not exist" else
    if foreign then Err "invalid dapp bond denom" else
    if bond_amt n u (bonds st) <? amt then Err "not enough user dapp bond" else
    if d_total d - amt <? 0 then Panic "negative coin amount" else
    do l <- send MOD (acct u) UKEX amt (led st);
    Ok (mkState (now st) (set_dapp (with_total d (d_total d - amt)) (dapps st))
                (set_bond n u (bond_amt n u (bonds st) - amt) (bonds st)) l)
  end.

(* ---------------------------------------------------------------- LP pool, keeper level *)
Definition fee_of (x feeDec : Z) : outcome Z := do m <- dmul (dec_of_int x) feeDec; Ok (round_int m).

(* RedeemDappPoolTx(ctx, addr, dapp, poolFee, lpTokenAmount): [d] is the caller's copy of the record *)
Definition redeem_k (c : config) (d : dapp) (u den : string) (x fee : Z) (st : state) : outcome (state * Z) :=
  if negb (String.eqb den (d_lp d)) then Err "invalid lp token" else
  let S := bal SUPPLY (d_lp d) (led st) in
  let T := d_total d in
  if S + x =? 0 then Panic "division by zero" else
  let T' := Z.quot (T * S) (S + x) in
  let sb := T - T' in
  do f <- fee_of sb fee;
  do l1 <- (if 0 <? f then burn UKEX f (led st) else Ok (led st));
  do l2 <- send u MOD den x l1;
  if sb - f <? 0 then Panic "negative coin amount" else
  do l3 <- send MOD u UKEX (sb - f) l2;
  (* the liquidation countdown starts when the pool bond falls below the threshold *)
  let d' := if ((x_liq (d_x d) =? 0) && (T' <? liq_thr c))%bool then with_liq (with_total d T') (now st) else with_total d T' in
  Ok (mkState (now st) (set_dapp d' (dapps st)) (bonds st) l3, sb - f).

Definition swap_k (c : config) (d : dapp) (u : string) (foreign : bool) (b fee : Z) (st : state) : outcome (state * Z) :=
  if foreign then Err "invalid lp token" else
  let S := bal SUPPLY (d_lp d) (led st) in
  let T := d_total d in
  if T + b =? 0 then Panic "division by zero" else
  let S' := Z.quot (T * S) (T + b) in
  let out := S - S' in
  do f <- fee_of out fee;
  do l1 <- (if 0 <? f then burn (d_lp d) f (led st) else Ok (led st));
  do l2 <- send u MOD UKEX b l1;
  if out - f <? 0 then Panic "negative coin amount" else
  do l3 <- send MOD u (d_lp d) (out - f) l2;
  let d' := if (negb (x_liq (d_x d) =? 0) && (liq_thr c <=? T + b))%bool then with_liq (with_total d (T + b)) 0 else with_total d (T + b) in
  Ok (mkState (now st) (set_dapp d' (dapps st)) (bonds st) l3, out - f).

(* PoolFee.Quo(sdk.NewDec(2)) *)
Definition half_fee (fee : Z) : outcome Z := dquo fee (dec_of_int 2).
(* ConvertDappPoolTx: both records are read before the redemption; the stale variant does not re-read the second *)
Definition convert_k (v : variant) (c : config) (d1 d2 : dapp) (u den : string) (x : Z) (st : state) : outcome (state * Z) :=
  do f1 <- half_fee (d_fee d1);
  do r <- redeem_k c d1 u den x f1 st;
  let d2' := if v_convert_stale v then d2
             else match find_dapp (d_name d2) (dapps (fst r)) with Some d => d | None => d2 end in
  do f2 <- half_fee (d_fee d2');
  swap_k c d2' u false (snd r) f2 (fst r).

(* ---------------------------------------------------------------- operations *)
Inductive op : Type :=
| OCreate (u : string) (priv foreign : bool) (n : string) (amt : Z) (p : dparams)
| OBond (u n : string) (foreign : bool) (amt : Z)
| OReclaim (u n : string) (foreign : bool) (amt : Z)
| OTick (dt : Z)                                        (* next block: time advances by dt, EndBlocker runs *)
| OLpMsg (kind : Z) (u n n2 den : string) (amt : Z)      (* MsgSwap / MsgRedeem / MsgConvert DappPoolTx *)
| KSwap (u n : string) (foreign : bool) (amt fee : Z)    (* keeper-level calls, record read from the store first *)
| KRedeem (u n den : string) (amt fee : Z)
| KConvert (u n n2 den : string) (amt : Z)
| OSetCfg (c' : config)                                  (* network properties changed between blocks (threaded by the caller) *)
| OBurnTx (u den : string) (amt : Z) (registered : bool) (* MsgMintBurnTx: through the module account *)
| OMintFt (u : string) (fresh : bool)                    (* MsgMintCreateFtTx: the fee goes through the module account *)
| OJoinVerifier (u interx n : string)                    (* MsgJoinDappVerifierWithBond *)
| OUpsert (n : string) (total status ctime : Z) (p : dparams) (ptime liq : Z) (allowed : bool) (fa : Z)
    (* ProposalUpsertDapp through the gov flow; [allowed]: a controller can propose it; [fa]: the pool fee READ BACK
       from the stored record afterwards -- the model follows it, the correspondence compares it with [upsert_fee] *)
| KForce (n : string) (status ptime liq : Z)             (* keeper SetDapp: status / PremintTime / LiquidationStart *)
| OMintIssue (u den : string) (amt : Z) (reg : bool) (owner : string) (rate cap tsup : Z)
    (* MsgMintIssueTx; the token's registry entry as read by the harness: registered, owner, fee rate (Dec), supply cap, recorded supply *)
| OBankSend (u to den : string) (amt : Z).                (* bank SendCoins between accounts *)

(* ---------------------------------------------------------------- other layer2 messages through the module account *)
Definition burn_tx (st : state) (u den : string) (amt : Z) (registered : bool) : outcome state :=
  if negb registered then Err "token not registered" else
  if amt <? 0 then Panic "negative coin amount" else
  do l1 <- send (acct u) MOD den amt (led st);
  do l2 <- burn den amt l1;
  Ok (mkState (now st) (dapps st) (bonds st) l2).
Definition mint_ft (c : config) (st : state) (u : string) (fresh : bool) : outcome state :=
  let fee := as_int64 (c_ft_fee c) in
  if fee <? 0 then Panic "negative coin amount" else
  do l1 <- send (acct u) MOD UKEX fee (led st);
  do l2 <- burn UKEX fee l1;
  (* `info := tk.GetTokenInfo(ctx, denom); if info.Denom != ""`: for a new denomination info is nil -- the
     message panics and can never succeed *)
  if negb fresh then Err "token already registered" else Panic "nil token info".
(* MsgMintIssueTx *)
Definition mint_issue (st : state) (u den : string) (amt : Z) (reg : bool) (owner : string) (rate cap tsup : Z) : outcome state :=
  if String.eqb den UKEX then Err "bond denom not mintable" else
  if negb reg then Panic "nil token info" else
  do l1 <- (if String.eqb u owner then Ok (led st) else
            do m <- dmul_int rate amt;
            let fee := trunc_int m in
            if fee <? 0 then Panic "negative coin amount" else
            if 0 <? fee then (if String.eqb owner "" then send (acct u) MOD UKEX fee (led st) else send (acct u) (acct owner) UKEX fee (led st))
            else Err "not able to mint coins without fee");
  if amt <? 0 then Panic "negative coin amount" else
  if (0 <? cap) && (cap <? tsup + amt) then Err "cannot exceed token cap" else
  do l2 <- mint den amt l1;
  do l3 <- send MOD (acct u) den amt l2;
  Ok (mkState (now st) (dapps st) (bonds st) l3).
Definition bank_send (st : state) (u to den : string) (amt : Z) : outcome state :=
  do l <- send (acct u) (acct to) den amt (led st); Ok (mkState (now st) (dapps st) (bonds st) l).

(* the operator records are kept as pseudo balances: account "#vf/"+dApp, denom = operator *)
Definition VF (n : string) : string := ("#vf/" ++ n)%string.
Definition join_verifier (c : config) (st : state) (u interx n : string) : outcome state :=
  match find_dapp n (dapps st) with
  | None => Err "dapp does not allow bond verifiers"
  | Some d =>
    if negb (x_bv (d_x d)) then Err "dapp does not allow bond verifiers" else
    if negb (bal (VF n) u (led st) =? 0) then Err "already a dapp verifier" else
    do dep <- lp_deposit d;
    do m <- dmul (dec_of_int (dep + d_postmint d + d_premint d)) (c_vbond c);
    let a := round_int m in
    if (a <? 0) || negb (d_lp_ok d) then Panic "invalid coin" else
    do l1 <- (if 0 <? a then send (acct interx) MOD (d_lp d) a (led st) else Ok (led st));
    Ok (mkState (now st) (dapps st) (bonds st) (set_bal (VF n) u 1 l1))
  end.
(* ApplyUpsertDappProposal *)
(* the pool fee the handler is expected to store *)
Definition upsert_fee (v : variant) (d : dapp) (p : dparams) : Z := if v_upsert_raw v then p_fee p else d_fee d.
Definition upsert (v : variant) (st : state) (n : string) (total status ctime : Z) (p : dparams) (ptime liq : Z)
                  (allowed : bool) (fa : Z) : outcome state :=
  match get_dapp n st with
  | None => Err "dapp does not exist"
  | Some d =>
    if negb allowed then Err "not enough permission to create the proposal" else
    if (x_bv (d_x d) && negb (p_bv p))%bool then Err "can not disable bonded verifiers" else
    let d' := if v_upsert_raw v
              then mkDapp n total status ctime (p_lp p) (p_lp_ok p) (p_ratio p) (p_premint p) (p_postmint p) fa (p_team p)
                          (mkX ptime (p_drip p) liq (p_bv p))
              else mkDapp n (d_total d) (d_status d) (d_ctime d) (p_lp p) (p_lp_ok p) (p_ratio p) (p_premint p) (p_postmint p) fa (d_team d)
                          (mkX (x_ptime (d_x d)) (p_drip p) (x_liq (d_x d)) (p_bv p)) in
    Ok (mkState (now st) (set_dapp d' (dapps st)) (bonds st) (led st))
  end.
Definition force (st : state) (n : string) (status ptime liq : Z) : outcome state :=
  match get_dapp n st with
  | None => Err "no dapp"
  | Some d => Ok (mkState (now st) (set_dapp (with_x (with_status d status) (mkX ptime (x_drip (d_x d)) liq (x_bv (d_x d)))) (dapps st)) (bonds st) (led st))
  end.

Definition step (v : variant) (c : config) (st : state) (o : op) : outcome state :=
  match o with
  | OSetCfg _ => Ok st
  | OBurnTx u den amt registered => burn_tx st u den amt registered
  | OMintFt u fresh => mint_ft c st u fresh
  | OJoinVerifier u interx n => join_verifier c st u interx n
  | OUpsert n total status ctime p ptime liq allowed fa => upsert v st n total status ctime p ptime liq allowed fa
  | KForce n status ptime liq => force st n status ptime liq
  | OMintIssue u den amt reg owner rate cap tsup => mint_issue st u den amt reg owner rate cap tsup
  | OBankSend u to den amt => bank_send st u to den amt
  | OCreate u priv foreign n amt p => create v c st u priv foreign n amt p
  | OBond u n foreign amt => bond c st u n foreign amt
  | OReclaim u n foreign amt => reclaim st u n foreign amt
  | OTick dt => end_block v c (mkState (now st + dt) (dapps st) (bonds st) (led st))
  (* `if dapp.Name != "" { return ErrDappDoesNotExist }`: an existing dApp is rejected; for a missing one
     the empty record leads to ErrInvalidLpToken, ErrOperationExceedsSlippage or a nil-Int panic *)
  | OLpMsg _ _ _ _ _ _ => Err "dapp does not exist"
  | KSwap u n foreign amt fee =>
      match get_dapp n st with None => Err "no dapp" | Some d => do r <- swap_k c d u foreign amt fee st; Ok (fst r) end
  | KRedeem u n den amt fee =>
      match get_dapp n st with None => Err "no dapp" | Some d => do r <- redeem_k c d u den amt fee st; Ok (fst r) end
  | KConvert u n n2 den amt =>
      match get_dapp n st, get_dapp n2 st with
      | Some d1, Some d2 => do r <- convert_k v c d1 d2 u den amt st; Ok (fst r)
      | _, _ => Err "no dapp" end
  end.
(* transaction semantics: a failed message (error or panic) leaves no trace *)
Definition apply (v : variant) (c : config) (st : state) (o : op) : state :=
  match step v c st o with Ok s => s | _ => st end.
Definition run (v : variant) (c : config) (ops : list op) (st : state) : state := fold_left (apply v c) ops st.

Definition is_user_op (o : op) : bool :=
  match o with OCreate _ _ _ _ _ _ | OBond _ _ _ _ | OReclaim _ _ _ _ => true | _ => false end.
Definition is_msg_op (o : op) : bool :=
  match o with
  | OCreate _ _ _ _ _ _ | OBond _ _ _ _ | OReclaim _ _ _ _ | OTick _ | OLpMsg _ _ _ _ _ _
  | OSetCfg _ | OBurnTx _ _ _ _ | OMintFt _ _ | OJoinVerifier _ _ _ | OUpsert _ _ _ _ _ _ _ _ _
  | OMintIssue _ _ _ _ _ _ _ _ | OBankSend _ _ _ _ => true
  | _ => false end.
(* the configuration in force after an operation *)
Definition cfg_after (c : config) (o : op) : config := match o with OSetCfg c' => c' | _ => c end.
