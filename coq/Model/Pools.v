(* C10 -- staking pools (x/multistaking) and per-block reward allocation (x/distributor).
   Definitions only.  One pool (validator 0), a second validator without pool (1), any other
   consensus address is unknown to the staking keeper.  Denominations and accounts are small
   integers; share token of native denom d of the pool is addressed by d in the share ledger.

   Code modelled (as it is):
     x/multistaking/types/pool.go        GetPoolCoins                       -> pool_coin / pool_coins
     x/multistaking/keeper/delegation.go Delegate / Undelegate / IncreasePoolRewards /
                                         UnregisterNotEnoughStakeDelegator / RegisterDelegator / ClaimRewards
     x/multistaking/keeper/msg_server.go ClaimUndelegation / ClaimMaturedUndelegations / SetCompoundInfo
     x/multistaking/keeper/slash.go      SlashStakingPool (reached through x/slashing proposal_handler.go)
     x/distributor/keeper/distributor.go AllocateTokens / AllocateTokensToValidator
     x/distributor/keeper/abci.go        BeginBlocker / EndBlocker (vote bookkeeping)
   The two places where a repair is proposed are parameters of the model ([variant]); which variant
   the tree implements is read from the source by harness/cmd/gen_c10 (Gen/C10Cfg.v). *)
From Sekai Require Import Base.Prelude Base.Dec.

Definition coins := list (Z * Z).          (* (denom, amount): a valid sdk.Coins from a message *)
Definition cmap := Z -> Z.                  (* denom -> amount *)
Definition amap := Z -> Z -> Z.             (* account -> denom -> amount *)
Definition czero : cmap := fun _ => 0.
Definition cadd (m : cmap) (d x : Z) : cmap := fun e => if e =? d then m e + x else m e.
Definition cadds (m : cmap) (cs : coins) : cmap := fold_left (fun a c => cadd a (fst c) (snd c)) cs m.
Definition csubs (m : cmap) (cs : coins) : cmap := fold_left (fun a c => cadd a (fst c) (- snd c)) cs m.
Definition cplus (m n : cmap) : cmap := fun d => m d + n d.
Definition cminus (m n : cmap) : cmap := fun d => m d - n d.
(* total amount of denom d in a coin list (message lists may repeat a denom) *)
Fixpoint csum (cs : coins) (d : Z) : Z :=
  match cs with [] => 0 | c :: r => (if d =? fst c then snd c else 0) + csum r d end.
(* sdk.Coins.IsValid for the lists the harness sends (sorted by denom string): positive amounts, no denom twice *)
Fixpoint coins_valid (cs : coins) : bool :=
  match cs with [] => true | c :: r => (0 <? snd c) && negb (existsb (fun e => fst e =? fst c) r) && coins_valid r end.
Fixpoint has_dup (cs : coins) : bool :=
  match cs with [] => false | c :: r => existsb (fun e => fst e =? fst c) r || has_dup r end.
Definition all_gte (m : cmap) (cs : coins) : bool := forallb (fun c => snd c <=? m (fst c)) cs.
Definition aset (m : amap) (a : Z) (v : cmap) : amap := fun b => if b =? a then v else m b.
Definition aadd (m : amap) (a d x : Z) : amap := aset m a (cadd (m a) d x).
Definition aadds (m : amap) (a : Z) (cs : coins) : amap := aset m a (cadds (m a) cs).
Definition asubs (m : amap) (a : Z) (cs : coins) : amap := aset m a (csubs (m a) cs).
Definition cmap_coins (dens : list Z) (m : cmap) : coins :=
  flat_map (fun d => if m d =? 0 then [] else [(d, m d)]) dens.
Definition cmap_is_zero (dens : list Z) (m : cmap) : bool := forallb (fun d => m d =? 0) dens.

Fixpoint assoc {A} (k : Z) (l : list (Z * A)) : option A :=
  match l with [] => None | (k', v) :: r => if k' =? k then Some v else assoc k r end.
Fixpoint zmem (x : Z) (l : list Z) : bool := match l with [] => false | y :: r => (x =? y) || zmem x r end.
Fixpoint zinsert (x : Z) (l : list Z) : list Z :=
  match l with [] => [x] | y :: r => if x <? y then x :: l else if x =? y then l else y :: zinsert x r end.
Definition zremove (x : Z) (l : list Z) : list Z := filter (fun y => negb (y =? x)) l.

(* ---------------------------------------------------------------- configuration *)
Record cfg := mkCfg {
  c_tok : list (Z * (bool * Z * Z));   (* token registry: denom -> (StakeEnabled, StakeMin, StakeCap) *)
  c_dens : list Z;                     (* every native denom in play *)
  c_unstake : Z;                       (* UnstakingPeriod *)
  c_vfs : Z;                           (* ValidatorsFeeShare (Dec) *)
  c_comm : Z;                          (* pool commission (Dec) *)
  c_snap : Z;                          (* snap period *)
  c_autoint : Z;                       (* AutocompoundIntervalNumBlocks *)
  c_accts : list Z                     (* tracked accounts (observation domain) *)
}.
Definition tok_of (c : cfg) (d : Z) : option (bool * Z * Z) := assoc d (c_tok c).

(* what the tree implements at the two repair sites *)
Record variant := mkVariant {
  v_owner_check : bool;    (* ClaimUndelegation compares undelegation.Address with msg.Sender *)
  v_end_rule : Z;          (* distributor EndBlocker deletes votes with: 0: height+snap > now (fresh ones),
                              1: height+snap <= now (expired ones), 2: nothing *)
  v_signers_only : bool;   (* BeginBlocker records a vote only for validators with SignedLastBlock *)
  v_prefix_ok : bool;      (* Undelegate looks for the share-denom prefix "v<id>/" (not "v<id>_") before dropping the delegator *)
  v_redeem_rule : Z;       (* shares burnt by Undelegate: 0: GetPoolCoins = round(x*(1-slashed));
                              1: pro rata to the books, ceil(x*shares/stake) *)
  v_burn_registry : bool;  (* Undelegate burns through the tokens keeper (TokenInfo.Supply follows) *)
  v_slash_byref : bool;    (* app.go hands the slashing keeper the application's multistaking keeper by reference (the
                              governance slash path works); by value: a copy without distributor keeper => it panics *)
  v_slash_guard : bool;    (* SlashStakingPool skips the burn when no default-denom stake is slashed *)
  v_compound_safe : bool   (* IncreasePoolRewards runs each auto-compounding on a cache context and continues on error *)
}.
(* the variant of the tree at the time the check was last aligned (fallback when the translator rejects a tree) *)
Definition last_known_variant : variant := mkVariant true 1 true true 1 false true true true.
Definition end_deletes (rule h snap now : Z) : bool :=
  if rule =? 0 then now <? h + snap else if rule =? 1 then h + snap <=? now else false.

(* ---------------------------------------------------------------- state *)
Record undel := mkUndel { u_id : Z; u_owner : Z; u_expiry : Z; u_amt : coins }.

Record st := mkSt {
  time : Z; height : Z;
  slashed : Z;                 (* pool.Slashed (Dec) *)
  stake : cmap;                (* pool.TotalStakingTokens *)
  shares : cmap;               (* pool.TotalShareTokens, by native denom *)
  ssup : cmap;                 (* bank supply of the share tokens *)
  modb : cmap;                 (* multistaking module account *)
  fee : cmap;                  (* fee collector account *)
  treas : cmap;                (* distributor FeesTreasury record *)
  nbal : amap;                 (* native balances of accounts *)
  sbal : amap;                 (* share-token balances of accounts *)
  rew : amap;                  (* delegator reward records *)
  undels : list undel; last : Z;
  dels : list Z;               (* pool delegators, ascending *)
  comp : Z -> (bool * list Z * Z);   (* compound info: AllDenom, CompoundDenoms, LastExecBlock *)
  votes : list (Z * Z);        (* (validator, height) *)
  prev : Z;                    (* previous proposer *)
  tsup : cmap                  (* tokens-module registry record TokenInfo.Supply of the share tokens *)
}.

Definition set_pool (s : st) (sl : Z) (stk shr : cmap) : st :=
  mkSt (time s) (height s) sl stk shr (ssup s) (modb s) (fee s) (treas s) (nbal s) (sbal s) (rew s)
       (undels s) (last s) (dels s) (comp s) (votes s) (prev s) (tsup s).
Definition set_ssup (s : st) (v : cmap) : st :=
  mkSt (time s) (height s) (slashed s) (stake s) (shares s) v (modb s) (fee s) (treas s) (nbal s) (sbal s) (rew s)
       (undels s) (last s) (dels s) (comp s) (votes s) (prev s) (tsup s).
Definition set_modb (s : st) (v : cmap) : st :=
  mkSt (time s) (height s) (slashed s) (stake s) (shares s) (ssup s) v (fee s) (treas s) (nbal s) (sbal s) (rew s)
       (undels s) (last s) (dels s) (comp s) (votes s) (prev s) (tsup s).
Definition set_fee (s : st) (v : cmap) : st :=
  mkSt (time s) (height s) (slashed s) (stake s) (shares s) (ssup s) (modb s) v (treas s) (nbal s) (sbal s) (rew s)
       (undels s) (last s) (dels s) (comp s) (votes s) (prev s) (tsup s).
Definition set_treas (s : st) (v : cmap) : st :=
  mkSt (time s) (height s) (slashed s) (stake s) (shares s) (ssup s) (modb s) (fee s) v (nbal s) (sbal s) (rew s)
       (undels s) (last s) (dels s) (comp s) (votes s) (prev s) (tsup s).
Definition set_nbal (s : st) (v : amap) : st :=
  mkSt (time s) (height s) (slashed s) (stake s) (shares s) (ssup s) (modb s) (fee s) (treas s) v (sbal s) (rew s)
       (undels s) (last s) (dels s) (comp s) (votes s) (prev s) (tsup s).
Definition set_sbal (s : st) (v : amap) : st :=
  mkSt (time s) (height s) (slashed s) (stake s) (shares s) (ssup s) (modb s) (fee s) (treas s) (nbal s) v (rew s)
       (undels s) (last s) (dels s) (comp s) (votes s) (prev s) (tsup s).
Definition set_rew (s : st) (v : amap) : st :=
  mkSt (time s) (height s) (slashed s) (stake s) (shares s) (ssup s) (modb s) (fee s) (treas s) (nbal s) (sbal s) v
       (undels s) (last s) (dels s) (comp s) (votes s) (prev s) (tsup s).
Definition set_undels (s : st) (u : list undel) (l : Z) : st :=
  mkSt (time s) (height s) (slashed s) (stake s) (shares s) (ssup s) (modb s) (fee s) (treas s) (nbal s) (sbal s) (rew s)
       u l (dels s) (comp s) (votes s) (prev s) (tsup s).
Definition set_dels (s : st) (v : list Z) : st :=
  mkSt (time s) (height s) (slashed s) (stake s) (shares s) (ssup s) (modb s) (fee s) (treas s) (nbal s) (sbal s) (rew s)
       (undels s) (last s) v (comp s) (votes s) (prev s) (tsup s).
Definition set_comp (s : st) (v : Z -> (bool * list Z * Z)) : st :=
  mkSt (time s) (height s) (slashed s) (stake s) (shares s) (ssup s) (modb s) (fee s) (treas s) (nbal s) (sbal s) (rew s)
       (undels s) (last s) (dels s) v (votes s) (prev s) (tsup s).
Definition set_votes (s : st) (v : list (Z * Z)) (p : Z) : st :=
  mkSt (time s) (height s) (slashed s) (stake s) (shares s) (ssup s) (modb s) (fee s) (treas s) (nbal s) (sbal s) (rew s)
       (undels s) (last s) (dels s) (comp s) v p (tsup s).
Definition set_clock (s : st) (t h : Z) : st :=
  mkSt t h (slashed s) (stake s) (shares s) (ssup s) (modb s) (fee s) (treas s) (nbal s) (sbal s) (rew s)
       (undels s) (last s) (dels s) (comp s) (votes s) (prev s) (tsup s).

(* ---------------------------------------------------------------- share / stake conversion *)
(* GetPoolCoins: NewDecFromInt(amount).Mul(OneDec().Sub(pool.Slashed)).RoundInt() *)
Definition pool_coin (x s : Z) : Z := round_int (chop_round (dec_of_int x * (PREC - s))).
Definition pool_coins (s : Z) (amts : coins) : coins := map (fun c => (fst c, pool_coin (snd c) s)) amts.

Fixpoint check_tok (c : cfg) (amts : coins) : outcome unit :=
  match amts with
  | [] => Ok tt
  | (d, x) :: r =>
      match tok_of c d with
      | None => Panic "nil token info"
      | Some (en, mn, _) =>
          if negb en then Err "not allowed staking token"
          else if x <? mn then Err "staking min not reached" else check_tok c r
      end
  end.

(* keeper.Delegate (validator active, pool exists, delegator count below MaxDelegators) *)
Definition delegate (c : cfg) (who : Z) (amts : coins) (s : st) : outcome st :=
  if 0 <? slashed s then Err "slashed pool" else
  if negb (coins_valid amts) then Err "invalid coins" else
  if negb (all_gte (nbal s who) amts) then Err "insufficient funds" else
  do _ <- check_tok c amts;
  let pc := pool_coins (slashed s) amts in
  if existsb (fun c => snd c <? 0) pc then Panic "negative coin amount" else
  Ok (mkSt (time s) (height s) (slashed s) (cadds (stake s) amts) (cadds (shares s) pc) (cadds (ssup s) pc)
           (cadds (modb s) amts) (fee s) (treas s) (asubs (nbal s) who amts) (aadds (sbal s) who pc) (rew s)
           (undels s) (last s) (zinsert who (dels s)) (comp s) (votes s) (prev s) (cadds (tsup s) pc)).

(* shares to burn for redeeming [amts]: as GetPoolCoins does, or pro rata to the books rounded up *)
Definition ceil_div (a b : Z) : Z := Z.quot (a + (b - 1)) b.
Fixpoint redeem_coins (v : variant) (s : st) (amts : coins) : outcome coins :=
  match amts with
  | [] => Ok []
  | (d, x) :: r =>
      if v_redeem_rule v =? 0 then do t <- redeem_coins v s r; Ok ((d, pool_coin x (slashed s)) :: t)
      else if (x <? 0) || (stake s d <=? 0) then Err "insufficient total staking tokens"
      else do t <- redeem_coins v s r; Ok ((d, ceil_div (x * shares s d) (stake s d)) :: t)
  end.

(* keeper.Undelegate.  As the tree was, the delegator is always dropped from the pool's delegator list: the code
   looks for the prefix "v<id>_" in the balance string while share denoms are "v<id>/..." *)
Definition undelegate (v : variant) (c : cfg) (who : Z) (amts : coins) (s : st) : outcome st :=
  do pc <- redeem_coins v s amts;
  if existsb (fun c => snd c <? 0) pc then Panic "negative coin amount" else
  (* the share coins are merged per denom before they are sent and burnt; the stake is compared coin by coin
     (IsAllGTE) and then subtracted as a whole (Coins.Sub panics below zero) *)
  if existsb (fun d => sbal s who d <? csum pc d) (c_dens c) then Err "insufficient shares" else
  if negb (all_gte (stake s) amts) then Err "insufficient total staking tokens" else
  if has_dup amts then Panic "duplicate denomination" else     (* Coins.Sub(msg.Amounts...) builds NewCoins of its argument *)
  if existsb (fun d => (stake s d <? csum amts d) || (shares s d <? csum pc d)) (c_dens c) then Panic "negative coin amount" else
  let sb := asubs (sbal s) who pc in
  let keeps := v_prefix_ok v && existsb (fun d => 0 <? sb who d) (c_dens c) in
  Ok (mkSt (time s) (height s) (slashed s) (csubs (stake s) amts) (csubs (shares s) pc) (csubs (ssup s) pc)
           (modb s) (fee s) (treas s) (nbal s) sb (rew s)
           (undels s ++ [mkUndel (last s + 1) who (time s + c_unstake c) amts]) (last s + 1)
           (if keeps then dels s else zremove who (dels s)) (comp s) (votes s) (prev s)
           (if v_burn_registry v then csubs (tsup s) pc else tsup s)).

Fixpoint find_undel (id : Z) (l : list undel) : option undel :=
  match l with [] => None | u :: r => if u_id u =? id then Some u else find_undel id r end.
Definition remove_undel (id : Z) (l : list undel) : list undel := filter (fun u => negb (u_id u =? id)) l.

(* SendCoinsFromModuleToAccount(undelegation.Amount) + RemoveUndelegation *)
Definition pay_undel (s : st) (who : Z) (u : undel) : st :=
  mkSt (time s) (height s) (slashed s) (stake s) (shares s) (ssup s) (csubs (modb s) (u_amt u)) (fee s) (treas s)
       (aadds (nbal s) who (u_amt u)) (sbal s) (rew s) (remove_undel (u_id u) (undels s)) (last s)
       (dels s) (comp s) (votes s) (prev s) (tsup s).

(* msgServer.ClaimUndelegation *)
Definition claim (v : variant) (who id : Z) (s : st) : outcome st :=
  match find_undel id (undels s) with
  | None => Err "undelegation not found"
  | Some u =>
      if time s <? u_expiry u then Err "not enough time passed" else
      if v_owner_check v && negb (u_owner u =? who) then Err "not the undelegation owner" else
      if negb (coins_valid (u_amt u)) then Err "invalid coins" else
      if negb (all_gte (modb s) (u_amt u)) then Err "insufficient funds" else
      Ok (pay_undel s who u)
  end.

(* msgServer.ClaimMaturedUndelegations: iterates the records as they were at the start *)
Fixpoint claim_matured_loop (who : Z) (l : list undel) (s : st) : outcome st :=
  match l with
  | [] => Ok s
  | u :: r =>
      if negb (u_owner u =? who) || (time s <? u_expiry u) then claim_matured_loop who r s else
      if negb (coins_valid (u_amt u)) then Err "invalid coins" else
      if negb (all_gte (modb s) (u_amt u)) then Err "insufficient funds" else
      claim_matured_loop who r (pay_undel s who u)
  end.
Definition claim_matured (who : Z) (s : st) : outcome st := claim_matured_loop who (undels s) s.

(* SlashStakingPool (the burn of a zero default-denom coin is rejected by the bank => panic) *)
Definition slash (v : variant) (c : cfg) (sl : Z) (s : st) : outcome st :=
  let newstake : cmap := fun d => if zmem d (c_dens c) then pool_coin (stake s d) sl else stake s d in
  let lost : cmap := fun d => stake s d - newstake d in
  if existsb (fun d => (newstake d <? 0) || (lost d <? 0)) (c_dens c) then Panic "negative coin amount" else
  if (lost 0 <=? 0) && negb (v_slash_guard v) then Panic "burn of an invalid (zero) coin" else
  if modb s 0 <? lost 0 then Panic "insufficient funds to burn" else
  let tsend : cmap := fun d => if d =? 0 then 0 else lost d in
  if existsb (fun d => modb s d <? tsend d) (c_dens c) then Panic "insufficient funds" else
  Ok (mkSt (time s) (height s) sl newstake (shares s) (ssup s) (cminus (modb s) lost) (cplus (fee s) tsend)
           (cplus (treas s) tsend) (nbal s) (sbal s) (rew s) (undels s) (last s) (dels s) (comp s) (votes s) (prev s) (tsup s)).

(* bank send of share tokens between accounts *)
Definition send_shares (from to : Z) (amts : coins) (s : st) : outcome st :=
  if negb (all_gte (sbal s from) amts) then Err "insufficient funds" else
  let m := asubs (sbal s) from amts in
  Ok (set_sbal s (aadds m to amts)).

(* msgServer.ClaimRewards *)
Definition claim_rewards (c : cfg) (who : Z) (s : st) : outcome st :=
  let r := rew s who in
  if existsb (fun d => fee s d <? r d) (c_dens c) then Panic "insufficient funds" else
  Ok (mkSt (time s) (height s) (slashed s) (stake s) (shares s) (ssup s) (modb s) (cminus (fee s) r) (treas s)
           (aset (nbal s) who (cplus (nbal s who) r)) (sbal s) (aset (rew s) who czero)
           (undels s) (last s) (dels s) (comp s) (votes s) (prev s) (tsup s)).

(* msgServer.RegisterDelegator (below MaxDelegators) *)
Fixpoint register_scan (c : cfg) (s : st) (who : Z) (ds : list Z) : outcome bool :=
  match ds with
  | [] => Ok false
  | d :: r =>
      if stake s d =? 0 then register_scan c s who r else
      match tok_of c d with
      | None => Panic "nil token info"
      | Some (_, mn, _) => if mn <=? sbal s who d then Ok true else register_scan c s who r
      end
  end.
Definition register (c : cfg) (who : Z) (s : st) : outcome st :=
  if zmem who (dels s) then Ok s else
  do b <- register_scan c s who (c_dens c);
  Ok (if b then set_dels s (zinsert who (dels s)) else s).

(* x/recovery MsgRotateRecoveryAddress of a delegator account [who] to the fresh address [to] (recovery secret
   registered, [to] never used): the fee, then all coins, the compound info, the delegator registration and the
   reward record move; undelegation records keep their owner *)
Definition recovery_fee : Z := 1000000000.
Definition rotate (who to payer : Z) (s : st) : outcome st :=
  if nbal s payer 0 <? recovery_fee then Err "insufficient funds" else
  let nb := aadd (nbal s) payer 0 (- recovery_fee) in
  let nb' : amap := fun a => if a =? to then cplus (nb to) (nb who) else if a =? who then czero else nb a in
  let sb' : amap := fun a => if a =? to then cplus (sbal s to) (sbal s who) else if a =? who then czero else sbal s a in
  let rw' : amap := fun a => if a =? to then rew s who else if a =? who then czero else rew s a in
  let cp' := fun a => if a =? to then comp s who else if a =? who then (false, [], 0) else comp s a in
  let ds' := if zmem who (dels s) then zinsert to (zremove who (dels s)) else dels s in
  Ok (mkSt (time s) (height s) (slashed s) (stake s) (shares s) (ssup s) (modb s) (fee s) (treas s) nb' sb' rw'
           (undels s) (last s) ds' cp' (votes s) (prev s) (tsup s)).
(* the same message for the pool validator's own account: in the observation the account id of "the pool
   validator" follows the rotation (all its coins, the pool record, the staking validator move with it), so only
   the fee is visible *)
Definition rotate_validator (payer : Z) (s : st) : outcome st :=
  if nbal s payer 0 <? recovery_fee then Err "insufficient funds" else
  Ok (set_nbal s (aadd (nbal s) payer 0 (- recovery_fee))).

(* genesis round trip of x/multistaking and x/distributor (real ExportGenesis, emptied stores, real InitGenesis).
   Exported and restored: pools, undelegation records, reward records, the distributor's treasury / votes / previous
   proposer.  NOT part of the genesis state (C12 findings lost:multistaking/KeyPrefixPoolDelegator, .../KeyPrefixCompoundInfo):
   the pools' delegator lists and the compound infos; the undelegation id counter is restored as the highest imported id *)
Definition max_undel_id (l : list undel) : Z := fold_left (fun m u => Z.max m (u_id u)) l 0.
Definition genesis_roundtrip (s : st) : outcome st :=
  Ok (mkSt (time s) (height s) (slashed s) (stake s) (shares s) (ssup s) (modb s) (fee s) (treas s) (nbal s) (sbal s) (rew s)
           (undels s) (max_undel_id (undels s)) [] (fun _ => (false, [], 0)) (votes s) (prev s) (tsup s)).

Definition set_compound (who : Z) (all : bool) (ds : list Z) (s : st) : outcome st :=
  Ok (set_comp s (fun a => if a =? who then (all, ds, 0) else comp s a)).

(* ---------------------------------------------------------------- rewards *)
(* UnregisterNotEnoughStakeDelegator *)
Definition keeps_delegator (c : cfg) (s : st) (a : Z) : bool :=
  existsb (fun d => match tok_of c d with
                    | None => false
                    | Some (_, mn, _) => negb (shares s d =? 0) && (mn <=? sbal s a d) end) (c_dens c).

(* rewards allocated to one staked denom: NewDecFromInt(reward).Mul(StakeCap).RoundInt() *)
Definition denom_alloc (rw : cmap) (cap r : Z) : Z := round_int (chop_round (dec_of_int (rw r) * cap)).
Definition delegator_cut (alloc bal total : Z) : Z := Z.quot (alloc * bal) total.

Definition credit_denom (c : cfg) (s : st) (rw : cmap) (d : Z) (m : amap) : amap :=
  match tok_of c d with
  | None => m
  | Some (_, _, cap) =>
      if (cap =? 0) || (shares s d =? 0) then m else
      fold_left (fun m a =>
        fold_left (fun m r => aadd m a r (delegator_cut (denom_alloc rw cap r) (sbal s a d) (shares s d))) (c_dens c) m)
        (dels s) m
  end.
Definition credit_all (c : cfg) (s : st) (rw : cmap) : amap :=
  fold_left (fun m d => credit_denom c s rw d m) (c_dens c) (rew s).

Fixpoint compound_select (c : cfg) (r : cmap) (cds : list Z) (ds : list Z) : outcome coins :=
  match ds with
  | [] => Ok []
  | d :: rest =>
      if r d =? 0 then compound_select c r cds rest else
      match tok_of c d with
      | None => Panic "nil token info"
      | Some (en, mn, _) =>
          do t <- compound_select c r cds rest;
          Ok (if en && (mn <=? r d) && zmem d cds then (d, r d) :: t else t)
      end
  end.

Definition autocompound_one (c : cfg) (a : Z) (s : st) : outcome st :=
  let '(all, cds, lastx) := comp s a in
  if height s <? lastx + c_autoint c then Ok s else
  do auto <- (if all then Ok (cmap_coins (c_dens c) (rew s a)) else compound_select c (rew s a) cds (c_dens c));
  let s := if all then set_rew s (aset (rew s) a czero)
           else match auto with [] => s | _ => set_rew s (asubs (rew s) a auto) end in
  match auto with
  | [] => Ok s
  | _ =>
      if negb (all_gte (fee s) auto) then Err "insufficient funds" else
      let s := mkSt (time s) (height s) (slashed s) (stake s) (shares s) (ssup s) (modb s) (csubs (fee s) auto) (treas s)
                    (aadds (nbal s) a auto) (sbal s) (rew s) (undels s) (last s) (dels s) (comp s) (votes s) (prev s) (tsup s) in
      match delegate c a auto s with
      | Ok s => Ok (set_comp s (fun b => if b =? a then (all, cds, height s) else comp s b))
      | Err e => Err e
      | Panic e => Panic e
      end
  end.
(* a refused compounding (Err: fee collector cannot cover, Delegate refuses) used to panic inside the begin
   blocker; since a2421a4 it runs on a cache context: the branch is discarded, the rewards stay credited *)
Fixpoint autocompound (v : variant) (c : cfg) (l : list Z) (s : st) : outcome st :=
  match l with
  | [] => Ok s
  | a :: r =>
      match autocompound_one c a s with
      | Ok s' => autocompound v c r s'
      | Err e => if v_compound_safe v then autocompound v c r s else Panic e
      | Panic e => Panic e
      end
  end.

(* IncreasePoolRewards *)
Definition increase_pool_rewards (v : variant) (c : cfg) (rw : cmap) (s : st) : outcome st :=
  let s := set_dels s (filter (keeps_delegator c s) (dels s)) in
  let s := set_rew s (credit_all c s rw) in
  autocompound v c (dels s) s.

Definition is_validator (v : Z) : bool := (v =? 0) || (v =? 1).
Definition has_pool (v : Z) : bool := v =? 0.
Definition val_acct (v : Z) : Z := 100 + v.
Definition count_votes (v : Z) (vs : list (Z * Z)) : Z := Z.of_nat (List.length (filter (fun p => fst p =? v) vs)).
Definition dec_mul_round (x : Z) (d : Z) : Z := round_int (chop_round (dec_of_int x * d)).

(* the amounts AllocateTokens computes for the previous proposer *)
Definition collected (c : cfg) (s : st) : cmap :=
  if forallb (fun d => treas s d <=? fee s d) (c_dens c)
  then (fun d => if zmem d (c_dens c) then fee s d - treas s d else 0) else czero.
Definition fee_cut (c : cfg) (s : st) (power d : Z) : Z := Z.quot (collected c s d * power) (c_snap c).
Definition val_fee_reward (c : cfg) (s : st) (power d : Z) : Z :=
  let r := dec_mul_round (fee_cut c s power d) (Z.min (c_vfs c) PREC) in if 0 <? r then r else 0.
Definition pool_fee_reward (c : cfg) (s : st) (power d : Z) : Z :=
  let r := fee_cut c s power d - dec_mul_round (fee_cut c s power d) (Z.min (c_vfs c) PREC) in if 0 <? r then r else 0.
Definition infl_cut (c : cfg) (infl power : Z) : Z := Z.quot (infl * power) (c_snap c).
Definition infl_commission (c : cfg) (infl power : Z) : Z := dec_mul_round (infl_cut c infl power) (c_comm c).

Definition pay_validator (c : cfg) (v : Z) (vr : cmap) (s : st) : outcome st :=
  if cmap_is_zero (c_dens c) vr then Ok s else
  if existsb (fun d => fee s d <? vr d) (c_dens c) then Panic "insufficient funds" else
  Ok (mkSt (time s) (height s) (slashed s) (stake s) (shares s) (ssup s) (modb s) (cminus (fee s) vr) (treas s)
           (aset (nbal s) (val_acct v) (cplus (nbal s (val_acct v)) vr)) (sbal s) (rew s)
           (undels s) (last s) (dels s) (comp s) (votes s) (prev s) (tsup s)).

(* AllocateTokens (InflationPossible = true; the minted inflation [infl] is an input) *)
Definition allocate (v : variant) (c : cfg) (infl : Z) (s : st) : outcome st :=
  if c_snap c =? 0 then Panic "division by zero" else
  let power := count_votes (prev s) (votes s) in
  let vr0 : cmap := val_fee_reward c s power in
  let pr0 : cmap := pool_fee_reward c s power in
  let s1 := set_fee s (cadd (fee s) 0 infl) in
  do s2 <- (if is_validator (prev s) then
              if has_pool (prev s) then
                let ic := infl_commission c infl power in
                let ip := infl_cut c infl power - ic in
                if (ic <? 0) || (ip <? 0) then Panic "negative coin amount" else
                let vr := cadd vr0 0 ic in
                let pr := cadd pr0 0 ip in
                do s' <- (if cmap_is_zero (c_dens c) pr then Ok s1 else increase_pool_rewards v c pr s1);
                pay_validator c (prev s) vr s'
              else pay_validator c (prev s) vr0 s1
            else Ok s1);
  Ok (set_treas s2 (fee s2)).

Definition recorded (v : variant) (commit : list (Z * bool)) : list Z :=
  map fst (filter (fun e => negb (v_signers_only v) || snd e) commit).
Definition add_votes (commit : list Z) (h : Z) (vs : list (Z * Z)) : list (Z * Z) :=
  fold_left (fun acc v => if existsb (fun p => (fst p =? v) && (snd p =? h)) acc then acc else acc ++ [(v, h)]) commit vs.

(* distributor BeginBlocker of the next block *)
Definition begin_block (v : variant) (c : cfg) (dt : Z) (commit : list (Z * bool)) (proposer : Z) (possible : bool) (infl : Z) (s : st)
  : outcome st :=
  let s0 := set_clock s (time s + dt) (height s + 1) in
  do s1 <- (if (1 <? height s0) && possible then allocate v c infl s0 else Ok s0);
  let vs := add_votes (recorded v commit) (height s0) (votes s1) in
  let vs := filter (fun p => negb (snd p + c_snap c <=? height s0)) vs in
  Ok (set_votes s1 vs proposer).

(* distributor EndBlocker (vote bookkeeping part) *)
Definition end_block (v : variant) (c : cfg) (s : st) : outcome st :=
  Ok (set_votes s (filter (fun p => negb (end_deletes (v_end_rule v) (snd p) (c_snap c) (height s))) (votes s)) (prev s)).

(* ---------------------------------------------------------------- operations *)
Inductive op : Type :=
| ODelegate (who : Z) (amts : coins)
| OUndelegate (who : Z) (amts : coins)
| OClaim (who id : Z)
| OClaimMatured (who : Z)
| OSlash (sl : Z)                                        (* multistaking keeper SlashStakingPool *)
| OSlashProposal (sl : Z)                                (* x/slashing proposal handler -> slashing keeper *)
| OSendShares (from to : Z) (amts : coins)
| OClaimRewards (who : Z)
| ORegister (who : Z)
| OSetCompound (who : Z) (all : bool) (ds : list Z)
| OFees (amts : coins)                                  (* fees of the block arrive in the fee collector *)
| OAdvance (dt : Z)                                     (* block time passes *)
| OSetVotes (vs : list (Z * Z))                         (* keeper-level SetValidatorVote (allocation tests) *)
| OAllocate (possible : bool) (infl : Z)                                  (* keeper-level AllocateTokens *)
| ORotate (who to payer : Z)                             (* recovery address rotation of a delegator *)
| ORotateVal (payer : Z)                                (* recovery address rotation of the pool validator's account *)
| OExternal (tag : Z)                                   (* an action of another module that is outside the model (the
                                                           spec checker judges its observation; the model takes it as given) *)
| OGenesis                                              (* genesis export + re-import of multistaking and distributor *)
| OBegin (dt : Z) (commit : list (Z * bool)) (proposer : Z) (possible : bool) (infl : Z)
| OEnd.

Definition step (v : variant) (c : cfg) (o : op) (s : st) : outcome st :=
  match o with
  | ODelegate who amts => delegate c who amts s
  | OUndelegate who amts => undelegate v c who amts s
  | OClaim who id => claim v who id s
  | OClaimMatured who => claim_matured who s
  | OSlash sl => slash v c sl s
  | OSlashProposal sl =>
      if v_slash_byref v then slash v c sl s
      else match slash v c sl s with Ok _ => Panic "nil distributor keeper" | r => r end
  | OSendShares a b amts => send_shares a b amts s
  | OClaimRewards who => claim_rewards c who s
  | ORegister who => register c who s
  | OSetCompound who all ds => set_compound who all ds s
  | OFees amts => Ok (set_fee s (cadds (fee s) amts))
  | OAdvance dt => Ok (set_clock s (time s + dt) (height s))
  | OSetVotes vs => Ok (set_votes s vs (prev s))
  | OAllocate possible infl => if possible then allocate v c infl s else Ok s
  | ORotate who to payer => rotate who to payer s
  | ORotateVal payer => rotate_validator payer s
  | OExternal _ => Ok s
  | OGenesis => genesis_roundtrip s
  | OBegin dt commit p possible infl => begin_block v c dt commit p possible infl s
  | OEnd => end_block v c s
  end.

(* a message / block step that fails leaves the state as it was (baseapp discards the cache) *)
Definition step_total (v : variant) (c : cfg) (s : st) (o : op) : st :=
  match step v c o s with Ok s' => s' | _ => s end.
Definition run (v : variant) (c : cfg) (ops : list op) (s : st) : st := fold_left (step_total v c) ops s.
