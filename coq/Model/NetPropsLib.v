(* Hand-written helpers referenced by the generated Gen/NetProps.v: models of
   BoolToInt / IntToBool (x/gov/keeper/util.go), Dec.String on a possibly-nil Dec,
   EnsureOldUniqueKeysNotRemoved / EnsureUniqueKeys (x/gov/keeper/keeper.go) and the
   unique-keys loop of ValidateNetworkProperties. Their source is pinned by fingerprint in the
   generated file and exercised by the correspondence run. *)
From Sekai Require Import Base.Prelude Base.Dec.

Inductive fval : Type := FNum (z : Z) | FBool (b : bool) | FDec (d : odec) | FStr (s : string).
Inductive fkind : Type := KNum | KBool | KDec | KStr.

Definition bool_to_int (b : bool) : Z := if b then 1 else 0.
Definition int_to_bool (z : Z) : bool := negb (z =? 0).
Definition odec_string (d : odec) : string :=
  match d with None => "<nil>" | Some z => dec_to_string z end.

(* strings.Split(s, ",") with the `if s == "" { arr = []string{} }` special case *)
Definition split_keys (s : string) : list string :=
  if String.eqb s "" then [] else split_on ","%char s.

Fixpoint first_not_in (l : list string) (m : list string) : string :=
  match l with
  | [] => ""
  | x :: r => if str_in x m then first_not_in r m else x
  end.
Definition ensure_old_unique_keys_not_removed (oldKeys newKeys : string) : string :=
  first_not_in (split_keys oldKeys) (split_keys newKeys).

Fixpoint dup_scan (newKeys : list string) (recs : list (string * string)) (seen : list string) : string :=
  match recs with
  | [] => ""
  | (k, v) :: r =>
      if str_in k newKeys then
        let kv := (k ++ ":" ++ v)%string in
        if str_in kv seen then k else dup_scan newKeys r (kv :: seen)
      else dup_scan newKeys r seen
  end.
Definition ensure_unique_keys (recs : list (string * string)) (oldKeys newKeys : string) : string :=
  let olds := split_keys oldKeys in
  let news := filter (fun k => negb (str_in k olds)) (split_keys newKeys) in
  dup_scan news recs [].

(* for _, key := range strings.Split(keys, ",") { valid key? ; key == "moniker" } ; if !monikerExists *)
Definition unique_keys_valid_only (s : string) : bool := forallb valid_key (split_on ","%char s).
Definition unique_keys_block_ok (s : string) : bool :=
  (unique_keys_valid_only s && str_in "moniker" (split_on ","%char s))%bool.

(* fingerprints of the pinned helper sources (sha256 of the whitespace-normalised text, 8 bytes) *)
Definition pinned_fingerprints : list (string * string) :=
  [("SetNetworkProperties", "a9b1672839ac4798");   (* the message handler: gate, unique-keys guards, THEN the write *)
   ("BoolToInt", "d72e7561fb894231");
   ("IntToBool", "98471c7388184c5b");
   ("FormalizeIdentityRecordKey", "4ded84d0599a750e");
   ("ValidateIdentityRecordKey", "48932523163583ca");
   ("EnsureOldUniqueKeysNotRemoved", "dd2f1ab0e8630f2e");
   ("EnsureUniqueKeys", "9e6968bbc095f461")]%string.

(* the write paths of the pinned tree: who touches the store key, who calls the setters, and the
   permission the message handler checks before writing (x/gov/keeper/msg_server.go) *)
Definition pinned_store_key_users : list (string * string * string) :=
  [("x/gov/keeper/keeper.go", "GetNetworkProperties", "KeyPrefixNetworkProperties");
   ("x/gov/keeper/keeper.go", "SetNetworkProperties", "KeyPrefixNetworkProperties")]%string.
Definition pinned_setter_callers : list (string * string * string) :=
  [("x/gov/genesis.go", "InitGenesis", "SetNetworkProperties");           (* genesis import: panics on error *)
   ("x/gov/handler.go", "NewHandler", "SetNetworkProperties");            (* routes the message to the msg server *)
   ("x/gov/keeper/keeper.go", "SetNetworkProperty", "SetNetworkProperties");
   ("x/gov/keeper/msg_server.go", "SetNetworkProperties", "SetNetworkProperties");  (* gated by the change permission *)
   ("x/gov/proposal_handler.go", "Apply", "SetNetworkProperty")]%string.   (* passed proposal *)
Definition pinned_gate_perm : string := "PermChangeTxFee".

(* an invalid genesis record must stop the import (the module wrapper discards InitGenesis's
   return value, so returning the error instead would silently start the chain without
   network properties) *)
Definition pinned_genesis_error_handling : string := "if err != nil { panic(err) }".
