(* Shared prelude: imports, outcomes, string helpers used by models and generated files. *)
From Coq Require Export List ZArith Bool String Ascii Lia.
Export ListNotations.
Open Scope Z_scope.

(* Every place where the Go code panics is a [Panic]; errors are [Err]; never a totalised default. *)
Inductive outcome (A : Type) : Type :=
| Ok (a : A)
| Err (e : string)
| Panic (site : string).
Arguments Ok {A} a.
Arguments Err {A} e.
Arguments Panic {A} site.

Definition bind {A B} (o : outcome A) (f : A -> outcome B) : outcome B :=
  match o with Ok a => f a | Err e => Err e | Panic s => Panic s end.
Notation "'do' x <- o ; k" := (bind o (fun x => k)) (at level 200, x pattern, o at level 100, k at level 200, right associativity).

Definition is_ok {A} (o : outcome A) : bool := match o with Ok _ => true | _ => false end.
Definition is_panic {A} (o : outcome A) : bool := match o with Panic _ => true | _ => false end.

(* byte list -> string (used by the harness for non-printable data) *)
Definition bytes_to_string (l : list nat) : string :=
  fold_right (fun n s => String (ascii_of_nat n) s) EmptyString l.

(* -------- string helpers (Go: strings.Split, strings.ToLower, regexp ^[a-zA-Z][_0-9a-zA-Z]*$) *)
Definition ascii_eqb (a b : ascii) : bool := Ascii.eqb a b.

Fixpoint split_aux (sep : ascii) (s : string) (cur : string) : list string :=
  match s with
  | EmptyString => [cur]
  | String c r => if ascii_eqb c sep then cur :: split_aux sep r EmptyString
                  else split_aux sep r (cur ++ String c EmptyString)
  end.
(* strings.Split(s, sep): always at least one element *)
Definition split_on (sep : ascii) (s : string) : list string := split_aux sep s EmptyString.

Definition is_upper (c : ascii) : bool := let n := nat_of_ascii c in (Nat.leb 65 n && Nat.leb n 90)%bool.
Definition is_lower (c : ascii) : bool := let n := nat_of_ascii c in (Nat.leb 97 n && Nat.leb n 122)%bool.
Definition is_digit (c : ascii) : bool := let n := nat_of_ascii c in (Nat.leb 48 n && Nat.leb n 57)%bool.
Definition lower_ascii (c : ascii) : ascii := if is_upper c then ascii_of_nat (nat_of_ascii c + 32) else c.
(* strings.ToLower on ASCII input (the generators only produce ASCII) *)
Fixpoint to_lower (s : string) : string :=
  match s with EmptyString => EmptyString | String c r => String (lower_ascii c) (to_lower r) end.

Definition is_alpha (c : ascii) : bool := (is_upper c || is_lower c)%bool.
Definition is_word (c : ascii) : bool := (is_alpha c || is_digit c || ascii_eqb c "_"%char)%bool.
Fixpoint all_chars (p : ascii -> bool) (s : string) : bool :=
  match s with EmptyString => true | String c r => (p c && all_chars p r)%bool end.
(* ValidateIdentityRecordKey / ValidateRoleSidKey *)
Definition valid_key (s : string) : bool :=
  match s with EmptyString => false | String c r => (is_alpha c && all_chars is_word r)%bool end.

Fixpoint str_in (x : string) (l : list string) : bool :=
  match l with [] => false | y :: r => (String.eqb x y || str_in x r)%bool end.

Definition two64 : Z := 18446744073709551616.
Definition two63 : Z := 9223372036854775808.
Definition u64_ok (z : Z) : bool := (0 <=? z) && (z <? two64).
(* uint64 wrap-around and the int64(uint64) cast *)
Definition wrap64 (z : Z) : Z := z mod two64.
Definition as_int64 (z : Z) : Z := let w := wrap64 z in if w <? two63 then w else w - two64.

Definition zsum (l : list Z) : Z := fold_right Z.add 0 l.
