(* sdk.Dec (cosmossdk.io/math v1.2.0 LegacyDec): an integer scaled by 10^18, with the SDK's
   exact rounding, string parsing and printing. *)
From Sekai Require Import Base.Prelude.
From Coq Require Import DecimalString DecimalZ Decimal.

Definition PREC : Z := 1000000000000000000.
Definition HALF : Z := 500000000000000000.
Definition max_dec_bits : Z := 315.

Definition bitlen (z : Z) : Z := if Z.abs z =? 0 then 0 else Z.log2 (Z.abs z) + 1.
Definition dec_in_range (z : Z) : bool := bitlen z <=? max_dec_bits.

(* chopPrecisionAndRound: drop 18 digits, banker's rounding *)
Definition chop_round_pos (d : Z) : Z :=
  let q := d / PREC in let r := d mod PREC in
  if r =? 0 then q
  else if r <? HALF then q
  else if HALF <? r then q + 1
  else if Z.even q then q else q + 1.
Definition chop_round (d : Z) : Z := if d <? 0 then - chop_round_pos (- d) else chop_round_pos d.
Definition chop_trunc (d : Z) : Z := Z.quot d PREC.
Definition chop_round_up (d : Z) : Z :=
  if d <? 0 then - (Z.quot (- d) PREC)
  else let q := d / PREC in if d mod PREC =? 0 then q else q + 1.

Definition dec := Z.   (* scaled by 10^18 *)
Definition dec_one : dec := PREC.
Definition dec_zero : dec := 0.
Definition dec_of_int (i : Z) : dec := i * PREC.
(* NewDecWithPrec(i, prec) = i * 10^(18-prec) *)
Definition dec_with_prec (i prec : Z) : dec := i * 10 ^ (18 - prec).

(* Mul / Quo panic with "Int overflow" beyond 315 bits, Quo panics on a zero divisor *)
Definition dmul (a b : dec) : outcome dec :=
  let r := chop_round (a * b) in if dec_in_range r then Ok r else Panic "Int overflow".
Definition dmul_trunc (a b : dec) : outcome dec :=
  let r := chop_trunc (a * b) in if dec_in_range r then Ok r else Panic "Int overflow".
Definition dquo (a b : dec) : outcome dec :=
  if b =? 0 then Panic "division by zero"
  else let r := chop_round (Z.quot (a * PREC * PREC) b) in
       if dec_in_range r then Ok r else Panic "Int overflow".
Definition dquo_trunc (a b : dec) : outcome dec :=
  if b =? 0 then Panic "division by zero"
  else let r := chop_trunc (Z.quot (a * PREC * PREC) b) in
       if dec_in_range r then Ok r else Panic "Int overflow".
Definition dmul_int (a : dec) (i : Z) : outcome dec :=
  let r := a * i in if dec_in_range r then Ok r else Panic "Int overflow".
Definition dquo_int (a : dec) (i : Z) : outcome dec :=
  if i =? 0 then Panic "division by zero" else Ok (Z.quot a i).
(* total versions for places where the divisor is a non-zero literal *)
Definition dquo_int64 (a : dec) (i : Z) : dec := Z.quot a i.
Definition round_int (a : dec) : Z := chop_round a.
Definition trunc_int (a : dec) : Z := chop_trunc a.

(* the model's view of a possibly-nil Dec *)
Definition odec := option Z.
Definition dec_is_nil (d : odec) : bool := match d with None => true | _ => false end.
Definition dec_is_neg (d : odec) : bool := match d with Some z => z <? 0 | None => false end.
Definition dec_gt (d : odec) (x : dec) : bool := match d with Some z => x <? z | None => false end.
Definition dec_gte (d : odec) (x : dec) : bool := match d with Some z => x <=? z | None => false end.
Definition dec_lt (d : odec) (x : dec) : bool := match d with Some z => z <? x | None => false end.
Definition dec_lte (d : odec) (x : dec) : bool := match d with Some z => z <=? x | None => false end.

(* ---------------------------------------------------------------- NewDecFromStr *)
Fixpoint digits_val (s : string) (acc : Z) : option Z :=
  match s with
  | EmptyString => Some acc
  | String c r => if is_digit c then digits_val r (acc * 10 + Z.of_nat (nat_of_ascii c - 48)) else None
  end.
(* big.Int.SetString(s, 10): optional sign, at least one digit, nothing else *)
Definition bigint_of_string (s : string) : option Z :=
  match s with
  | EmptyString => None
  | String c r =>
      if ascii_eqb c "-"%char then
        match r with EmptyString => None | _ => option_map Z.opp (digits_val r 0) end
      else if ascii_eqb c "+"%char then
        match r with EmptyString => None | _ => digits_val r 0 end
      else digits_val s 0
  end.
Fixpoint zeros (n : nat) : string := match n with O => EmptyString | S k => String "0"%char (zeros k) end.

Definition dec_of_string (s0 : string) : option Z :=
  let '(neg, s) := match s0 with
                   | String c r => if ascii_eqb c "-"%char then (true, r) else (false, s0)
                   | EmptyString => (false, s0) end in
  match s with
  | EmptyString => None
  | _ =>
    let parts := split_on "."%char s in
    let comb := match parts with
                | [a] => Some (a, O)
                | [a; b] => if (Nat.eqb (String.length b) 0 || Nat.eqb (String.length a) 0)%bool then None
                            else Some ((a ++ b)%string, String.length b)
                | _ => None end in
    match comb with
    | None => None
    | Some (c, lenDecs) =>
      if Nat.ltb 18 lenDecs then None else
      match bigint_of_string (c ++ zeros (18 - lenDecs)) with
      | None => None
      | Some z => if dec_in_range z then Some (if neg then - z else z) else None
      end
    end
  end.

(* ---------------------------------------------------------------- Dec.String() *)
Definition z_to_string (z : Z) : string := NilZero.string_of_int (Z.to_int z).
Definition dec_to_string (d : Z) : string :=
  let a := z_to_string (Z.abs d) in
  let n := String.length a in
  let body := if Nat.leb n 18 then ("0." ++ zeros (18 - n) ++ a)%string
              else (substring 0 (n - 18) a ++ "." ++ substring (n - 18) 18 a)%string in
  if d <? 0 then ("-" ++ body)%string else body.
