(* float32 tally vs. the exact rule *)
From Coq Require Import ZArith List Bool Lia.
From Sekai Require Import Base.Prelude Model.Gov Model.F32Tally.
From Coq Require Import ZifyBool.
Open Scope Z_scope.

Lemma sweep_ok_true : sweep_with pct_exact SWEEP = true.
Proof. vm_cast_no_check (eq_refl true). Qed.

Lemma boundary_ok_true : boundary_ok = true.
Proof. vm_cast_no_check (eq_refl true). Qed.

Lemma in_zrange : forall lo n z, Z.of_nat lo <= z < Z.of_nat lo + Z.of_nat n -> In z (zrange lo n).
Proof.
  intros lo n z H. unfold zrange. apply in_map_iff. exists (Z.to_nat z). split; [lia|].
  apply in_seq. lia.
Qed.

Lemma sweep_sound : forall (f : Z -> Z -> bool) (n : nat),
  sweep_with f n = true ->
  forall x y, 0 <= x < Z.of_nat n -> 0 < y < Z.of_nat n -> f x y = true.
Proof.
  intros f n H x y Hx Hy. unfold sweep_with in H. rewrite forallb_forall in H.
  specialize (H y (in_zrange 1 (n - 1) y ltac:(lia))).
  rewrite forallb_forall in H. apply H. apply in_zrange. lia.
Qed.

Lemma pct_exact_small : forall x y, 0 <= x < 256 -> 0 < y < 256 -> pct_exact x y = true.
Proof. intros x y Hx Hy. apply (sweep_sound pct_exact SWEEP sweep_ok_true); unfold SWEEP; lia. Qed.

Lemma pct_0_0 : f32_gtb (pct 0 0) f32_fifty = false /\ f32_geb (pct 0 0) f32_fifty = false.
Proof. vm_compute. split; reflexivity. Qed.

(* the float32 result equals the exact rule for every tally of fewer than 256 voters *)
Lemma decide_f32_exact_partial : forall t,
  0 <= t_yes t -> 0 <= t_no t -> 0 <= t_abstain t -> 0 <= t_veto t -> 0 <= t_vcap t < 256 ->
  t_yes t + t_no t + t_abstain t + t_veto t <= t_total t < 256 ->
  decide_f32 t = decide_q t.
Proof.
  intros t Hy Hn Ha Hv Hc Ht. unfold decide_f32, decide_q.
  assert (Hveto : t_vcap t <> 0 -> f32_geb (pct (t_veto t) (t_vcap t)) f32_fifty = (t_vcap t <=? 2 * t_veto t)).
  { intros Hne. pose proof (pct_exact_small (t_veto t) (t_vcap t) ltac:(lia) ltac:(lia)) as E.
    unfold pct_exact in E. apply andb_true_iff in E. destruct E as [_ E]. apply eqb_prop in E. exact E. }
  assert (Hrest :
    (if f32_gtb (pct (t_yes t) (t_total t)) f32_fifty then Passed
     else if f32_geb (pct (t_no t + t_abstain t + t_veto t) (t_total t)) f32_fifty then Rejected else Unknown)
    = (if t_total t =? 0 then Unknown else if t_total t <? 2 * t_yes t then Passed
       else if t_total t <=? 2 * (t_no t + t_abstain t + t_veto t) then Rejected else Unknown)).
  { destruct (Z.eqb_spec (t_total t) 0) as [Et|Et].
    - assert (Ey : t_yes t = 0) by lia. assert (Eo : t_no t + t_abstain t + t_veto t = 0) by lia.
      rewrite Ey, Eo, Et. destruct pct_0_0 as [G1 G2]. rewrite G1, G2. reflexivity.
    - pose proof (pct_exact_small (t_yes t) (t_total t) ltac:(lia) ltac:(lia)) as E1.
      pose proof (pct_exact_small (t_no t + t_abstain t + t_veto t) (t_total t) ltac:(lia) ltac:(lia)) as E2.
      unfold pct_exact in E1, E2. apply andb_true_iff in E1. apply andb_true_iff in E2.
      destruct E1 as [E1 _]. destruct E2 as [_ E2]. apply eqb_prop in E1. apply eqb_prop in E2.
      rewrite E1, E2. reflexivity. }
  destruct (Z.eqb_spec (t_vcap t) 0) as [E0|E0]; cbn [negb andb].
  - exact Hrest.
  - rewrite (Hveto E0). destruct (t_vcap t <=? 2 * t_veto t); [reflexivity|exact Hrest].
Qed.

(* 16777216 yes votes out of 33554431 are more than half, but not in float32 *)
Lemma decide_f32_refuted :
  exists t, 0 <= t_yes t <= t_total t /\ decide_q t = Passed /\ decide_f32 t <> Passed.
Proof.
  exists (mkT 16777216 16777215 0 0 33554431 0). split; [cbn; lia|]. split; [reflexivity|].
  vm_compute. discriminate.
Qed.

Lemma decide_f32_range : forall t, decide_f32 t <> Enactment /\ decide_f32 t <> Pending.
Proof.
  intros t. unfold decide_f32.
  destruct (negb (t_vcap t =? 0) && _); [split; discriminate|].
  destruct (f32_gtb _ _); [split; discriminate|].
  destruct (f32_geb _ _); split; discriminate.
Qed.
