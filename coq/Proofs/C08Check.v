(* Facts about the concrete instance (Model/GovWorld.v) and the spec checker (Model/C08Check.v). *)
From Sekai Require Import Base.Prelude Base.Dec Gen.GovHandlers Model.Gov Model.GovWorld Model.C08Check Proofs.Gov.
From Coq Require Import ZifyBool.

Lemma decide_q_range : forall t, decide_q t <> Enactment /\ decide_q t <> Pending.
Proof.
  intros t. unfold decide_q.
  destruct (negb (t_vcap t =? 0) && (t_vcap t <=? 2 * t_veto t)); [split; discriminate|].
  destruct (t_total t =? 0); [split; discriminate|].
  destruct (t_total t <? 2 * t_yes t); [split; discriminate|].
  destruct (t_total t <=? 2 * (t_no t + t_abstain t + t_veto t)); split; discriminate.
Qed.

(* ---- "completely or not at all", per handler: a successful handler produced the complete effect
   of its content ([spec_effect], the meaning used by the spec checker) *)
Lemma set_duration_spec : forall ty d w w', set_duration ty d w = Some w' ->
  w' = with_durs w (set_ix ty d (w_durs w)) /\ n_endtime (w_np w) <= d.
Proof.
  intros ty d w w' H. unfold set_duration in H. destruct (Z.ltb_spec d (n_endtime (w_np w))); [discriminate|].
  inversion H. auto.
Qed.

Lemma apply_durations_complete : forall l w w',
  apply_durations true l w = Ok w' ->
  w' = with_durs w (fold_left (fun d e => set_ix (fst e) (snd e) d) l (w_durs w)).
Proof.
  induction l as [|[ty d] r IH]; intros w w' H; cbn [apply_durations fold_left fst snd] in *.
  - inversion H. destruct w'; reflexivity.
  - destruct (set_duration ty d w) as [w1|] eqn:E; [|discriminate].
    apply set_duration_spec in E. destruct E as [-> _]. apply IH in H. rewrite H. reflexivity.
Qed.

Lemma apply_durations_no_short : forall flag l w,
  forallb (fun e => n_endtime (w_np w) <=? snd e) l = true ->
  apply_durations flag l w = Ok (with_durs w (fold_left (fun d e => set_ix (fst e) (snd e) d) l (w_durs w))).
Proof.
  intros flag. induction l as [|[ty d] r IH]; intros w H; cbn [apply_durations fold_left fst snd forallb] in *.
  - destruct w; reflexivity.
  - apply andb_true_iff in H. destruct H as [H1 H2]. unfold set_duration.
    destruct (Z.ltb_spec d (n_endtime (w_np w))); [lia|]. rewrite IH; [reflexivity|exact H2].
Qed.

Lemma handler_success_is_full_effect : forall flag ct w w',
  (flag = true \/ match ct with CDurations l => forallb (fun e => n_endtime (w_np w) <=? snd e) l = true | _ => True end) ->
  c_handler flag ct w = Ok w' -> w' = spec_effect ct w.
Proof.
  intros flag ct w w' Hg H. destruct ct as [pid v|key hash|who perm|who perm|l]; cbn [c_handler spec_effect] in *.
  - destruct (np_get pid (w_np w)) as [cur|]; [|discriminate]. destruct (cur =? v); [discriminate|].
    unfold np_set in H. destruct (np_put pid v (w_np w)) as [n'|]; [|discriminate].
    destruct (np_valid n'); inversion H. reflexivity.
  - destruct ((hash =? 9) && negb (get_ix 4 (w_reg w) =? 0)); inversion H. reflexivity.
  - unfold whitelist in H. destruct (mem perm _); inversion H. reflexivity.
  - unfold unwhitelist in H. destruct (get_actor who (w_actors w)) as [a|]; [|discriminate].
    destruct (mem perm (a_wl a)); inversion H. reflexivity.
  - destruct Hg as [->|Hg].
    + apply apply_durations_complete. exact H.
    + rewrite (apply_durations_no_short flag l w Hg) in H. inversion H. reflexivity.
Qed.

(* full strength for the tree as it is: the translator read `return err` (this proof stops checking
   -- and the spec checker's clause `atomic` finds the input -- if the branch swallows the error again) *)
Lemma durations_error_is_returned : durations_error_returned = true.
Proof. reflexivity. Qed.

Lemma handler_success_is_full_effect_now : forall ct w w',
  c_handler durations_error_returned ct w = Ok w' -> w' = spec_effect ct w.
Proof.
  intros ct w w' H. apply (handler_success_is_full_effect durations_error_returned ct w w'); [|exact H].
  left. exact durations_error_is_returned.
Qed.

(* the durations handler in its earlier `return nil` shape (error swallowed): success without the complete effect *)
Definition w_demo : world :=
  mkW (mkNP 100 1000000 330000000000000000 300 10 1 1) [(0, mkA true true [10; 11; 31; 32])] [0; 0; 0; 0; 0; 0; 0; 0] [0; 0; 0; 0].

Lemma durations_all_or_nothing_refuted :
  exists l w w', c_handler false (CDurations l) w = Ok w' /\ w' <> spec_effect (CDurations l) w.
Proof.
  exists [(1, 400); (2, 5); (3, 500)], w_demo. eexists. split; [vm_compute; reflexivity|]. vm_compute. discriminate.
Qed.

(* ---- non-vacuity: a history of the instantiated model in which a proposal passes and is applied *)
Definition demo_ops : list (ctx * cop) :=
  [ (mkC 1000 5, OSubmit 0 (CRegistry 1 7)); (mkC 1000 5, OVote 0 1 1); (mkC 1000 5, OEndBlock);
    (mkC 1300 6, OVote 0 1 3);     (* at the end time (not after it): accepted, replaces the yes vote *)
    (mkC 1300 6, OVote 0 1 1);     (* ... and is replaced again *) (mkC 1300 6, OEndBlock); (mkC 1310 7, OEndBlock); (mkC 1310 8, OEndBlock) ].
Definition demo_final : cstate := run world ccontent cext (c_params false decide_q) demo_ops (init w_demo).

Lemma demo_applied_once :
  n_applied world ccontent 1 (log demo_final) = 1%nat
  /\ get_ix 1 (w_reg (app demo_final)) = 7
  /\ option_map (fun p => vresult_code (p_result p)) (props demo_final 1) = Some 1
  /\ votes demo_final 1 = [(0, 1)].
Proof. vm_compute. repeat split; reflexivity. Qed.
