(* Facts about the concrete instance (Model/GovWorld.v) and the spec checker (Model/C08Check.v). *)
From Sekai Require Import Base.Prelude Base.Dec Gen.GovHandlers Model.Gov Model.GovWorld Model.C08Check Proofs.Gov.
From Coq Require Import ZifyBool.

Lemma decide_q_range : forall t, decide_q t <> Enactment /\ decide_q t <> Pending.
Proof.
  intros t. unfold decide_q.
  destruct (negb (t_vcap t =? 0) && (t_vcap t <=? 2 * t_veto t)); [split; discriminate|].
  destruct (t_total t =? 0); [split; discriminate|].
  destruct (t_total t <? 2 * t_yes t); [split; discriminate|].
  destruct (t_total t <=? 2 * (t_no t + t_abstain t + t_veto t)); split; discriminate.
Qed.

(* ---- "completely or not at all", per handler: a successful handler produced the complete effect
   of its content ([spec_effect], the meaning used by the spec checker) *)
Lemma set_duration_spec : forall ty d w w', set_duration ty d w = Some w' ->
  w' = with_durs w (set_ix ty d (w_durs w)) /\ n_endtime (w_np w) <= d.
Proof.
  intros ty d w w' H. unfold set_duration in H. destruct (Z.ltb_spec d (n_endtime (w_np w))); [discriminate|].
  inversion H. auto.
Qed.

Lemma apply_durations_complete : forall l w w',
  apply_durations true l w = Ok w' ->
  w' = with_durs w (fold_left (fun d e => set_ix (fst e) (snd e) d) l (w_durs w)).
Proof.
  induction l as [|[ty d] r IH]; intros w w' H; cbn [apply_durations fold_left fst snd] in *.
  - inversion H. destruct w'; reflexivity.
  - destruct (set_duration ty d w) as [w1|] eqn:E; [|discriminate].
    apply set_duration_spec in E. destruct E as [-> _]. apply IH in H. rewrite H. reflexivity.
Qed.

Lemma apply_durations_no_short : forall flag l w,
  forallb (fun e => n_endtime (w_np w) <=? snd e) l = true ->
  apply_durations flag l w = Ok (with_durs w (fold_left (fun d e => set_ix (fst e) (snd e) d) l (w_durs w))).
Proof.
  intros flag. induction l as [|[ty d] r IH]; intros w H; cbn [apply_durations fold_left fst snd forallb] in *.
  - destruct w; reflexivity.
  - apply andb_true_iff in H. destruct H as [H1 H2]. unfold set_duration.
    destruct (Z.ltb_spec d (n_endtime (w_np w))); [lia|]. rewrite IH; [reflexivity|exact H2].
Qed.

Lemma handler_success_is_full_effect : forall flag ct w w',
  (flag = true \/ match ct with CDurations l => forallb (fun e => n_endtime (w_np w) <=? snd e) l = true | _ => True end) ->
  c_handler flag ct w = Ok w' -> w' = spec_effect ct w.
Proof.
  intros flag ct w w' Hg H. destruct ct as [pid v|key hash|who perm|who perm|l|name owners q period enact]; cbn [c_handler spec_effect] in *.
  - destruct (np_get pid (w_np w)) as [cur|]; [|discriminate]. destruct (cur =? v); [discriminate|].
    unfold np_set in H. destruct (np_put pid v (w_np w)) as [n'|]; [|discriminate].
    destruct (np_valid n'); inversion H. reflexivity.
  - destruct ((hash =? 9) && negb (get_ix 4 (w_reg w) =? 0)); inversion H. reflexivity.
  - unfold whitelist in H. destruct (mem perm (a_wl _)); [discriminate|]. destruct (mem perm (a_bl _)); inversion H. reflexivity.
  - unfold unwhitelist in H. destruct (get_actor who (w_actors w)) as [a|]; [|discriminate].
    destruct (mem perm (a_wl a)); inversion H. reflexivity.
  - destruct Hg as [->|Hg].
    + apply apply_durations_complete. exact H.
    + rewrite (apply_durations_no_short flag l w Hg) in H. inversion H. reflexivity.
  - destruct (pool_of w (CPoolUpdate name owners q period enact)); inversion H. reflexivity.
Qed.

(* full strength for the tree as it is: the translator read `return err` (this proof stops checking
   -- and the spec checker's clause `atomic` finds the input -- if the branch swallows the error again) *)
Lemma durations_error_is_returned : durations_error_returned = true.
Proof. reflexivity. Qed.

Lemma handler_success_is_full_effect_now : forall ct w w',
  c_handler durations_error_returned ct w = Ok w' -> w' = spec_effect ct w.
Proof.
  intros ct w w' H. apply (handler_success_is_full_effect durations_error_returned ct w w'); [|exact H].
  left. exact durations_error_is_returned.
Qed.

(* the durations handler in its earlier `return nil` shape (error swallowed): success without the complete effect *)
Definition w_demo : world :=
  mkW (mkNP 100 1000000 330000000000000000 300 10 1 1) [(0, mkA true true [10; 11; 31; 32] [] [])] [0; 0; 0; 0; 0; 0; 0; 0] [0; 0; 0; 0] None [].

Lemma durations_all_or_nothing_refuted :
  exists l w w', c_handler false (CDurations l) w = Ok w' /\ w' <> spec_effect (CDurations l) w.
Proof.
  exists [(1, 400); (2, 5); (3, 500)], w_demo. eexists. split; [vm_compute; reflexivity|]. vm_compute. discriminate.
Qed.

(* ---- non-vacuity: a history of the instantiated model in which a proposal passes and is applied *)
Definition demo_ops : list (ctx * cop) :=
  [ (mkC (1000 * NS) 5, OSubmit 0 (CRegistry 1 7)); (mkC (1000 * NS) 5, OVote 0 1 1); (mkC (1000 * NS) 5, OEndBlock);
    (mkC (1300 * NS - 1) 6, OEndBlock);               (* one nanosecond before the end: not finalised *)
    (mkC (1300 * NS) 6, OVote 0 1 3);     (* at the end time (not after it): accepted, replaces the yes vote *)
    (mkC (1300 * NS) 6, OVote 0 1 1);     (* ... and is replaced again *) (mkC (1300 * NS) 6, OEndBlock); (mkC (1310 * NS - 1) 7, OEndBlock); (mkC (1310 * NS) 7, OEndBlock); (mkC (1310 * NS) 8, OEndBlock) ].
Definition demo_final : cstate := run world ccontent cext (c_params (mkF false true false) decide_q) demo_ops (init w_demo).

Lemma demo_applied_once :
  n_applied world ccontent 1 (log demo_final) = 1%nat
  /\ get_ix 1 (w_reg (app demo_final)) = 7
  /\ option_map (fun p => vresult_code (p_result p)) (props demo_final 1) = Some 1
  /\ votes demo_final 1 = [(0, 1)].
Proof. vm_compute. repeat split; reflexivity. Qed.

(* ================================================================ chk_sound (clause level)
   The spec checker's own decision functions (Model/C08Check.v, written from the property text)
   agree with the model's oracles, and its "passed" clauses accept every finalisation the model
   makes with result Enactment -- this is what connects "the real trace passes the checker" to
   the lifecycle theorems.  Dynamic-voter contents are excluded from the veto part: there the
   model follows the code (veto-capable voters = holders of permission 0) and the checker follows
   the property text (known finding passed_despite_veto:dynamic_voter_proposal). *)
Lemma mem_uniq : forall x l, mem x (uniq l) = mem x l.
Proof.
  intros x l. induction l as [|y r IH]; [reflexivity|]. cbn [uniq].
  assert (Hc : mem x (y :: r) = (x =? y) || mem x r) by reflexivity. rewrite Hc.
  destruct (mem y r) eqn:E.
  - rewrite IH. destruct (Z.eqb_spec x y) as [->|]; [rewrite E; reflexivity|reflexivity].
  - assert (Hc' : mem x (y :: uniq r) = (x =? y) || mem x (uniq r)) by reflexivity. rewrite Hc', IH. reflexivity.
Qed.

Lemma chk_window_matches : forall w ct,
  fst (spec_window w ct) = w_end_secs w ct /\ snd (spec_window w ct) = w_enact_secs w ct.
Proof.
  intros w ct. unfold spec_window, w_end_secs, w_enact_secs, pool_of.
  destruct (vote_perm ct =? 0); [|split; reflexivity].
  destruct ct as [| | | | |name owners q period enact]; try (split; reflexivity).
  destruct name as [|[| |]|]; try (split; reflexivity). destruct (w_pool w); split; reflexivity.
Qed.

Lemma chk_quorum_matches : forall w ct, spec_quorum w ct = w_quorum w ct.
Proof.
  intros w ct. unfold spec_quorum, w_quorum, pool_of. destruct (vote_perm ct =? 0); [|reflexivity].
  destruct ct as [| | | | |name owners q period enact]; try reflexivity.
  destruct name as [|[| |]|]; try reflexivity.
Qed.

Lemma chk_may_vote_matches : forall w who ct,
  may_vote w who ct = w_is_active w who && w_can w who (vote_perm ct) ct.
Proof.
  intros w who ct. unfold may_vote, w_can, pool_allowed, pool_of, dyn_owners. f_equal.
  destruct (vote_perm ct =? 0).
  2: { unfold w_has_perm. destruct (get_actor who (w_actors w)); reflexivity. }
  destruct ct as [| | | | |name owners q period enact]; try reflexivity.
  destruct name as [|[| |]|]; try reflexivity. destruct (w_pool w) as [p|]; [apply mem_uniq|reflexivity].
Qed.

Lemma filter_filter_len : forall {X} (f g : X -> bool) l,
  List.length (filter g (filter f l)) = List.length (filter (fun x => f x && g x) l).
Proof.
  induction l as [|x r IH]; [reflexivity|]. cbn [filter]. destruct (f x); cbn [filter andb]; [|exact IH].
  destruct (g x); cbn [List.length]; rewrite IH; reflexivity.
Qed.

(* the holders according to the checker's ghost rules are what the model's enumeration oracle counts;
   the ELIGIBLE voters (holders that are not blacklisted) can only be fewer *)
Lemma chk_electorate_matches : forall w ct, (vote_perm ct =? 0) = false ->
  holders_count w ct = w_nvoters w ct /\ (forall f, holders_veto w ct = w_nveto f w ct).
Proof.
  intros w ct H. unfold holders_count, holders_ids, holders_veto, w_nvoters, w_nveto, w_voters. rewrite H.
  split; [rewrite map_length; reflexivity|]. intros f. rewrite andb_false_r.
  rewrite filter_filter_len. reflexivity.
Qed.

Lemma filter_and_le : forall {X} (f g : X -> bool) l,
  (List.length (filter (fun x => f x && g x) l) <= List.length (filter f l))%nat.
Proof.
  induction l as [|x r IH]; [cbn; lia|]. cbn [filter]. destruct (f x); cbn [andb]; [|exact IH].
  destruct (g x); cbn [List.length]; lia.
Qed.

Lemma chk_eligible_le_holders : forall w ct, (vote_perm ct =? 0) = false -> eligible w ct <= holders_count w ct.
Proof.
  intros w ct H. unfold eligible, holders_count, holders_ids, g_eligible. rewrite H, map_length.
  pose proof (filter_and_le (fun ka : Z * actor => g_holder (w_roles w) (vote_perm ct) (snd ka))
                            (fun ka => negb (g_blacklisted (w_roles w) (vote_perm ct) (snd ka))) (w_actors w)). lia.
Qed.

(* sorting the votes (what the harness reports and the checker tracks) keeps every count *)
Lemma ins_vote_count : forall (f : Z * Z -> bool) who opt l, ~ In who (map fst l) ->
  List.length (filter f (ins_vote who opt l)) = List.length (filter f ((who, opt) :: l)).
Proof.
  intros f who opt l. induction l as [|[k o] r IH]; intros Hn; [reflexivity|]. cbn [ins_vote].
  destruct (Z.eqb_spec k who) as [->|Hne]; [exfalso; apply Hn; left; reflexivity|].
  destruct (who <? k); [reflexivity|].
  assert (Hr : ~ In who (map fst r)) by (intros E; apply Hn; right; exact E).
  specialize (IH Hr). cbn [filter] in *. destruct (f (k, o)); destruct (f (who, opt)); cbn [List.length] in *; lia.
Qed.

Lemma ins_vote_keys : forall who opt l x, In x (map fst (ins_vote who opt l)) -> x = who \/ In x (map fst l).
Proof.
  intros who opt l x. induction l as [|[k o] r IH]; cbn [ins_vote].
  - cbn. intros [E|[]]. left. symmetry. exact E.
  - destruct (k =? who).
    + cbn [map fst In]. intros [E|E]; [left; symmetry; exact E|right; right; exact E].
    + destruct (who <? k); cbn [map fst In].
      * intros [E|[E|E]]; [left; symmetry; exact E|right; left; exact E|right; right; exact E].
      * intros [E|E]; [right; left; exact E|]. apply IH in E. destruct E as [E|E]; [left; exact E|right; right; exact E].
Qed.

Lemma sort_votes_keys : forall l x, In x (map fst (sort_votes l)) -> In x (map fst l).
Proof.
  induction l as [|[k o] r IH]; intros x H; [exact H|]. unfold sort_votes in *. cbn [fold_right fst snd] in H.
  apply ins_vote_keys in H. cbn [map fst In]. destruct H as [->|H]; [left; reflexivity|right; apply IH; exact H].
Qed.

Lemma sort_votes_count : forall (f : Z * Z -> bool) l, NoDup (map fst l) ->
  List.length (filter f (sort_votes l)) = List.length (filter f l).
Proof.
  intros f l. induction l as [|[k o] r IH]; intros Hd; [reflexivity|].
  inversion Hd as [|? ? Hn Hr]; subst. unfold sort_votes in *. cbn [fold_right fst snd].
  rewrite ins_vote_count.
  - cbn [filter]. destruct (f (k, o)); cbn [List.length]; rewrite (IH Hr); reflexivity.
  - intros E. apply Hn. apply sort_votes_keys. exact E.
Qed.

Lemma filter_true_len : forall {X} (l : list X), List.length (filter (fun _ => true) l) = List.length l.
Proof. induction l as [|x r IH]; [reflexivity|]. cbn. rewrite IH. reflexivity. Qed.

(* the votes of a proposal in the model never contain a voter twice *)
Lemma set_vote_nodup : forall who opt vs, NoDup (map fst vs) -> NoDup (map fst (set_vote who opt vs)).
Proof.
  intros who opt vs H. unfold set_vote. cbn [map fst]. constructor.
  - intros E. apply in_map_iff in E. destruct E as [[k o] [Ek Ein]]. apply filter_In in Ein. cbn [fst] in *.
    subst k. destruct Ein as [_ Ein]. rewrite Z.eqb_refl in Ein. discriminate.
  - apply NoDup_map_filter. exact H.
Qed.

Lemma rename_vote_nodup : forall old new vs, NoDup (map fst vs) -> NoDup (map fst (rename_vote old new vs)).
Proof.
  intros old new vs H. unfold rename_vote. destruct (get_vote old vs); [|exact H].
  apply set_vote_nodup. apply NoDup_map_filter. exact H.
Qed.

(* a rotation moves the person's vote: afterwards the new address carries it and the old one nothing *)
Lemma rename_vote_moves : forall old new vs o, old <> new -> get_vote old vs = Some o ->
  get_vote new (rename_vote old new vs) = Some o /\ get_vote old (rename_vote old new vs) = None.
Proof.
  intros old new vs o Hne H. unfold rename_vote. rewrite H. split; [apply get_vote_set_same|].
  rewrite get_vote_set_other by assumption. unfold get_vote.
  assert (E : find (fun v : Z * Z => fst v =? old) (filter (fun v => negb (fst v =? old)) vs) = None).
  { clear. induction vs as [|[k x] r IH]; [reflexivity|]. cbn [filter fst].
    destruct (Z.eqb_spec k old) as [->|Hk]; cbn [negb]; [exact IH|]. cbn [find fst].
    destruct (Z.eqb_spec k old); [contradiction|exact IH]. }
  rewrite E. reflexivity.
Qed.

Lemma votes_of_nodup : forall A content id (l : list (event A content)), NoDup (map fst (votes_of A content id l)).
Proof.
  intros A content id l. induction l as [|e r IH]; [constructor|].
  destruct e; cbn [votes_of]; try exact IH.
  - destruct (id0 =? id); [apply set_vote_nodup; exact IH|exact IH].
  - apply rename_vote_nodup. exact IH.
Qed.

(* every finalisation with result Enactment made by the model satisfies the checker's "passed"
   clauses, evaluated -- as the checker does -- on the sorted votes and the world at the tally *)
Lemma chk_passed_sound : forall w id ct vend eend minv res fin nap vs,
  (vote_perm ct =? 0) = false -> NoDup (map fst vs) ->
  let tl := tally_of vs (w_nveto (f_dyn_veto tree_flags) w ct) in
  is_quorum (w_quorum w ct) (t_total tl) (w_nvoters w ct) = Ok true ->
  final_result world ccontent cext (c_params tree_flags decide_q) true tl = Enactment ->
  0 <= w_quorum w ct ->
  veto_capable w ct = holders_veto w ct ->      (* no veto-capable holder is blacklisted *)
  pass_clauses w (mkR id ct vend eend minv res fin nap (sort_votes vs)) = [].
Proof.
  intros w id ct vend eend minv res fin nap vs Hd Hnd tl Hq Hres Hq0 Hnb.
  apply (final_result_enactment world ccontent cext (c_params tree_flags decide_q)) in Hres;
    [|intros t; apply decide_q_range].
  destruct Hres as [_ Hpass]. cbn [decide c_params] in Hpass.
  apply decide_q_passed_iff in Hpass; [|apply tally_of_wf]. destruct Hpass as [Hmaj Hveto].
  apply is_quorum_exact in Hq. destruct Hq as [_ [_ Hq]]. symmetry in Hq. apply Z.leb_le in Hq.
  destruct (chk_electorate_matches w ct Hd) as [He Hv].
  pose proof (chk_eligible_le_holders w ct Hd) as Hle.
  assert (Hel0 : 0 <= eligible w ct) by (unfold eligible; rewrite Hd; lia).
  unfold pass_clauses. cbn [r_ct r_votes]. rewrite Hd, chk_quorum_matches, Hnb, (Hv (f_dyn_veto tree_flags)).
  assert (Hlen : Z.of_nat (List.length (sort_votes vs)) = t_total tl).
  { rewrite <- (filter_true_len (sort_votes vs)), sort_votes_count, filter_true_len by assumption. reflexivity. }
  assert (Hyes : nopt 1 (sort_votes vs) = t_yes tl) by (unfold nopt; rewrite sort_votes_count by assumption; reflexivity).
  assert (Hvt : nopt 4 (sort_votes vs) = t_veto tl) by (unfold nopt; rewrite sort_votes_count by assumption; reflexivity).
  rewrite Hlen, Hyes, Hvt. cbn [t_vcap tl tally_of] in Hveto.
  replace (w_quorum w ct * eligible w ct <=? t_total tl * PREC) with true by (symmetry; apply Z.leb_le; nia).
  replace (t_total tl <? 2 * t_yes tl) with true by (symmetry; apply Z.ltb_lt; lia).
  replace ((w_nveto (f_dyn_veto tree_flags) w ct =? 0) || (2 * t_veto tl <? w_nveto (f_dyn_veto tree_flags) w ct)) with true; [reflexivity|].
  symmetry. apply orb_true_iff. destruct Hveto as [E|E]; [left; apply Z.eqb_eq; exact E|right; apply Z.ltb_lt; exact E].
Qed.

(* ---- the same at the level of histories of the instantiated model: the clauses the checker
   evaluates at a finalisation, at an application and at an accepted vote hold in every run *)
Definition cP : params world ccontent cext := c_params tree_flags decide_q.

Lemma chk_sound_finalisation : forall w0 ops id tl nv q mine cf af l1 l2 p,
  log (run world ccontent cext cP ops (init w0)) = l1 ++ EvFinal id Enactment tl nv q mine cf af :: l2 ->
  submit_of world ccontent id l2 = Some p -> (vote_perm (p_content p) =? 0) = false ->
  0 <= n_quorum (w_np af) -> veto_capable af (p_content p) = holders_veto af (p_content p) ->
  (p_vend p <=? now cf) && (p_minv p <=? height cf) = true                               (* clause early_final *)
  /\ pass_clauses af (mkR id (p_content p) (p_vend p) (p_eend p) (p_minv p) 4 None 0
                          (sort_votes (votes_of world ccontent id l2))) = [].            (* clauses passed_* *)
Proof.
  intros w0 ops id tl nv q mine cf af l1 l2 p Hlog Hs Hd Hq0 Hnb.
  pose proof (inv_log _ _ _ _ _ (history_ok world ccontent cext cP ops w0)) as Hok. rewrite Hlog in Hok.
  destruct (log_ok_at _ _ _ _ _ _ _ Hok) as [He _]. cbn [ev_ok] in He.
  destruct He as [p' [Hs' [_ [_ [Hv [Hm [Htl [Hnv [Hq [[qb [Hqb Hres]] _]]]]]]]]]].
  rewrite Hs in Hs'. inversion Hs'; subst p'. split; [apply andb_true_iff; split; apply Z.leb_le; assumption|].
  assert (Hqb' : qb = true) by (unfold final_result in Hres; destruct qb; [reflexivity|discriminate]).
  subst qb. apply quorum_checked_true in Hqb. subst nv q. subst tl. apply chk_passed_sound; auto.
  - apply votes_of_nodup.
  - unfold w_quorum. rewrite Hd. exact Hq0.
Qed.

Lemma chk_sound_application : forall w0 ops id ok c a1 a2 l1 l2,
  log (run world ccontent cext cP ops (init w0)) = l1 ++ EvApply id ok c a1 a2 :: l2 ->
  exists p res tl nv q cf af,
    submit_of world ccontent id l2 = Some p
    /\ final_of world ccontent id l2 = Some (res, tl, nv, q, height cf + n_enactblocks (w_np af), cf, af)
    /\ (p_eend p <=? now c) = true                                         (* clause applied_before_enactment_time *)
    /\ (height cf + n_enactblocks (w_np af) <=? height c) = true           (* clause applied_before_enactment_height *)
    /\ n_applied world ccontent id l2 = O                                  (* clause applied_twice *)
    /\ (ok = true -> a2 = spec_effect (p_content p) a1)                    (* clause atomic: complete effect ... *)
    /\ (ok = false -> a2 = a1).                                            (* ... or none *)
Proof.
  intros w0 ops id ok c a1 a2 l1 l2 Hlog.
  destruct (applied_not_before_enactment world ccontent cext cP ops w0 id ok c a1 a2 l1 l2 Hlog)
    as [p [res [tl [nv [q [cf [af [Hs [Hf [He Hh]]]]]]]]]].
  pose proof (inv_log _ _ _ _ _ (history_ok world ccontent cext cP ops w0)) as Hok. rewrite Hlog in Hok.
  destruct (log_ok_at _ _ _ _ _ _ _ Hok) as [Hev _]. cbn [ev_ok] in Hev.
  destruct Hev as [p' [Hs' [Hna [_ [_ Hh']]]]]. rewrite Hs in Hs'. inversion Hs'; subst p'.
  exists p, res, tl, nv, q, cf, af. cbn [min_enact_blocks cP c_params] in *.
  repeat split; auto; try (apply Z.leb_le; assumption).
  - intros ->. cbn [handler cP c_params] in Hh'. apply handler_success_is_full_effect_now. exact Hh'.
  - intros ->. destruct Hh' as [E _]. exact E.
Qed.

Lemma chk_sound_vote : forall w0 ops id who opt c a1 l1 l2,
  log (run world ccontent cext cP ops (init w0)) = l1 ++ EvVote id who opt c a1 :: l2 ->
  exists p, submit_of world ccontent id l2 = Some p
    /\ (now c <=? p_vend p) = true                                          (* clause late_vote_accepted *)
    /\ may_vote a1 who (p_content p) = true.                                (* clause vote_without_permission *)
Proof.
  intros w0 ops id who opt c a1 l1 l2 Hlog.
  destruct (counted_votes_were_admissible world ccontent cext cP ops w0 id who opt c a1 l1 l2 Hlog) as [p [Hs [Hv [Ha Hp]]]].
  exists p. split; [exact Hs|]. split; [apply Z.leb_le; exact Hv|].
  rewrite chk_may_vote_matches. cbn [is_active has_vote_perm cP c_params] in Ha, Hp. rewrite Ha, Hp. reflexivity.
Qed.

(* ================================================================ who writes the lifecycle store
   Every call site, in non-test code under x/ and app/, of a gov keeper method that writes or deletes
   proposals, votes, queue entries or the proposal counter (regenerated on every run:
   Gen/GovHandlers.v [lifecycle_writers]) is pinned here together with the model operation that
   covers it.  A new writer breaks this obligation until it is added to the model alphabet.
     x/gov/keeper msg_server + proposal.go  -> submit / vote            (harness: real msg server)
     x/gov/abci.go                          -> end_block                (harness: real EndBlocker)
     x/recovery RotateRecoveryAddress       -> ORotate (votes move with the person; harness: real msg server)
     x/recovery RotateValidatorByHalfRRTokenHolder -> ORotate (same vote-moving loop; not exercised: needs RR tokens)
     x/recovery ... SaveProposal, x/slashing RefuteSlashingProposal -> rewrite only the CONTENT of slash-validator
                                               proposals (offender address / refutation text): outside the model
     x/slashing Jail                        -> creates a slash proposal without proposer / dry run: outside the model
     x/gov/genesis.go InitGenesis           -> chain start only (property C12) *)
Definition pinned_writers : list string := [
  "x/gov/abci.go:processEnactmentProposal:RemoveEnactmentProposal";
  "x/gov/abci.go:processEnactmentProposal:SaveProposal";
  "x/gov/abci.go:processProposal:AddToEnactmentProposals";
  "x/gov/abci.go:processProposal:RemoveActiveProposal";
  "x/gov/abci.go:processProposal:SaveProposal";
  "x/gov/genesis.go:InitGenesis:AddToActiveProposals";
  "x/gov/genesis.go:InitGenesis:AddToEnactmentProposals";
  "x/gov/genesis.go:InitGenesis:SaveProposal";
  "x/gov/genesis.go:InitGenesis:SaveVote";
  "x/gov/genesis.go:InitGenesis:SetNextProposalID";
  "x/gov/keeper/msg_server.go:SubmitProposal:CreateAndSaveProposalWithContent";
  "x/gov/keeper/msg_server.go:VoteProposal:SaveVote";
  "x/gov/keeper/proposal.go:CreateAndSaveProposalWithContent:AddToActiveProposals";
  "x/gov/keeper/proposal.go:CreateAndSaveProposalWithContent:GetNextProposalIDAndIncrement";
  "x/gov/keeper/proposal.go:CreateAndSaveProposalWithContent:SaveProposal";
  "x/gov/keeper/proposal.go:GetNextProposalIDAndIncrement:SetNextProposalID";
  "x/recovery/keeper/msg_server.go:RotateRecoveryAddress:DeleteVote";
  "x/recovery/keeper/msg_server.go:RotateRecoveryAddress:SaveProposal";
  "x/recovery/keeper/msg_server.go:RotateRecoveryAddress:SaveVote";
  "x/recovery/keeper/msg_server.go:RotateValidatorByHalfRRTokenHolder:DeleteVote";
  "x/recovery/keeper/msg_server.go:RotateValidatorByHalfRRTokenHolder:SaveProposal";
  "x/recovery/keeper/msg_server.go:RotateValidatorByHalfRRTokenHolder:SaveVote";
  "x/slashing/keeper/jail.go:Jail:CreateAndSaveProposalWithContent";
  "x/slashing/keeper/msg_server.go:RefuteSlashingProposal:SaveProposal"
]%string.

Lemma lifecycle_writers_pinned : lifecycle_writers = pinned_writers.
Proof. reflexivity. Qed.

(* ================================================================ error handling of EVERY registered handler
   The Apply method of each handler in app.go's proposal router (all modules), read on every run
   (Gen/GovHandlers.v [handler_error_shapes]): an entry in a handler's list means that Apply can
   report success after a failed step, which the router would commit as a partial application.
   Pinned for the tree as it is: every handler is clean (1787bf6 repaired the durations handler, ef42471
   the collective-remove handler); the one entry is a false alarm of the name-based detection
   (keeper.SetExecutionFee returns nothing; a msg-server method of the same name returns an error).
   The shapes of callees (keeper functions) are not followed. *)
Definition pinned_handler_shapes : list (string * list string) := [
  ("x/gov.ApplyWhitelistAccountPermissionProposalHandler", []);
  ("x/gov.ApplyBlacklistAccountPermissionProposalHandler", []);
  ("x/gov.ApplyRemoveWhitelistedAccountPermissionProposalHandler", []);
  ("x/gov.ApplyRemoveBlacklistedAccountPermissionProposalHandler", []);
  ("x/gov.ApplyAssignRoleToAccountProposalHandler", []);
  ("x/gov.ApplyUnassignRoleFromAccountProposalHandler", []);
  ("x/gov.ApplySetNetworkPropertyProposalHandler", []);
  ("x/gov.ApplyUpsertDataRegistryProposalHandler", []);
  ("x/gov.ApplySetPoorNetworkMessagesProposalHandler", []);
  ("x/gov.ApplyResetWholeCouncilorRankProposalHandler", []);
  ("x/gov.ApplyJailCouncilorProposalHandler", []);
  ("x/gov.ApplySetExecutionFeesHandler", ["unchecked: a.keeper.SetExecutionFee"]);
  ("x/tokens.ApplyUpsertTokenInfosProposalHandler", []);
  ("x/tokens.ApplyWhiteBlackChangeProposalHandler", []);
  ("x/staking.ApplyUnjailValidatorProposalHandler", []);
  ("x/slashing.ApplyResetWholeValidatorRankProposalHandler", []);
  ("x/slashing.ApplySlashValidatorProposalHandler", []);
  ("x/gov.CreateRoleProposalHandler", []);
  ("x/gov.ApplyRemoveRoleProposalHandler", []);
  ("x/gov.ApplyWhitelistRolePermissionProposalHandler", []);
  ("x/gov.ApplyBlacklistRolePermissionProposalHandler", []);
  ("x/gov.ApplyRemoveWhitelistedRolePermissionProposalHandler", []);
  ("x/gov.ApplyRemoveBlacklistedRolePermissionProposalHandler", []);
  ("x/gov.SetProposalDurationsProposalHandler", []);
  ("x/upgrade.ApplySoftwareUpgradeProposalHandler", []);
  ("x/upgrade.ApplyCancelSoftwareUpgradeProposalHandler", []);
  ("x/spending.ApplyUpdateSpendingPoolProposalHandler", []);
  ("x/spending.ApplySpendingPoolDistributionProposalHandler", []);
  ("x/spending.ApplySpendingPoolWithdrawProposalHandler", []);
  ("x/ubi.ApplyUpsertUBIProposalHandler", []);
  ("x/ubi.ApplyRemoveUBIProposalHandler", []);
  ("x/basket.ApplyCreateBasketProposalHandler", []);
  ("x/basket.ApplyEditBasketProposalHandler", []);
  ("x/basket.ApplyBasketWithdrawSurplusProposalHandler", []);
  ("x/collectives.ApplyCollectiveSendDonationProposalHandler", []);
  ("x/collectives.ApplyCollectiveUpdateProposalHandler", []);
  ("x/collectives.ApplyCollectiveRemoveProposalHandler", []);
  ("x/layer2.ApplyJoinDappProposalHandler", []);
  ("x/layer2.ApplyUpsertDappProposalHandler", [])
]%string.

Lemma handler_error_shapes_pinned : handler_error_shapes = pinned_handler_shapes.
Proof. reflexivity. Qed.

(* ================================================================ where dynamic-voter handlers take their parameters from
   Each method returns the like-named field of the owning object (Quorum -> VoteQuorum, VotePeriod -> VotePeriod,
   VoteEnactment -> VoteEnactment); regenerated on every run, a swap breaks this pin. *)
Definition pinned_dynamic_param_sources : list (string * list string) := [
  ("x/spending.ApplyUpdateSpendingPoolProposalHandler", ["Quorum returns pool.VoteQuorum"; "VotePeriod returns pool.VotePeriod"; "VoteEnactment returns pool.VoteEnactment"]);
  ("x/spending.ApplySpendingPoolDistributionProposalHandler", ["Quorum returns pool.VoteQuorum"; "VotePeriod returns pool.VotePeriod"; "VoteEnactment returns pool.VoteEnactment"]);
  ("x/spending.ApplySpendingPoolWithdrawProposalHandler", ["Quorum returns pool.VoteQuorum"; "VotePeriod returns pool.VotePeriod"; "VoteEnactment returns pool.VoteEnactment"]);
  ("x/collectives.ApplyCollectiveSendDonationProposalHandler", ["Quorum returns collective.VoteQuorum"; "VotePeriod returns collective.VotePeriod"; "VoteEnactment returns collective.VoteEnactment"]);
  ("x/collectives.ApplyCollectiveUpdateProposalHandler", ["Quorum returns collective.VoteQuorum"; "VotePeriod returns collective.VotePeriod"; "VoteEnactment returns collective.VoteEnactment"]);
  ("x/collectives.ApplyCollectiveRemoveProposalHandler", ["Quorum returns collective.VoteQuorum"; "VotePeriod returns collective.VotePeriod"; "VoteEnactment returns collective.VoteEnactment"]);
  ("x/layer2.ApplyJoinDappProposalHandler", ["Quorum returns dapp.VoteQuorum"; "VotePeriod returns dapp.VotePeriod"; "VoteEnactment returns dapp.VoteEnactment"]);
  ("x/layer2.ApplyUpsertDappProposalHandler", ["Quorum returns dapp.VoteQuorum"; "VotePeriod returns dapp.VotePeriod"; "VoteEnactment returns dapp.VoteEnactment"])
]%string.

Lemma dynamic_param_sources_pinned : dynamic_param_sources = pinned_dynamic_param_sources.
Proof. reflexivity. Qed.
