(* C10 -- lemmas about Model/Pools.v *)
From Sekai Require Import Base.Prelude Base.Dec Model.Pools.
From Coq Require Import ZifyBool.

Ltac ssimpl :=
  unfold set_pool, set_ssup, set_modb, set_fee, set_treas, set_nbal, set_sbal, set_rew, set_undels, set_dels,
         set_comp, set_votes, set_clock in *;
  cbn [time height slashed stake shares ssup modb fee treas nbal sbal rew undels last dels comp votes prev tsup] in *.

(* ---------------------------------------------------------------- coin maps, pointwise *)
Lemma cadds_val : forall cs m d, cadds m cs d = m d + csum cs d.
Proof.
  unfold cadds. induction cs as [|c r IH]; intros m d; simpl.
  - lia.
  - rewrite IH. unfold cadd. destruct (d =? fst c); lia.
Qed.
Lemma csubs_val : forall cs m d, csubs m cs d = m d - csum cs d.
Proof.
  unfold csubs. induction cs as [|c r IH]; intros m d; simpl.
  - lia.
  - rewrite IH. unfold cadd. destruct (d =? fst c); lia.
Qed.
Lemma aadds_val : forall m a cs b d, aadds m a cs b d = m b d + (if b =? a then csum cs d else 0).
Proof. intros. unfold aadds, aset. destruct (b =? a) eqn:E; [rewrite cadds_val; assert (b = a) by lia; subst; lia | lia]. Qed.
Lemma asubs_val : forall m a cs b d, asubs m a cs b d = m b d - (if b =? a then csum cs d else 0).
Proof. intros. unfold asubs, aset. destruct (b =? a) eqn:E; [rewrite csubs_val; assert (b = a) by lia; subst; lia | lia]. Qed.

Lemma PREC_pos : 0 < PREC. Proof. unfold PREC. lia. Qed.

(* rounding an exact multiple *)
Lemma chop_round_mult : forall y, chop_round (y * PREC) = y.
Proof.
  intro y. pose proof PREC_pos as HP. unfold chop_round.
  destruct (y * PREC <? 0) eqn:E.
  - unfold chop_round_pos. replace (- (y * PREC)) with ((- y) * PREC) by ring.
    rewrite Z.div_mul by lia. rewrite Z.mod_mul by lia. simpl. lia.
  - unfold chop_round_pos. rewrite Z.div_mul by lia. rewrite Z.mod_mul by lia. simpl. lia.
Qed.
Lemma pool_coin_unslashed : forall x, pool_coin x 0 = x.
Proof.
  intro x. unfold pool_coin, round_int, dec_of_int. rewrite Z.sub_0_r.
  replace (x * PREC * PREC) with ((x * PREC) * PREC) by ring.
  rewrite chop_round_mult. apply chop_round_mult.
Qed.
Lemma csum_pool_coins_unslashed : forall amts d, csum (pool_coins 0 amts) d = csum amts d.
Proof.
  induction amts as [|c r IH]; intro d; simpl; [reflexivity|]. rewrite IH, pool_coin_unslashed. reflexivity.
Qed.

(* ---------------------------------------------------------------- destructing outcomes *)
Lemma bind_ok : forall {A B} (o : outcome A) (f : A -> outcome B) b,
  bind o f = Ok b -> exists a, o = Ok a /\ f a = Ok b.
Proof. intros A B o f b H. destruct o; simpl in H; try discriminate. eauto. Qed.

(* ================================================================ 1. share supply = pool book *)
Definition inv_supply (s : st) : Prop := forall d, ssup s d = shares s d.

Lemma delegate_fields : forall c who amts s s', delegate c who amts s = Ok s' ->
  let pc := pool_coins (slashed s) amts in
  slashed s <= 0 /\
  s' = mkSt (time s) (height s) (slashed s) (cadds (stake s) amts) (cadds (shares s) pc) (cadds (ssup s) pc)
            (cadds (modb s) amts) (fee s) (treas s) (asubs (nbal s) who amts) (aadds (sbal s) who pc) (rew s)
            (undels s) (last s) (zinsert who (dels s)) (comp s) (votes s) (prev s) (cadds (tsup s) (pool_coins (slashed s) amts)).
Proof.
  intros c who amts s s' H. unfold delegate in H.
  destruct (0 <? slashed s) eqn:E1; [discriminate|].
  destruct (coins_valid amts); cbn [negb] in H; [|discriminate].
  destruct (all_gte (nbal s who) amts); cbn [negb] in H; [|discriminate].
  destruct (check_tok c amts); cbn [bind] in H; try discriminate.
  destruct (existsb _ _); [discriminate|]. inversion H; subst; clear H. split; [lia|reflexivity].
Qed.

Lemma undelegate_fields : forall v c who amts s s', undelegate v c who amts s = Ok s' ->
  exists pc, redeem_coins v s amts = Ok pc /\
    (forall d, In d (c_dens c) -> csum pc d <= sbal s who d) /\ (forall d, In d (c_dens c) -> csum amts d <= stake s d) /\
  s' = mkSt (time s) (height s) (slashed s) (csubs (stake s) amts) (csubs (shares s) pc) (csubs (ssup s) pc)
            (modb s) (fee s) (treas s) (nbal s) (asubs (sbal s) who pc) (rew s)
            (undels s ++ [mkUndel (last s + 1) who (time s + c_unstake c) amts]) (last s + 1)
            (if v_prefix_ok v && existsb (fun d => 0 <? asubs (sbal s) who pc who d) (c_dens c)
             then dels s else zremove who (dels s)) (comp s) (votes s) (prev s)
            (if v_burn_registry v then csubs (tsup s) pc else tsup s).
Proof.
  intros v c who amts s s' H. unfold undelegate in H. apply bind_ok in H. destruct H as (pc & R & H).
  exists pc. split; [exact R|].
  destruct (existsb (fun c0 => snd c0 <? 0) pc); [discriminate|].
  destruct (existsb (fun d => sbal s who d <? csum pc d) (c_dens c)) eqn:E1; [discriminate|].
  destruct (all_gte (stake s) amts) eqn:E2; cbn [negb] in H; [|discriminate].
  destruct (has_dup amts); [discriminate|].
  destruct (existsb (fun d => (stake s d <? csum amts d) || (shares s d <? csum pc d)) (c_dens c)) eqn:E3; [discriminate|].
  inversion H; subst; clear H.
  split; [|split; [|reflexivity]].
  - intros d D. destruct (csum pc d <=? sbal s who d) eqn:G; [lia|]. exfalso.
    assert (X : existsb (fun d => sbal s who d <? csum pc d) (c_dens c) = true) by (apply existsb_exists; exists d; split; [exact D|lia]).
    congruence.
  - intros d D. destruct (csum amts d <=? stake s d) eqn:G; [lia|]. exfalso.
    assert (X : existsb (fun d => (stake s d <? csum amts d) || (shares s d <? csum pc d)) (c_dens c) = true)
      by (apply existsb_exists; exists d; split; [exact D|lia]).
    congruence.
Qed.

Lemma delegate_inv_supply : forall c who amts s s', delegate c who amts s = Ok s' -> inv_supply s -> inv_supply s'.
Proof.
  intros c who amts s s' H I. apply delegate_fields in H. destruct H as [_ ->]. intro d. ssimpl.
  rewrite !cadds_val, I. reflexivity.
Qed.
Lemma undelegate_inv_supply : forall v c who amts s s', undelegate v c who amts s = Ok s' -> inv_supply s -> inv_supply s'.
Proof.
  intros v c who amts s s' H I. apply undelegate_fields in H. destruct H as (pc & _ & _ & _ & ->). intro d. ssimpl.
  rewrite !csubs_val, I. reflexivity.
Qed.


(* ================================================================ generic invariant lifting
   A predicate that (1) only depends on the pool record, the share supply, the undelegation records, the
   vote store and the clock, (2) is preserved by Delegate, Undelegate, SlashStakingPool and by paying out one
   undelegation, is preserved by every step -- including the reward allocation with its auto-compounding
   Delegate calls inside the begin blocker. *)
Definition frame (s s' : st) : Prop :=
  slashed s' = slashed s /\ stake s' = stake s /\ shares s' = shares s /\ ssup s' = ssup s /\
  undels s' = undels s /\ last s' = last s /\ votes s' = votes s /\ prev s' = prev s /\
  time s' = time s /\ height s' = height s /\ tsup s' = tsup s.
Lemma frame_refl : forall s, frame s s. Proof. intro s. repeat split. Qed.
Ltac framed := unfold frame; ssimpl; repeat split; reflexivity.

Definition is_tx (o : op) : bool :=
  match o with OBegin _ _ _ _ _ | OEnd | OSetVotes _ | OAdvance _ | OGenesis => false | _ => true end.
Definition is_genesis (o : op) : bool := match o with OGenesis => true | _ => false end.

Section Lift.
Variable v : variant.
Variable P : st -> Prop.
Hypothesis P_frame : forall s s', frame s s' -> P s -> P s'.
Hypothesis P_delegate : forall c who amts s s', delegate c who amts s = Ok s' -> P s -> P s'.
Hypothesis P_undelegate : forall c who amts s s', undelegate v c who amts s = Ok s' -> P s -> P s'.
Hypothesis P_slash : forall c sl s s', slash v c sl s = Ok s' -> P s -> P s'.
Hypothesis P_pay : forall s who u, P s -> P (pay_undel s who u).

Lemma claim_matured_loop_P : forall who l s s', claim_matured_loop who l s = Ok s' -> P s -> P s'.
Proof.
  induction l as [|u r IH]; intros s s' H I; simpl in H.
  - inversion H; subst; assumption.
  - destruct (negb (u_owner u =? who) || (time s <? u_expiry u)); [eauto|].
    destruct (coins_valid (u_amt u)); cbn [negb] in H; [|discriminate].
    destruct (all_gte (modb s) (u_amt u)); cbn [negb] in H; [|discriminate].
    eapply IH; [exact H|]. apply P_pay. exact I.
Qed.

Lemma autocompound_one_P : forall c a s s', autocompound_one c a s = Ok s' -> P s -> P s'.
Proof.
  intros c a s s' H I. unfold autocompound_one in H.
  destruct (comp s a) as [[all cds] lastx].
  destruct (height s <? lastx + c_autoint c); [inversion H; subst; assumption|].
  apply bind_ok in H. destruct H as (auto & _ & H).
  destruct auto as [|x auto'].
  - inversion H; subst. destruct all; (eapply P_frame; [|exact I]; framed).
  - cbv zeta in H.
    destruct (all_gte _ (x :: auto')); cbn [negb] in H; [|discriminate].
    destruct (delegate c a (x :: auto') _) eqn:D; try discriminate.
    inversion H; subst s'. apply P_delegate in D.
    + eapply P_frame; [|exact D]. framed.
    + destruct all; (eapply P_frame; [|exact I]; framed).
Qed.
Lemma autocompound_P : forall c l s s', autocompound v c l s = Ok s' -> P s -> P s'.
Proof.
  induction l as [|a r IH]; intros s s' H I; simpl in H.
  - inversion H; subst; assumption.
  - destruct (autocompound_one c a s) as [s1|e|e] eqn:H1.
    + eapply IH; [exact H|]. eapply autocompound_one_P; eauto.
    + destruct (v_compound_safe v); [eapply IH; eauto|discriminate].
    + discriminate.
Qed.
Lemma increase_pool_rewards_P : forall c rw s s', increase_pool_rewards v c rw s = Ok s' -> P s -> P s'.
Proof.
  intros c rw s s' H I. unfold increase_pool_rewards in H. eapply autocompound_P; [exact H|].
  eapply P_frame; [|exact I]. framed.
Qed.
Lemma pay_validator_frame : forall c w vr s s', pay_validator c w vr s = Ok s' -> frame s s'.
Proof.
  intros c w vr s s' H. unfold pay_validator in H. destruct (cmap_is_zero _ _); [inversion H; apply frame_refl|].
  destruct (existsb _ _); [discriminate|]. inversion H; subst. framed.
Qed.
Lemma allocate_P : forall c infl s s', allocate v c infl s = Ok s' -> P s -> P s'.
Proof.
  intros c infl s s' H I. unfold allocate in H. destruct (c_snap c =? 0); [discriminate|].
  apply bind_ok in H. destruct H as (s2 & H2 & H). inversion H; subst s'; clear H.
  assert (I1 : P (set_fee s (cadd (fee s) 0 infl))) by (eapply P_frame; [|exact I]; framed).
  assert (I2 : P s2).
  { destruct (is_validator (prev s)).
    - destruct (has_pool (prev s)).
      + destruct (_ || _); [discriminate|]. apply bind_ok in H2. destruct H2 as (s1 & H1 & H2).
        apply pay_validator_frame in H2. eapply P_frame; [exact H2|].
        destruct (cmap_is_zero _ _).
        * inversion H1; subst. exact I1.
        * eapply increase_pool_rewards_P; [exact H1|exact I1].
      + apply pay_validator_frame in H2. eapply P_frame; [exact H2|exact I1].
    - inversion H2; subst. exact I1. }
  eapply P_frame; [|exact I2]. framed.
Qed.

Theorem step_tx_P : forall c o s s', is_tx o = true -> step v c o s = Ok s' -> P s -> P s'.
Proof.
  intros c o s s' T H I. destruct o; simpl in H; try discriminate T.
  - eapply P_delegate; eauto.
  - eapply P_undelegate; eauto.
  - unfold claim in H. destruct (find_undel id (undels s)); [|discriminate].
    repeat match type of H with (if ?b then _ else _) = _ => destruct b; try discriminate end.
    inversion H; subst. apply P_pay. exact I.
  - eapply claim_matured_loop_P; eauto.
  - eapply P_slash; eauto.
  - destruct (v_slash_byref v); [eapply P_slash; eauto|]. destruct (slash v c sl s); discriminate.
  - unfold send_shares in H. destruct (all_gte _ _); cbn [negb] in H; [|discriminate]. inversion H; subst.
    eapply P_frame; [|exact I]. framed.
  - unfold claim_rewards in H. destruct (existsb _ _); [discriminate|]. inversion H; subst.
    eapply P_frame; [|exact I]. framed.
  - unfold register in H. destruct (zmem who (dels s)); [inversion H; subst; exact I|].
    apply bind_ok in H. destruct H as (b & _ & H). inversion H; subst. destruct b; [|exact I].
    eapply P_frame; [|exact I]. framed.
  - inversion H; subst. eapply P_frame; [|exact I]. framed.
  - inversion H; subst. eapply P_frame; [|exact I]. framed.
  - destruct possible; [eapply allocate_P; eauto | inversion H; subst; exact I].
  - unfold rotate in H. destruct (_ <? recovery_fee); [discriminate|]. inversion H; subst.
    eapply P_frame; [|exact I]. framed.
  - unfold rotate_validator in H. destruct (_ <? recovery_fee); [discriminate|]. inversion H; subst.
    eapply P_frame; [|exact I]. framed.
  - inversion H; subst. exact I.
Qed.

(* predicates that do not look at the clock or the vote store survive the block steps as well *)
Hypothesis P_clock : forall s t h, P s -> P (set_clock s t h).
Hypothesis P_votes : forall s vs p, P s -> P (set_votes s vs p).

Lemma step_P_nogen : forall c o s s', is_genesis o = false -> step v c o s = Ok s' -> P s -> P s'.
Proof.
  intros c o s s' G H I. destruct (is_tx o) eqn:T; [eapply step_tx_P; eauto|].
  destruct o; try discriminate T; try discriminate G; simpl in H.
  - inversion H; subst. apply P_clock. exact I.
  - inversion H; subst. apply P_votes. exact I.
  - unfold begin_block in H. apply bind_ok in H. destruct H as (s1 & H1 & H). inversion H; subst; clear H.
    apply P_votes. destruct (_ && possible).
    + eapply allocate_P; [exact H1|]. apply P_clock. exact I.
    + inversion H1; subst. apply P_clock. exact I.
  - inversion H; subst. apply P_votes. exact I.
Qed.
(* histories without a genesis round trip *)
Theorem run_P_nogen : forall c ops s, (forall o, In o ops -> is_genesis o = false) -> P s -> P (run v c ops s).
Proof.
  intros c ops. unfold run. induction ops as [|o r IH]; intros s G I; simpl; [exact I|].
  apply IH; [intros; apply G; right; assumption|].
  unfold step_total. destruct (step v c o s) eqn:E; auto. eapply step_P_nogen; [apply G; left; reflexivity|exact E|exact I].
Qed.

(* predicates that survive the genesis round trip (it forgets the delegator lists and the compound infos and
   restores the id counter as the highest pending id) *)
Hypothesis P_genesis : forall s s', genesis_roundtrip s = Ok s' -> P s -> P s'.

Theorem step_P : forall c o s s', step v c o s = Ok s' -> P s -> P s'.
Proof.
  intros c o s s' H I. destruct (is_genesis o) eqn:G; [|eapply step_P_nogen; eauto].
  destruct o; try discriminate G. simpl in H. eapply P_genesis; eauto.
Qed.
Lemma step_total_P : forall c s o, P s -> P (step_total v c s o).
Proof. intros c s o I. unfold step_total. destruct (step v c o s) eqn:E; auto. eapply step_P; eauto. Qed.
Theorem run_P : forall c ops s, P s -> P (run v c ops s).
Proof.
  intros c ops. unfold run. induction ops as [|o r IH]; intros s I; simpl; [exact I|].
  apply IH. apply step_total_P. exact I.
Qed.
End Lift.

Ltac slash_inv H :=
  unfold slash in H;
  repeat match type of H with (if ?b then _ else _) = _ => destruct b; [discriminate|] end;
  inversion H; subst; clear H.

(* ================================================================ 1. share supply = pool book *)
Theorem share_supply_eq_book : forall v c ops s, inv_supply s -> inv_supply (run v c ops s).
Proof.
  intros v c ops s. apply run_P.
  - intros s0 s1 (_ & _ & A & B & _) I d. rewrite A, B. apply I.
  - intros; eapply delegate_inv_supply; eauto.
  - intros; eapply undelegate_inv_supply; eauto.
  - intros c0 sl s0 s1 H I. slash_inv H. intro d. ssimpl. apply I.
  - intros s0 who u I d. unfold pay_undel. ssimpl. apply I.
  - intros s0 t h I d. ssimpl. apply I.
  - intros s0 vs p I d. ssimpl. apply I.
  - intros s0 s1 H I d. unfold genesis_roundtrip in H; inversion H; subst; clear H. ssimpl. apply I.
Qed.

(* the token registry's record follows too -- when Undelegate burns through the tokens keeper *)
Definition inv_registry (s : st) : Prop := forall d, tsup s d = shares s d.
Theorem registry_supply_eq_book : forall v c ops s, v_burn_registry v = true -> inv_registry s -> inv_registry (run v c ops s).
Proof.
  intros v c ops s B. apply run_P.
  - intros s0 s1 (_ & _ & A & _ & _ & _ & _ & _ & _ & _ & T) I d. rewrite A, T. apply I.
  - intros c0 who amts s0 s1 H I. apply delegate_fields in H. destruct H as [_ ->]. intro d. ssimpl.
    rewrite !cadds_val, I. reflexivity.
  - intros c0 who amts s0 s1 H I. apply undelegate_fields in H. destruct H as (pc & _ & _ & _ & ->). intro d. ssimpl.
    rewrite B. rewrite !csubs_val, I. reflexivity.
  - intros c0 sl s0 s1 H I. slash_inv H. intro d. ssimpl. apply I.
  - intros s0 who u I d. unfold pay_undel. ssimpl. apply I.
  - intros s0 t h I d. ssimpl. apply I.
  - intros s0 vs p I d. ssimpl. apply I.
  - intros s0 s1 H I d. unfold genesis_roundtrip in H; inversion H; subst; clear H. ssimpl. apply I.
Qed.

(* ================================================================ 2. pro-rata redemption *)
(* while the pool has never been slashed, shares are 1:1 with stake *)
Definition inv_unslashed (s : st) : Prop := slashed s = 0 -> forall d, stake s d = shares s d.

Lemma slash_nonzero : forall v c sl s s', v_slash_guard v = false -> slash v c sl s = Ok s' -> slashed s' = sl /\ sl <> 0.
Proof.
  intros v c sl s s' G H. unfold slash in H. rewrite G in H. cbn [negb] in H. rewrite andb_true_r in H.
  destruct (existsb _ _); [discriminate|].
  destruct (_ <=? 0) eqn:E; [discriminate|].
  repeat match type of H with (if ?b then _ else _) = _ => destruct b; [discriminate|] end.
  inversion H; subst. ssimpl. split; [reflexivity|]. intro Z0; subst sl.
  destruct (zmem 0 (c_dens c)); [rewrite pool_coin_unslashed in E|]; lia.
Qed.

Lemma ceil_div_exact : forall x S, 0 <= x -> 0 < S -> ceil_div (x * S) S = x.
Proof.
  intros x S X HS. unfold ceil_div. rewrite Z.quot_div_nonneg by nia.
  symmetry. apply Z.div_unique with (r := S - 1); lia.
Qed.
Lemma ceil_div_bounds : forall a b, 0 <= a -> 0 < b -> a <= b * ceil_div a b /\ b * ceil_div a b < a + b.
Proof.
  intros a b A B. unfold ceil_div. rewrite Z.quot_div_nonneg by lia.
  pose proof (Z.div_mod (a + (b - 1)) b ltac:(lia)) as DM.
  pose proof (Z.mod_pos_bound (a + (b - 1)) b B) as MB. lia.
Qed.

Lemma redeem_unslashed : forall v s amts pc, slashed s = 0 -> (forall d, stake s d = shares s d) ->
  redeem_coins v s amts = Ok pc -> forall d, csum pc d = csum amts d.
Proof.
  intros v s amts. induction amts as [|[e x] r IH]; intros pc Z0 I H d; simpl in H.
  - inversion H; subst. reflexivity.
  - destruct (v_redeem_rule v =? 0).
    + apply bind_ok in H. destruct H as (t & Ht & H). inversion H; subst. simpl.
      rewrite (IH t Z0 I Ht d), Z0, pool_coin_unslashed. reflexivity.
    + destruct ((x <? 0) || (stake s e <=? 0)) eqn:G; [discriminate|].
      apply bind_ok in H. destruct H as (t & Ht & H). inversion H; subst. simpl.
      rewrite (IH t Z0 I Ht d). rewrite <- (I e). rewrite ceil_div_exact by lia. reflexivity.
Qed.

(* (without the empty-burn guard a slash by 0 panics, so a successful slash always leaves slashed > 0; with the
   guard of 27b0386 a later slash by exactly 0 resets Slashed to 0 on a pool whose stake is below its shares) *)
Theorem unslashed_one_to_one : forall v c ops s, v_slash_guard v = false -> inv_unslashed s -> inv_unslashed (run v c ops s).
Proof.
  intros v c ops s G. apply run_P.
  - intros s0 s1 (A & B & C & _) I Z0 d. rewrite B, C. apply I. congruence.
  - intros c0 who amts s0 s1 H I. apply delegate_fields in H. destruct H as [_ ->]. intros Z0 d. ssimpl.
    rewrite Z0, !cadds_val, csum_pool_coins_unslashed, I by assumption. reflexivity.
  - intros c0 who amts s0 s1 H I. apply undelegate_fields in H. destruct H as (pc & R & _ & _ & ->). intros Z0 d. ssimpl.
    rewrite !csubs_val, (redeem_unslashed _ _ _ _ Z0 (I Z0) R), I by assumption. reflexivity.
  - intros c0 sl s0 s1 H I Z0. apply (slash_nonzero _ _ _ _ _ G) in H. destruct H; congruence.
  - intros s0 who u I Z0 d. unfold pay_undel in *. ssimpl. apply I. assumption.
  - intros s0 t h I Z0 d. ssimpl. apply I. assumption.
  - intros s0 vs p I Z0 d. ssimpl. apply I. assumption.
  - intros s0 s1 H I Z0 d. unfold genesis_roundtrip in H; inversion H; subst; clear H. ssimpl. apply I. assumption.
Qed.

(* THE statement of the property: redeeming stake x of denom d burns b shares with x*shares <= stake*b
   (never more than that fraction of the pool's remaining stake) -- and not a whole share more than that *)
Fixpoint fair (s : st) (amts pc : coins) : Prop :=
  match amts, pc with
  | [], [] => True
  | (d, x) :: r, (d', b) :: r' =>
      d = d' /\ x * shares s d <= stake s d * b /\ stake s d * b < x * shares s d + stake s d /\ fair s r r'
  | _, _ => False
  end.

(* full strength, for the pro-rata conversion (redeem rule 1): ANY state -- after any number of slashes *)
Theorem redeem_pro_rata : forall v c who amts s s',
  v_redeem_rule v = 1 -> (forall d, 0 <= shares s d) ->
  undelegate v c who amts s = Ok s' ->
  exists pc, redeem_coins v s amts = Ok pc /\ fair s amts pc /\
             (forall d, sbal s' who d = sbal s who d - csum pc d) /\ (forall d, stake s' d = stake s d - csum amts d).
Proof.
  intros v c who amts s s' R NN H. apply undelegate_fields in H. destruct H as (pc & RC & _ & _ & ->).
  exists pc. split; [exact RC|]. split.
  - clear who c. revert pc RC. induction amts as [|[d x] r IH]; intros pc RC; simpl in RC.
    + inversion RC. exact I.
    + rewrite R in RC. change (1 =? 0) with false in RC. cbv iota in RC.
      destruct ((x <? 0) || (stake s d <=? 0)) eqn:G; [discriminate|].
      apply bind_ok in RC. destruct RC as (t & Ht & RC). inversion RC; subst. simpl.
      specialize (NN d). destruct (ceil_div_bounds (x * shares s d) (stake s d)) as [B1 B2]; [nia|lia|].
      repeat split; auto; lia.
  - split; intro d; ssimpl; [rewrite asubs_val, Z.eqb_refl; reflexivity | apply csubs_val].
Qed.

(* the old conversion (redeem rule 0, GetPoolCoins): x <= stake*b/shares (+1/2) with b = round(x*(1-slashed)) *)
Definition pro_rata_at (s : st) (amts : coins) : Prop :=
  forall d x, In (d, x) amts ->
    2 * x * shares s d <= 2 * stake s d * pool_coin x (slashed s) + shares s d.

Theorem redeem_pro_rata_unslashed : forall amts s,
  inv_unslashed s -> slashed s = 0 -> (forall d, 0 <= shares s d) -> pro_rata_at s amts.
Proof.
  intros amts s I Z0 NN d x _. rewrite Z0, pool_coin_unslashed, (I Z0 d).
  specialize (NN d). nia.
Qed.

(* ================================================================ 3. claims *)
Lemma find_undel_some : forall id l u, find_undel id l = Some u -> In u l /\ u_id u = id.
Proof.
  induction l as [|x r IH]; intros u H; simpl in H; [discriminate|].
  destruct (u_id x =? id) eqn:E.
  - inversion H; subst. split; [left; reflexivity|lia].
  - apply IH in H. destruct H. split; [right; assumption|assumption].
Qed.
Lemma find_undel_none_filter : forall id f l, find_undel id l = None -> find_undel id (filter f l) = None.
Proof.
  induction l as [|x r IH]; intro H; simpl in *; [reflexivity|].
  destruct (u_id x =? id) eqn:E; [discriminate|]. destruct (f x); simpl; [rewrite E|]; auto.
Qed.
Lemma find_undel_removed : forall id l, find_undel id (remove_undel id l) = None.
Proof.
  unfold remove_undel. induction l as [|x r IH]; simpl; [reflexivity|].
  destruct (u_id x =? id) eqn:E; simpl; [exact IH|rewrite E; exact IH].
Qed.

Lemma claim_spec : forall v who id s s', claim v who id s = Ok s' ->
  exists u, find_undel id (undels s) = Some u /\ u_expiry u <= time s /\
            (v_owner_check v = true -> u_owner u = who) /\ all_gte (modb s) (u_amt u) = true /\ s' = pay_undel s who u.
Proof.
  intros v who id s s' H. unfold claim in H. destruct (find_undel id (undels s)) as [u|] eqn:F; [|discriminate].
  destruct (time s <? u_expiry u) eqn:E1; [discriminate|].
  destruct (v_owner_check v && negb (u_owner u =? who)) eqn:E2; [discriminate|].
  destruct (coins_valid (u_amt u)); cbn [negb] in H; [|discriminate].
  destruct (all_gte (modb s) (u_amt u)) eqn:E3; cbn [negb] in H; [|discriminate].
  inversion H; subst. exists u. split; [reflexivity|]. split; [lia|]. split; [|split; [exact E3|reflexivity]].
  intro O. rewrite O in E2. simpl in E2. lia.
Qed.

Theorem claim_only_by_owner_after_expiry : forall v who id s s',
  v_owner_check v = true -> claim v who id s = Ok s' ->
  exists u, find_undel id (undels s) = Some u /\ u_owner u = who /\ u_expiry u <= time s /\
    (forall a d, nbal s' a d = nbal s a d + (if a =? who then csum (u_amt u) d else 0)) /\
    (forall d, modb s' d = modb s d - csum (u_amt u) d) /\
    find_undel id (undels s') = None.
Proof.
  intros v who id s s' O H. apply claim_spec in H. destruct H as (u & F & E & OW & _ & ->).
  exists u. repeat split; auto.
  - intros a d. unfold pay_undel. ssimpl. apply aadds_val.
  - intro d. unfold pay_undel. ssimpl. apply csubs_val.
  - unfold pay_undel. ssimpl. apply find_undel_some in F. destruct F as [_ <-]. apply find_undel_removed.
Qed.

(* the record a successful Undelegate creates: owner = the redeemer, amount = what was redeemed, expiry = now +
   the unstaking period, a fresh id; nothing is paid at that moment *)
Theorem undelegate_records : forall v c who amts s s', undelegate v c who amts s = Ok s' ->
  undels s' = undels s ++ [mkUndel (last s + 1) who (time s + c_unstake c) amts] /\ last s' = last s + 1 /\
  nbal s' = nbal s /\ modb s' = modb s.
Proof.
  intros v c who amts s s' H. apply undelegate_fields in H. destruct H as (pc & _ & _ & _ & ->). ssimpl. repeat split.
Qed.

Definition gone (id : Z) (s : st) : Prop :=
  id <= last s /\ find_undel id (undels s) = None.
Lemma find_undel_app_none : forall id l u, find_undel id l = None -> u_id u <> id -> find_undel id (l ++ [u]) = None.
Proof.
  induction l as [|x r IH]; intros u H N; simpl in *.
  - destruct (u_id u =? id) eqn:E; [lia|reflexivity].
  - destruct (u_id x =? id); [discriminate|]. auto.
Qed.
Theorem claimed_stays_claimed : forall id v c ops s, (forall o, In o ops -> is_genesis o = false) ->
  gone id s -> gone id (run v c ops s).
Proof.
  intros id v c ops s G. apply run_P_nogen; [ | | | | | | | exact G].
  - intros s0 s1 (_ & _ & _ & _ & A & B & _) [L F]. split; [rewrite B|rewrite A]; assumption.
  - intros c0 who amts s0 s1 H [L F]. apply delegate_fields in H. destruct H as [_ ->]. split; ssimpl; assumption.
  - intros c0 who amts s0 s1 H [L F]. apply undelegate_fields in H. destruct H as (pc & _ & _ & _ & ->). split; ssimpl; [lia|].
    apply find_undel_app_none; [assumption|]. simpl. lia.
  - intros c0 sl s0 s1 H [L F]. slash_inv H. split; ssimpl; auto.
  - intros s0 who u [L F]. unfold pay_undel. split; ssimpl; [assumption|]. apply find_undel_none_filter. assumption.
  - intros s0 t h [L F]. split; ssimpl; assumption.
  - intros s0 vs p [L F]. split; ssimpl; assumption.
Qed.

Definition ids_bounded (s : st) : Prop := forall u, In u (undels s) -> u_id u <= last s.
Theorem ids_stay_bounded : forall v c ops s, ids_bounded s -> ids_bounded (run v c ops s).
Proof.
  intros v c ops s. apply run_P.
  - intros s0 s1 (_ & _ & _ & _ & A & B & _) I u. rewrite A, B. apply I.
  - intros c0 who amts s0 s1 H I. apply delegate_fields in H. destruct H as [_ ->]. intro u. ssimpl. apply I.
  - intros c0 who amts s0 s1 H I. apply undelegate_fields in H. destruct H as (pc & _ & _ & _ & ->). intros u U. ssimpl.
    apply in_app_or in U. destruct U as [U|[U|[]]]; [apply I in U; lia|subst u; simpl; lia].
  - intros c0 sl s0 s1 H I. slash_inv H. intro u. ssimpl. apply I.
  - intros s0 who u I x X. unfold pay_undel in *. ssimpl. unfold remove_undel in X. apply filter_In in X. apply I. tauto.
  - intros s0 t h I u. ssimpl. apply I.
  - intros s0 vs p I u. ssimpl. apply I.
  - intros s0 s1 H I u U. unfold genesis_roundtrip in H; inversion H; subst; clear H. ssimpl. clear I. unfold max_undel_id.
    assert (K : forall l m, In u l -> u_id u <= fold_left (fun m u => Z.max m (u_id u)) l m).
    { assert (M : forall l m, m <= fold_left (fun m u => Z.max m (u_id u)) l m)
        by (induction l as [|x r IH]; intro m; simpl; [lia|]; specialize (IH (Z.max m (u_id x))); lia).
      induction l as [|x r IH]; intros m E; simpl; [destruct E|]. destruct E as [E|E].
      - subst x. specialize (M r (Z.max m (u_id u))). lia.
      - apply IH. exact E. }
    apply K. exact U.
Qed.

Theorem claim_once : forall v c who id s s' ops who2,
  (forall o, In o ops -> is_genesis o = false) ->
  ids_bounded s -> claim v who id s = Ok s' ->
  exists e, claim v who2 id (run v c ops s') = Err e.
Proof.
  intros v c who id s s' ops who2 NG B H. apply claim_spec in H. destruct H as (u & F & _ & _ & _ & ->).
  apply find_undel_some in F. destruct F as [Fin Fid].
  assert (G : gone id (pay_undel s who u)).
  { unfold gone, pay_undel. ssimpl. split; [apply B in Fin; lia|]. rewrite <- Fid. apply find_undel_removed. }
  apply (claimed_stays_claimed id v c ops _ NG) in G. destruct G as [_ G].
  unfold claim. rewrite G. eexists. reflexivity.
Qed.

(* a partial redemption leaves the redeemer a delegator of the pool (prefix repaired) *)
Lemma zremove_other : forall x y l, x <> y -> In x l -> In x (zremove y l).
Proof. intros x y l N I. unfold zremove. apply filter_In. split; [exact I|]. lia. Qed.
Theorem partial_undelegate_keeps_delegator : forall v c who amts s s',
  v_prefix_ok v = true -> undelegate v c who amts s = Ok s' ->
  In who (dels s) -> (exists d, In d (c_dens c) /\ 0 < sbal s' who d) -> In who (dels s').
Proof.
  intros v c who amts s s' PO H D (d & Dd & B). apply undelegate_fields in H. destruct H as (pc & _ & _ & _ & ->).
  ssimpl. rewrite PO. cbn [andb].
  replace (existsb (fun d0 => 0 <? asubs (sbal s) who pc who d0) (c_dens c)) with true; [exact D|].
  symmetry. apply existsb_exists. exists d. split; [exact Dd|lia].
Qed.
Theorem others_stay_delegators : forall v c who amts s s' a,
  undelegate v c who amts s = Ok s' -> a <> who -> In a (dels s) -> In a (dels s').
Proof.
  intros v c who amts s s' a H N D. apply undelegate_fields in H. destruct H as (pc & _ & _ & _ & ->). ssimpl.
  destruct (_ && _); [exact D|apply zremove_other; assumption].
Qed.

(* ================================================================ 4. per-block allocation *)
Theorem remainder_to_treasury : forall v c infl s s', allocate v c infl s = Ok s' -> forall d, treas s' d = fee s' d.
Proof.
  intros v c infl s s' H d. unfold allocate in H. destruct (c_snap c =? 0); [discriminate|].
  apply bind_ok in H. destruct H as (s2 & _ & H). inversion H; subst. ssimpl. reflexivity.
Qed.

(* -- vote bookkeeping *)
Definition clock_votes (V : list (Z * Z)) (H : Z) (s : st) : Prop := votes s = V /\ height s = H.
Lemma clock_votes_tx : forall v c o s s' V H, is_tx o = true -> step v c o s = Ok s' -> clock_votes V H s -> clock_votes V H s'.
Proof.
  intros v c o s s' V H T E. eapply (step_tx_P v (clock_votes V H)); [ | | | | | exact T | exact E].
  - intros s0 s1 (_ & _ & _ & _ & _ & _ & A & _ & _ & B & _) [X Y]. split; congruence.
  - intros c0 who amts s0 s1 H0 [X Y]. apply delegate_fields in H0. destruct H0 as [_ ->]. split; ssimpl; assumption.
  - intros c0 who amts s0 s1 H0 [X Y]. apply undelegate_fields in H0. destruct H0 as (pc & _ & _ & _ & ->). split; ssimpl; assumption.
  - intros c0 sl s0 s1 H0 [X Y]. slash_inv H0. split; ssimpl; auto.
  - intros s0 who u [X Y]. unfold pay_undel. split; ssimpl; assumption.
Qed.
Lemma txs_keep_votes : forall v c ops s, (forall o, In o ops -> is_tx o = true) ->
  votes (run v c ops s) = votes s /\ height (run v c ops s) = height s.
Proof.
  intros v c ops. unfold run. induction ops as [|o r IH]; intros s T; simpl; [split; reflexivity|].
  assert (K : clock_votes (votes s) (height s) (step_total v c s o)).
  { unfold step_total. destruct (step v c o s) eqn:E; try (split; reflexivity).
    eapply clock_votes_tx; [apply T; left; reflexivity|exact E|split; reflexivity]. }
  destruct K as [K1 K2]. destruct (IH (step_total v c s o)) as [A B]; [intros; apply T; right; assumption|].
  split; congruence.
Qed.

Lemma allocate_clock_votes : forall v c infl s s', allocate v c infl s = Ok s' -> votes s' = votes s /\ height s' = height s.
Proof.
  intros v c infl s s' H.
  assert (K : clock_votes (votes s) (height s) s').
  { eapply (allocate_P v (clock_votes (votes s) (height s))); [ | | exact H | split; reflexivity].
    - intros s0 s1 (_ & _ & _ & _ & _ & _ & A & _ & _ & B & _) [X Y]. split; congruence.
    - intros c0 who amts a b H0 [X Y]. apply delegate_fields in H0. destruct H0 as [_ ->]. split; ssimpl; assumption. }
  exact K.
Qed.

(* the votes in the store after the begin blocker: the old ones still inside the window, plus one at the new
   height for every validator of the last commit that is RECORDED (all of them / only the signers) *)
Lemma begin_block_votes : forall v c dt commit p possible infl s s1,
  begin_block v c dt commit p possible infl s = Ok s1 ->
  height s1 = height s + 1 /\
  votes s1 = filter (fun q => negb (snd q + c_snap c <=? height s + 1)) (add_votes (recorded v commit) (height s + 1) (votes s)).
Proof.
  intros v c dt commit p possible infl s s1 H. unfold begin_block in H. apply bind_ok in H.
  destruct H as (s0 & H0 & H). inversion H; subst; clear H. ssimpl.
  assert (K : votes s0 = votes s /\ height s0 = height s + 1).
  { destruct (_ && possible).
    - apply allocate_clock_votes in H0. ssimpl. exact H0.
    - inversion H0; subst. ssimpl. split; reflexivity. }
  destruct K as [K1 K2]. rewrite K1. split; [exact K2|reflexivity].
Qed.
Lemma begin_block_votes_fresh : forall v c dt commit p possible infl s s1,
  begin_block v c dt commit p possible infl s = Ok s1 ->
  height s1 = height s + 1 /\ forall q, In q (votes s1) -> height s1 < snd q + c_snap c.
Proof.
  intros v c dt commit p possible infl s s1 H. apply begin_block_votes in H. destruct H as [HH V].
  split; [exact HH|]. intros q Q. rewrite V in Q. apply filter_In in Q. destruct Q as [_ Q]. rewrite HH. lia.
Qed.

Lemma filter_fresh_nil : forall snap h (l : list (Z * Z)),
  (forall q, In q l -> h < snd q + snap) -> filter (fun p => negb (end_deletes 0 (snd p) snap h)) l = [].
Proof.
  intros snap h l. induction l as [|q r IH]; intro B; simpl; [reflexivity|].
  assert (Q : h < snd q + snap) by (apply B; left; reflexivity).
  unfold end_deletes at 1. simpl. replace (h <? snd q + snap) with true by lia. simpl.
  apply IH. intros x X. apply B. right. assumption.
Qed.

(* the tree before c0fbb8a (end rule 0): after begin block, any transactions, end block, the vote store is EMPTY *)
Theorem fresh_votes_wiped : forall v c dt commit p possible infl txs s s1 s3,
  v_end_rule v = 0 ->
  begin_block v c dt commit p possible infl s = Ok s1 ->
  (forall o, In o txs -> is_tx o = true) ->
  end_block v c (run v c txs s1) = Ok s3 ->
  votes s3 = [].
Proof.
  intros v c dt commit p possible infl txs s s1 s3 R B T E.
  apply begin_block_votes_fresh in B. destruct B as [_ B].
  destruct (txs_keep_votes v c txs s1 T) as [KV KH].
  unfold end_block in E. inversion E; subst; clear E. ssimpl. rewrite KV, KH, R.
  apply filter_fresh_nil. exact B.
Qed.

Lemma chop_round_0 : chop_round 0 = 0. Proof. reflexivity. Qed.
Lemma dec_mul_round_0 : forall x, dec_mul_round 0 x = 0.
Proof. intro x. unfold dec_mul_round, round_int, dec_of_int. simpl. rewrite chop_round_0. apply chop_round_0. Qed.
Lemma forallb_all : forall (f : Z -> bool) l, (forall x, f x = true) -> forallb f l = true.
Proof. intros f l H. induction l; simpl; [reflexivity|]. rewrite H. assumption. Qed.

(* with NO vote of the previous proposer in the store the allocation credits nobody: no validator payment, no
   delegator reward record, no auto-compounded stake; fees + inflation are all left to the treasury *)
Theorem nobody_credited_without_votes : forall v c infl s s',
  count_votes (prev s) (votes s) = 0 -> allocate v c infl s = Ok s' ->
  nbal s' = nbal s /\ rew s' = rew s /\ stake s' = stake s /\
  (forall d, treas s' d = fee s d + (if d =? 0 then infl else 0)).
Proof.
  intros v c infl s s' V H. unfold allocate in H. destruct (c_snap c =? 0) eqn:SN; [discriminate|].
  cbv zeta in H. rewrite V in H.
  assert (FC : forall d, fee_cut c s 0 d = 0) by (intro d; unfold fee_cut; rewrite Z.mul_0_r; apply Z.quot_0_l; lia).
  assert (VR : forall d, val_fee_reward c s 0 d = 0) by (intro d; unfold val_fee_reward; rewrite FC, dec_mul_round_0; reflexivity).
  assert (PR : forall d, pool_fee_reward c s 0 d = 0) by (intro d; unfold pool_fee_reward; rewrite FC, dec_mul_round_0; reflexivity).
  assert (IC : infl_cut c infl 0 = 0) by (unfold infl_cut; rewrite Z.mul_0_r; apply Z.quot_0_l; lia).
  assert (ICM : infl_commission c infl 0 = 0) by (unfold infl_commission; rewrite IC; apply dec_mul_round_0).
  rewrite ?ICM, ?IC in H. change (0 - 0) with 0 in H. change ((0 <? 0) || (0 <? 0)) with false in H. cbv iota in H.
  assert (Z1 : cmap_is_zero (c_dens c) (cadd (pool_fee_reward c s 0) 0 0) = true).
  { apply forallb_all. intro d. unfold cadd. rewrite PR. destruct (d =? 0); reflexivity. }
  assert (Z2 : cmap_is_zero (c_dens c) (cadd (val_fee_reward c s 0) 0 0) = true).
  { apply forallb_all. intro d. unfold cadd. rewrite VR. destruct (d =? 0); reflexivity. }
  assert (Z3 : cmap_is_zero (c_dens c) (val_fee_reward c s 0) = true).
  { apply forallb_all. intro d. rewrite VR. reflexivity. }
  rewrite ?Z1 in H. unfold pay_validator in H. rewrite ?Z2, ?Z3 in H.
  destruct (is_validator (prev s)); [destruct (has_pool (prev s))|]; cbn [bind] in H; inversion H; subst; ssimpl;
    (repeat split; try reflexivity; intro d; unfold cadd; destruct (d =? 0); lia).
Qed.

(* -- which validators get a vote *)
Lemma add_votes_in : forall p h commit vs, In (p, h) vs \/ In p commit -> In (p, h) (add_votes commit h vs).
Proof.
  unfold add_votes. induction commit as [|x r IH]; intros vs H; simpl.
  - destruct H as [H|[]]. exact H.
  - apply IH. destruct H as [H|[H|H]].
    + left. destruct (existsb _ vs); [exact H|apply in_or_app; left; exact H].
    + subst x. left. destruct (existsb _ vs) eqn:E.
      * apply existsb_exists in E. destruct E as ([a b] & I & E). simpl in E.
        assert (a = p /\ b = h) by lia. destruct H; subst. exact I.
      * apply in_or_app. right. left. reflexivity.
    + right. exact H.
Qed.
Lemma add_votes_only : forall q commit h vs, In q (add_votes commit h vs) -> In q vs \/ (snd q = h /\ In (fst q) commit).
Proof.
  unfold add_votes. intros q commit h. induction commit as [|x r IH]; intros vs H; simpl in H; [left; exact H|].
  apply IH in H. destruct H as [H|[H1 H2]].
  - destruct (existsb _ vs); [left; exact H|]. apply in_app_or in H. destruct H as [H|[H|[]]]; [left; exact H|].
    subst q. right. split; [reflexivity|left; reflexivity].
  - right. split; [exact H1|right; exact H2].
Qed.
Lemma recorded_in : forall v commit q, In q (recorded v commit) <->
  exists sg, In (q, sg) commit /\ (v_signers_only v = false \/ sg = true).
Proof.
  intros v commit q. unfold recorded. rewrite in_map_iff. split.
  - intros ([a sg] & E & F). simpl in E. subst a. apply filter_In in F. destruct F as [F G]. simpl in G.
    exists sg. split; [exact F|]. destruct (v_signers_only v); [right; simpl in G; exact G|left; reflexivity].
  - intros (sg & F & G). exists (q, sg). split; [reflexivity|]. apply filter_In. split; [exact F|]. simpl.
    destruct G as [G|G]; rewrite G; [reflexivity|apply orb_true_r].
Qed.

(* full strength, signers only: a vote at the new height exists ONLY for validators that signed the last block *)
Theorem votes_only_for_signers : forall v c dt commit p possible infl s s1 q,
  v_signers_only v = true ->
  begin_block v c dt commit p possible infl s = Ok s1 ->
  In (q, height s1) (votes s1) -> (forall w, In w (votes s) -> snd w <= height s) ->
  In (q, true) commit.
Proof.
  intros v c dt commit p possible infl s s1 q SO B I OLD. apply begin_block_votes in B. destruct B as [HH V].
  rewrite V in I. apply filter_In in I. destruct I as [I _]. apply add_votes_only in I. destruct I as [I|[_ I]].
  - apply OLD in I. simpl in I. lia.
  - simpl in I. apply recorded_in in I. destruct I as (sg & F & [G|G]); [congruence|subst sg; exact F].
Qed.

(* with the repaired end rule (1) the vote of a recorded validator survives the block *)
Lemma begin_block_vote_in : forall v c dt commit p possible infl s s1 q,
  1 <= c_snap c -> begin_block v c dt commit p possible infl s = Ok s1 -> In q (recorded v commit) ->
  In (q, height s1) (votes s1).
Proof.
  intros v c dt commit p possible infl s s1 q SN B Q. apply begin_block_votes in B. destruct B as [HH V].
  rewrite V, HH. apply filter_In. split; [apply add_votes_in; right; exact Q|]. simpl. lia.
Qed.
Theorem fresh_vote_survives_block : forall v c dt commit p possible infl txs s s1 s3 q,
  v_end_rule v = 1 -> 1 <= c_snap c ->
  begin_block v c dt commit p possible infl s = Ok s1 ->
  In (q, true) commit ->
  (forall o, In o txs -> is_tx o = true) ->
  end_block v c (run v c txs s1) = Ok s3 ->
  1 <= count_votes q (votes s3) /\ prev s3 = p.
Proof.
  intros v c dt commit p possible infl txs s s1 s3 q R SN B Q T E.
  assert (QR : In q (recorded v commit)) by (apply recorded_in; exists true; split; [exact Q|right; reflexivity]).
  pose proof (begin_block_vote_in _ _ _ _ _ _ _ _ _ _ SN B QR) as IN.
  assert (PV : prev (run v c txs s1) = p).
  { assert (P1 : prev s1 = p).
    { unfold begin_block in B. apply bind_ok in B. destruct B as (s0 & _ & B). inversion B; subst. ssimpl. reflexivity. }
    rewrite <- P1. clear - T. unfold run. revert s1. induction txs as [|o r IH]; intro s1; simpl; [reflexivity|].
    rewrite IH by (intros; apply T; right; assumption).
    unfold step_total. destruct (step v c o s1) eqn:E; try reflexivity.
    eapply (step_tx_P v (fun x => prev x = prev s1)); [ | | | | | apply T; left; reflexivity | exact E | reflexivity].
    - intros s0 s2 (_ & _ & _ & _ & _ & _ & _ & A & _) X. congruence.
    - intros c0 who amts s0 s2 H0 X. apply delegate_fields in H0. destruct H0 as [_ ->]. ssimpl. assumption.
    - intros c0 who amts s0 s2 H0 X. apply undelegate_fields in H0. destruct H0 as (pc & _ & _ & _ & ->). ssimpl. assumption.
    - intros c0 sl s0 s2 H0 X. slash_inv H0. ssimpl. auto.
    - intros s0 who u X. unfold pay_undel. ssimpl. assumption. }
  destruct (txs_keep_votes v c txs s1 T) as [KV KH].
  unfold end_block in E. inversion E as [E']. clear E. subst s3. ssimpl. split; [|exact PV]. rewrite KV, KH, R.
  unfold count_votes.
  assert (IN2 : In (q, height s1) (filter (fun p0 => fst p0 =? q)
            (filter (fun p0 => negb (end_deletes 1 (snd p0) (c_snap c) (height s1))) (votes s1)))).
  { apply filter_In. split; [apply filter_In; split; [exact IN|]|simpl; lia].
    unfold end_deletes. simpl. lia. }
  destruct (filter _ (filter _ (votes s1))); [destruct IN2|]. simpl. lia.
Qed.

(* -- the validator's own reward *)
Lemma dec_mul_round_eq : forall x v, dec_mul_round x v = chop_round (x * v).
Proof.
  intros x v. unfold dec_mul_round, round_int, dec_of_int. replace (x * PREC * v) with ((x * v) * PREC) by ring.
  rewrite chop_round_mult. reflexivity.
Qed.
Lemma chop_round_ge_1 : forall y, PREC <= y -> 1 <= chop_round y.
Proof.
  intros y Y. pose proof PREC_pos as HP. unfold chop_round. replace (y <? 0) with false by lia.
  unfold chop_round_pos. assert (1 <= y / PREC) by (apply Z.div_le_lower_bound; lia).
  repeat match goal with |- context [if ?b then _ else _] => destruct b end; lia.
Qed.

Lemma autocompound_one_nbal : forall c a s s', autocompound_one c a s = Ok s' -> forall b d, nbal s' b d = nbal s b d.
Proof.
  intros c a s s' H b d. unfold autocompound_one in H.
  destruct (comp s a) as [[all cds] lastx].
  destruct (height s <? lastx + c_autoint c); [inversion H; subst; reflexivity|].
  apply bind_ok in H. destruct H as (auto & _ & H).
  destruct auto as [|x auto'].
  - inversion H; subst. destruct all; ssimpl; reflexivity.
  - cbv zeta in H.
    destruct (all_gte _ (x :: auto')); cbn [negb] in H; [|discriminate].
    destruct (delegate c a (x :: auto') _) eqn:D; try discriminate.
    inversion H; subst s'. apply delegate_fields in D. destruct D as [_ ->]. ssimpl.
    rewrite asubs_val, aadds_val. destruct all; ssimpl; lia.
Qed.
Lemma autocompound_nbal : forall v c l s s', autocompound v c l s = Ok s' -> forall b d, nbal s' b d = nbal s b d.
Proof.
  induction l as [|a r IH]; intros s s' H b d; simpl in H.
  - inversion H; subst; reflexivity.
  - destruct (autocompound_one c a s) as [s1|e|e] eqn:H1.
    + rewrite (IH _ _ H), (autocompound_one_nbal _ _ _ _ H1). reflexivity.
    + destruct (v_compound_safe v); [exact (IH _ _ H b d)|discriminate].
    + discriminate.
Qed.

(* full strength at the allocation: a previous proposer with a positive signing record in the store, and a fee cut
   worth at least one unit of validator share in some denom, is paid a POSITIVE amount in that denom *)
Theorem signing_proposer_credited : forall v c infl s s' d,
  is_validator (prev s) = true -> In d (c_dens c) ->
  PREC <= fee_cut c s (count_votes (prev s) (votes s)) d * Z.min (c_vfs c) PREC ->
  allocate v c infl s = Ok s' ->
  nbal s (val_acct (prev s)) d < nbal s' (val_acct (prev s)) d.
Proof.
  intros v c infl s s' d IV Dd CUT H. unfold allocate in H. destruct (c_snap c =? 0); [discriminate|].
  cbv zeta in H. rewrite IV in H. set (power := count_votes (prev s) (votes s)) in *.
  assert (VR : 1 <= val_fee_reward c s power d).
  { unfold val_fee_reward. rewrite dec_mul_round_eq. pose proof (chop_round_ge_1 _ CUT).
    destruct (0 <? chop_round _) eqn:E; lia. }
  apply bind_ok in H. destruct H as (s2 & H2 & H). inversion H; subst s'; clear H. ssimpl.
  assert (PAY : forall vr sx sy, 1 <= vr d -> (forall b e, nbal sx b e = nbal s b e) ->
                pay_validator c (prev s) vr sx = Ok sy -> nbal s (val_acct (prev s)) d < nbal sy (val_acct (prev s)) d).
  { intros vr sx sy V N P. unfold pay_validator in P.
    destruct (cmap_is_zero (c_dens c) vr) eqn:Zr.
    - unfold cmap_is_zero in Zr. rewrite forallb_forall in Zr. specialize (Zr d Dd). lia.
    - destruct (existsb _ _); [discriminate|]. inversion P; subst. ssimpl. unfold aset, cplus.
      rewrite Z.eqb_refl, N. lia. }
  destruct (has_pool (prev s)).
  - destruct (_ || _) eqn:NEG; [discriminate|]. apply bind_ok in H2. destruct H2 as (s1 & H1 & H2).
    eapply PAY; [ | | exact H2].
    + unfold cadd. destruct (d =? 0); lia.
    + intros b e. destruct (cmap_is_zero _ _).
      * inversion H1; subst. ssimpl. reflexivity.
      * unfold increase_pool_rewards in H1. rewrite (autocompound_nbal _ _ _ _ _ H1). ssimpl. reflexivity.
  - eapply PAY; [exact VR | | exact H2]. intros b e. ssimpl. reflexivity.
Qed.

(* ================================================================ witnesses (each is a scripted history of the harness,
   replayed on the real code) *)
Definition demo_cfg : cfg :=
  mkCfg [(0, (true, 1, HALF)); (1, (true, 1, HALF))] [0; 1] 604800 HALF 10000000000000000 4 3 [0; 1; 5; 100; 101].
Definition demo_init : st :=
  mkSt 1700000000 10 0 czero czero czero czero czero czero
       (fun a _ => if a <? 6 then 1000000 else 0) (fun _ => czero) (fun _ => czero)
       [] 0 [] (fun _ => (false, [], 0)) [] 0 czero.
Definition tree_r0 : variant := mkVariant false 0 false false 0 false false false false.   (* the tree before 86992ce / c0fbb8a *)
Definition tree_r1 : variant := mkVariant true 1 false false 0 false false false false.    (* with the claim-owner and end-blocker repairs *)
Definition tree_r2 : variant := mkVariant true 1 true true 1 false false false false. (* + signers-only votes, "v<id>/" prefix, pro-rata redemption *)
Definition tree_r3 : variant := mkVariant true 1 true true 1 false true true false.  (* + slashing keeper by reference, empty-burn guard (27b0386) *)
Definition tree_r4 : variant := mkVariant true 1 true true 1 false true true true.   (* + auto-compounding on a cache context (a2421a4): the tree now *)

(* two equal delegators, slash 1/2: the first one redeems the WHOLE remaining stake for HALF of his shares *)
Definition slashed_pool (v : variant) : st :=
  run v demo_cfg [ODelegate 0 [(0, 100)]; ODelegate 1 [(0, 100)]; OSlash HALF] demo_init.
Theorem redeem_pro_rata_refuted :
  exists c who amts s s', inv_supply s /\ undelegate tree_r1 c who amts s = Ok s' /\ ~ pro_rata_at s amts /\
    stake s' 0 = 0 /\ sbal s' 0 0 = 50 /\ sbal s' 1 0 = 100.
Proof.
  exists demo_cfg, 0, [(0, 100)], (slashed_pool tree_r1).
  assert (K : is_ok (undelegate tree_r1 demo_cfg 0 [(0, 100)] (slashed_pool tree_r1)) = true) by (vm_compute; reflexivity).
  destruct (undelegate tree_r1 demo_cfg 0 [(0, 100)] (slashed_pool tree_r1)) as [s'| |] eqn:E; try discriminate K. clear K.
  exists s'. split; [|split; [reflexivity|split]].
  - unfold slashed_pool. apply share_supply_eq_book. intro d. reflexivity.
  - intro P. specialize (P 0 100 (or_introl eq_refl)). vm_compute in P. apply P. reflexivity.
  - apply undelegate_fields in E. destruct E as (pc & R & _ & _ & ->). vm_compute in R. inversion R; subst pc.
    vm_compute. repeat split.
Qed.
(* with the pro-rata conversion the same redeemer must give up ALL his 100 shares for 50 stake, also after a
   second slash (non-vacuity of redeem_pro_rata in a twice-slashed pool) *)
Example redeem_pro_rata_after_two_slashes :
  let s := run tree_r2 demo_cfg [OSlash HALF] (slashed_pool tree_r2) in
  stake s 0 = 50 /\ shares s 0 = 200 /\
  redeem_coins tree_r2 s [(0, 25)] = Ok [(0, 100)] /\ is_ok (undelegate tree_r2 demo_cfg 0 [(0, 26)] s) = false.
Proof. vm_compute. repeat split. Qed.

(* a stranger collects a matured undelegation (variant without the owner comparison) *)
Definition matured_state : st :=
  run tree_r0 demo_cfg [ODelegate 0 [(0, 500)]; OUndelegate 0 [(0, 500)]; OAdvance 604800] demo_init.
Theorem claim_owner_refuted :
  exists s s' u, find_undel 1 (undels s) = Some u /\ u_owner u = 0 /\
    claim tree_r0 5 1 s = Ok s' /\ nbal s' 5 0 = nbal s 5 0 + 500 /\
    (exists e, claim tree_r0 0 1 s' = Err e).
Proof.
  exists matured_state.
  assert (K : is_ok (claim tree_r0 5 1 matured_state) = true) by (vm_compute; reflexivity).
  destruct (claim tree_r0 5 1 matured_state) as [s'| |] eqn:E; try discriminate K. clear K.
  exists s'. pose proof E as E'. apply claim_spec in E'. destruct E' as (u & F & _ & _ & _ & ->).
  exists u. split; [exact F|]. vm_compute in F. inversion F; subst u. split; [reflexivity|]. split; [reflexivity|].
  split; [vm_compute; reflexivity|]. eexists. vm_compute. reflexivity.
Qed.

(* five blocks, validator 0 proposes and signs each, 4000 fees per block, begin + end blocker *)
Definition one_block (sg : bool) : list op := [OFees [(0, 4000)]; OBegin 5 [(0, sg); (1, true)] 0 true 0; OEnd].
Definition five_blocks (sg : bool) : list op :=
  ODelegate 0 [(0, 1000)] :: one_block sg ++ one_block sg ++ one_block sg ++ one_block sg ++ one_block sg.
Theorem signing_proposer_credited_refuted :
  let s := run tree_r0 demo_cfg (five_blocks true) demo_init in
  nbal s 100 0 = 0 /\ rew s 0 0 = 0 /\ stake s 0 = 1000 /\ treas s 0 = 20000 /\ votes s = [].
Proof. vm_compute. repeat split. Qed.
Example signing_proposer_credited_nonvacuous :
  let s := run tree_r1 demo_cfg (five_blocks true) demo_init in 0 < nbal s 100 0 /\ 0 < rew s 0 0.
Proof. vm_compute. repeat split. Qed.

(* "by its signing record": validator 0 proposes every block but NEVER signs; the tree records a vote for it
   anyway and pays it; with signers-only votes it gets nothing *)
Theorem signing_record_refuted :
  let s := run tree_r1 demo_cfg (five_blocks false) demo_init in
  count_votes 0 (votes s) = 4 /\ 0 < nbal s 100 0 /\ 0 < rew s 0 0.
Proof. vm_compute. repeat split. Qed.
Example signing_record_repaired :
  let s := run tree_r2 demo_cfg (five_blocks false) demo_init in
  count_votes 0 (votes s) = 0 /\ nbal s 100 0 = 0 /\ rew s 0 0 = 0 /\ count_votes 1 (votes s) = 4.
Proof. vm_compute. repeat split. Qed.

(* a delegator redeems 300 of his 1000: he still holds 700 shares but is no delegator any more and the
   following blocks credit him nothing (the other delegator gets everything); the registry supply drifts *)
Definition partial_redeem : list op :=
  [ODelegate 0 [(0, 1000)]; ODelegate 1 [(0, 1000)]; OUndelegate 0 [(0, 300)]] ++ one_block true ++ one_block true ++ one_block true.
Theorem delegator_dropped_refuted :
  let s := run tree_r1 demo_cfg partial_redeem demo_init in
  sbal s 0 0 = 700 /\ dels s = [1] /\ rew s 0 0 = 0 /\ 0 < rew s 1 0.
Proof. vm_compute. repeat split. Qed.
Example delegator_kept_when_repaired :
  let s := run tree_r2 demo_cfg partial_redeem demo_init in
  sbal s 0 0 = 700 /\ dels s = [0; 1] /\ 0 < rew s 0 0 /\ rew s 0 0 < rew s 1 0.
Proof. vm_compute. repeat split. Qed.
Theorem registry_supply_refuted :
  let s := run tree_r2 demo_cfg partial_redeem demo_init in
  ssup s 0 = 1700 /\ shares s 0 = 1700 /\ tsup s 0 = 2000.
Proof. vm_compute. repeat split. Qed.

(* stake caps 1/2 + 1/2, full signing record, 6 units of fees: validator 3 + delegators 2 + 2 = 7 > 6 *)
Theorem credited_le_allocation_refuted :
  let s0 := run tree_r1 demo_cfg [ODelegate 0 [(0, 1000); (1, 1000)]; OSetVotes [(0, 7); (0, 8); (0, 9); (0, 10)];
                                OFees [(1, 6)]] demo_init in
  let s := run tree_r1 demo_cfg [OAllocate true 0] s0 in
  fee s0 1 - treas s0 1 = 6 /\ nbal s 100 1 - nbal s0 100 1 = 3 /\ rew s 0 1 - rew s0 0 1 = 4.
Proof. vm_compute. repeat split. Qed.

(* non-vacuity of the invariants: a reachable state with stake, shares, an undelegation and rewards *)
Example busy_state_nonvacuous :
  let s := run tree_r2 demo_cfg (five_blocks true ++ [OUndelegate 0 [(0, 300)]; OSendShares 0 1 [(0, 200)]]) demo_init in
  inv_supply s /\ inv_unslashed s /\ ids_bounded s /\ shares s 0 = 700 /\ sbal s 1 0 = 200 /\ List.length (undels s) = 1%nat.
Proof.
  split; [apply share_supply_eq_book; intro; reflexivity|].
  split; [apply unslashed_one_to_one; [reflexivity|intros _ d; reflexivity]|].
  split; [apply ids_stay_bounded; intros u []|]. vm_compute. repeat split.
Qed.

(* the governance slash path (slashing proposal handler): before 27b0386 it always panicked (state unchanged); now it
   slashes, and redemption after it is pro rata: 50 of the remaining 100 stake cost 100 of the 200 shares *)
Example governance_slash_then_pro_rata :
  (let s := run tree_r2 demo_cfg [ODelegate 0 [(0, 100)]; ODelegate 1 [(0, 100)]; OSlashProposal HALF] demo_init in
   slashed s = 0 /\ stake s 0 = 200) /\
  (let s := run tree_r3 demo_cfg [ODelegate 0 [(0, 100)]; ODelegate 1 [(0, 100)]; OSlashProposal HALF] demo_init in
   slashed s = HALF /\ stake s 0 = 100 /\ shares s 0 = 200 /\ redeem_coins tree_r3 s [(0, 50)] = Ok [(0, 100)] /\
   is_ok (undelegate tree_r3 demo_cfg 0 [(0, 100)] s) = false /\ is_ok (undelegate tree_r3 demo_cfg 0 [(0, 50)] s) = true).
Proof. vm_compute. repeat split. Qed.
(* with the empty-burn guard a later slash by exactly 0 succeeds and resets Slashed to 0 while stake < shares:
   the 1:1 invariant of "unslashed" pools no longer holds in that variant (delegation is re-opened at 1:1) *)
Theorem unslashed_one_to_one_refuted_with_guard :
  let s := run tree_r3 demo_cfg [ODelegate 0 [(0, 100)]; ODelegate 1 [(0, 100)]; OSlash HALF; OSlash 0] demo_init in
  slashed s = 0 /\ stake s 0 = 100 /\ shares s 0 = 200.
Proof. vm_compute. repeat split. Qed.

(* a refused auto-compounding: the delegator compounds everything, the pool is slashed (Delegate refuses), the
   validator has a signing record and fees arrive.  Before a2421a4 the allocation PANICS (inside BeginBlock); now the
   compounding branch is discarded, the reward stays credited and nothing is staked *)
Definition refused_compound_ops : list op :=
  [ODelegate 0 [(0, 1000)]; OSetCompound 0 true []; OSlash HALF; OSetVotes [(0, 7); (0, 8); (0, 9); (0, 10)]; OFees [(0, 4000)]].
Example refused_compound_panicked_before :
  is_panic (step tree_r3 demo_cfg (OAllocate true 0) (run tree_r3 demo_cfg refused_compound_ops demo_init)) = true.
Proof. vm_compute. reflexivity. Qed.
Theorem refused_compound_keeps_rewards :
  let s0 := run tree_r4 demo_cfg refused_compound_ops demo_init in
  let s := run tree_r4 demo_cfg [OAllocate true 0] s0 in
  is_ok (step tree_r4 demo_cfg (OAllocate true 0) s0) = true /\ rew s0 0 0 = 0 /\ 0 < rew s 0 0 /\ stake s 0 = stake s0 0 /\
  0 < nbal s 100 0.
Proof. vm_compute. repeat split. Qed.

(* the genesis round trip keeps every pending undelegation record, the pool books, the share supply and the reward
   records, and leaves the id counter at or above every pending id: the next Undelegate cannot reuse a pending id *)
Theorem genesis_roundtrip_keeps_records : forall s s', genesis_roundtrip s = Ok s' ->
  undels s' = undels s /\ rew s' = rew s /\ stake s' = stake s /\ shares s' = shares s /\ ssup s' = ssup s /\ sbal s' = sbal s /\
  modb s' = modb s /\ (forall u, In u (undels s') -> u_id u < last s' + 1).
Proof.
  intros s s' H. assert (B : ids_bounded s').
  {     unfold genesis_roundtrip in H. inversion H; subst. intros u U. ssimpl. unfold max_undel_id.
    assert (M : forall l m, m <= fold_left (fun m u => Z.max m (u_id u)) l m)
      by (induction l as [|x r IH]; intro m; simpl; [lia|]; specialize (IH (Z.max m (u_id x))); lia).
    assert (K : forall l m, In u l -> u_id u <= fold_left (fun m u => Z.max m (u_id u)) l m).
    { induction l as [|x r IH]; intros m E; simpl; [destruct E|]. destruct E as [E|E].
      - subst x. specialize (M r (Z.max m (u_id u))). lia.
      - apply IH. exact E. }
    apply K. exact U. }
  unfold genesis_roundtrip in H. inversion H; subst. ssimpl. repeat split. intros u U. specialize (B u U). ssimpl. lia.
Qed.
