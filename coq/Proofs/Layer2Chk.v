(* The spec checker of Model/C20Check.v accepts the runs of the model: every observed-state clause
   (total-sum, max, held) after any history of messages and blocks, and the user-message clauses
   (escrow, frame, reject) on every create / bond / reclaim step.  This is what connects "the real
   trace passes the checker and equals the model's trace" with the theorems of Proofs/Layer2.v. *)
From Sekai Require Import Base.Prelude Base.Dec Model.Layer2 Model.C20Check Proofs.Layer2 Proofs.Layer2All.
From Coq Require Import ZifyBool.

(* the observation the harness would make of a model state (LP part: the denominations asked for) *)
Definition lp_snap (users : list string) (l : ledger) (den : string) : string * Z * Z * Z * list Z :=
  (den, bal SUPPLY den l, bal MOD den l, bal SPEND den l, map (fun u => bal u den l) users).
Definition snap (users dens : list string) (ok : bool) (st : state) : obs :=
  mkObs ok (map (fun d => (d_name d, d_status d, d_total d)) (dapps st)) (bonds st) (bal MOD UKEX (led st))
        (map (fun u => bal u UKEX (led st)) users) (map (lp_snap users (led st)) dens).

Lemma cl_nil name b : b = true -> cl name b = [].
Proof. intros ->. reflexivity. Qed.

Lemma cl3 a b c x y z : x = true -> y = true -> z = true -> cl a x ++ cl b y ++ cl c z = [].
Proof. intros -> -> ->. reflexivity. Qed.
Lemma cl2 a b x y : x = true -> y = true -> cl a x ++ cl b y = [].
Proof. intros -> ->. reflexivity. Qed.

Lemma obonds_of_snap users dens ok st n : zsum (map snd (obonds_of (snap users dens ok st) n)) = sum_bonds n (bonds st).
Proof. reflexivity. Qed.

Lemma totals_snap users dens ok st : zsum (map snd (o_dapps (snap users dens ok st))) = sum_totals (dapps st).
Proof. simpl. rewrite map_map. reflexivity. Qed.

Lemma state_clauses_sound c N Us k users dens ok st : 0 <= k -> Inv c N Us k st -> state_clauses (max_thr c) (snap users dens ok st) = [].
Proof.
  intros Hk I. unfold state_clauses. apply cl3.
  3: { rewrite totals_snap. simpl. pose proof (i_held _ _ _ _ _ I). lia. }
  2: { apply forallb_forall. intros e He. simpl in He. apply in_map_iff in He. destruct He as (d & <- & Hd). simpl.
    destruct (d_status d =? 0) eqn:S; [|reflexivity]. simpl.
    assert (F : find_dapp (d_name d) (dapps st) = Some d) by (apply In_find; auto; apply (i_uniq _ _ _ _ _ I)).
    pose proof (i_max _ _ _ _ _ I _ d F). lia. }
  apply forallb_forall. intros e He. simpl in He. apply in_map_iff in He. destruct He as (d & <- & Hd). simpl fst. simpl snd.
    destruct (d_status d =? 0) eqn:S; [|reflexivity]. simpl. rewrite obonds_of_snap.
    assert (F : find_dapp (d_name d) (dapps st) = Some d) by (apply In_find; auto; apply (i_uniq _ _ _ _ _ I)).
    pose proof (i_sum _ _ _ _ _ I _ d F). lia.
Qed.

(* ---------------------------------------------------------------- user messages *)
Lemma uidx_from_spec u l : forall k, In u l -> exists i, uidx_from u l k = Some (k + i)%nat /\ nth i l ""%string = u /\ (i < List.length l)%nat.
Proof.
  induction l as [|x r IH]; intros k H; [destruct H|]. simpl. destruct (String.eqb u x) eqn:E.
  - apply String.eqb_eq in E. subst. exists 0%nat. rewrite Nat.add_0_r. split; [reflexivity|split; [reflexivity|simpl; lia]].
  - destruct H as [->|H]; [now rewrite String.eqb_refl in E|]. destruct (IH (S k) H) as (i & A & B & C).
    exists (S i). rewrite A. split; [f_equal; lia|split; [simpl; auto|simpl; lia]].
Qed.
Lemma uidx_spec users u : In u users -> exists i, uidx users u = Some i /\ nth i users ""%string = u /\ (i < List.length users)%nat.
Proof. intros H. destruct (uidx_from_spec u users 0 H) as (i & A & B & C). exists i. auto. Qed.

Lemma nth_map_bal (f : string -> Z) users i : (i < List.length users)%nat -> nth i (map f users) 0 = f (nth i users ""%string).
Proof. intros H. rewrite (nth_indep _ 0 (f ""%string)) by now rewrite map_length. apply map_nth. Qed.

Lemma obond_snap users dens ok st n u : (forall e, In e (bonds st) -> acct (snd (fst e)) = snd (fst e)) ->
  obond (snap users dens ok st) n u = bond_amt n u (bonds st).
Proof.
  intros Hc. unfold obond, bond_amt. simpl. f_equal. f_equal. apply filter_ext_in. intros e He. unfold bmatch, key_eqb.
  now rewrite (Hc e He), (String.eqb_sym n), (String.eqb_sym u).
Qed.

Lemma list_eqb_refl {A} (e : A -> A -> bool) l : (forall x, e x x = true) -> list_eqb e l l = true.
Proof. intros H. induction l; simpl; [reflexivity|]. now rewrite H, IHl. Qed.

Lemma same_state_refl users dens ok ok' st : same_state (snap users dens ok st) (snap users dens ok' st) = true.
Proof.
  unfold same_state. simpl. rewrite !list_eqb_refl; simpl; try lia; try apply Z.eqb_refl.
  - intros x. now rewrite !String.eqb_refl, Z.eqb_refl.
  - intros x. unfold dobs_eqb. now rewrite String.eqb_refl, !Z.eqb_refl.
Qed.

Definition op_actor (o : op) : option (string * string) :=
  match o with
  | OCreate u _ _ n _ _ | OBond u n _ _ | OReclaim u n _ _ => Some (u, n)
  | _ => None
  end.

Lemma own_flow o u n : op_actor o = Some (u, n) -> flow o n u = outflow o u
  /\ (forall n' u', key_eqb n' u' n u = false -> flow o n' u' = 0) /\ (forall u', u' <> u -> outflow o u' = 0).
Proof.
  destruct o; simpl; try discriminate; intros H; inversion H; subst; rewrite key_eqb_refl, String.eqb_refl;
    (split; [reflexivity|split; [intros n' u' K; now rewrite K|intros u' K; apply String.eqb_neq in K; now rewrite K]]).
Qed.

Section UserStep.
Variable v : variant.
Variable c : config.
Variable N Us : list string.
Variable k : Z.
Variable users dens : list string.
Hypothesis Hsep : separated v N Us.
Hypothesis Hus : users_ok Us.
Hypothesis Hcan : canonical Us.
Hypothesis Hnd : NoDup users.
Hypothesis Hum : users_ok users.

(* the checker's clauses for a create / bond / reclaim step hold between the model's snapshots *)
Lemma user_clauses_sound st o u n g :
  Inv c N Us k st -> op_in v c N Us o -> op_actor o = Some (u, n) -> In u users ->
  g_prev g = snap users dens true st ->
  user_clauses users g (snap users dens (is_ok (step v c st o)) (apply v c st o)) u n = [].
Proof.
  intros I Ho Ha Hu Hg.
  assert (HuUs : In u Us) by (destruct o; simpl in *; try discriminate; inversion Ha; subst; tauto).
  pose proof (Hcan u HuUs) as Hcu.
  assert (Cb : forall s, Inv c N Us k s -> forall e, In e (bonds s) -> acct (snd (fst e)) = snd (fst e)).
  { intros s Is e He. destruct (i_bonds _ _ _ _ _ Is e He) as (_ & B & _). now apply Hcan. }
  unfold user_clauses. cbv zeta. rewrite Hg, Hcu. simpl o_ok. unfold apply.
  assert (Huo : is_user_op o = true) by (destruct o; simpl in *; try discriminate; reflexivity).
  destruct (step v c st o) as [st'| |] eqn:E; simpl is_ok; cbv iota; try (apply cl_nil, same_state_refl).
  pose proof (step_inv v c N Us k Hsep Hus Hcan st o st' I Ho E) as I'.
  destruct (uidx_spec users u Hu) as (i & Hi & Hn & Hl). rewrite Hi.
  destruct (user_step v c N Us k Hsep Hus Hcan st o st' I Ho Huo E) as [P Q].
  destruct (own_flow o u n Ha) as (F1 & F2 & F3).
  assert (Hmu : u <> MOD) by now apply Hum.
  apply cl2.
  2: { unfold frame_ok. apply andb_true_iff. split.
    + apply forallb_forall. intros j Hj. apply in_seq in Hj. destruct (Nat.eqb j i) eqn:Ej; [reflexivity|]. simpl.
      unfold obal. simpl o_bals. rewrite !nth_map_bal by lia.
      assert (Hju : nth j users ""%string <> u).
      { intros Heq. apply Nat.eqb_neq in Ej. apply Ej. rewrite <- Hn in Heq.
        apply (proj1 (NoDup_nth users ""%string) Hnd); auto. lia. }
      rewrite Q; [rewrite (F3 _ Hju); lia|]. apply Hum, nth_In. lia.
    + apply forallb_forall. intros e He.
      assert (Hce : acct (snd (fst e)) = snd (fst e)).
      { simpl in He. apply in_app_or in He. destruct He as [He|He]; [apply (Cb st I e He)|apply (Cb st' I' e He)]. }
      rewrite Hce, !obond_snap by (apply Cb; assumption).
      destruct (String.eqb (fst (fst e)) n && String.eqb (snd (fst e)) u)%bool eqn:K; [reflexivity|]. simpl.
      rewrite P, F2; [lia|]. exact K. }
  unfold obal. simpl o_bals. rewrite !nth_map_bal by lia. rewrite Hn, !obond_snap by (apply Cb; assumption). rewrite P, Q, F1 by exact Hmu. lia.
Qed.
End UserStep.

(* observed-state clauses after any history of the repaired tree *)
Lemma state_clauses_sound_fixed v c users dens ok ops l :
  fixed v -> 0 <= bal MOD UKEX l -> Forall wf_op ops ->
  state_clauses (max_thr c) (snap users dens ok (run v c ops (empty_state l))) = [].
Proof. intros Hf Hl W. eapply state_clauses_sound; [exact Hl|]. apply (fixed_inv v c Hf ops l Hl W). Qed.

(* the pool-native clause (recorded pool bonds move exactly by the ukex entering / leaving the module) holds
   between the snapshots around EVERY operation inside its guard: messages, blocks, proposals, keeper-level LP calls *)
Lemma pool_native_sound v c N Us k users dens ok ok' st o :
  separated v N Us -> users_ok Us -> canonical Us -> Inv c N Us k st -> op_ok v c N Us st o ->
  cl "pool-native" (zsum (map snd (o_dapps (snap users dens ok' (apply v c st o)))) - zsum (map snd (o_dapps (snap users dens ok st)))
                    =? o_mod (snap users dens ok' (apply v c st o)) - o_mod (snap users dens ok st)) = [].
Proof.
  intros Hs Hu Hc I Ho. pose proof (apply_ok_inv v c N Us k Hs Hu Hc st o I Ho) as I'.
  apply cl_nil. rewrite !totals_snap. simpl. pose proof (i_held _ _ _ _ _ I). pose proof (i_held _ _ _ _ _ I'). lia.
Qed.
